import NdnModel.Cascade
/-!
  Specification vocabulary and helper lemmas for C14 (trust-schema validator).
-/
namespace Ndn.Cascade

variable {N : Type} [DecidableEq N]

/-- "the signature of `o` verifies under the public key `k`": the key is of the kind the declared
    signature type needs and the signature was produced by the holder of `k`'s private key
    (`Signed`, the ground truth).  No HMAC / digest / unknown-type signature ever verifies under a
    certificate's *public* key. -/
def Verifies (Signed : Key → Obj N → Prop) (k : Key) (o : Obj N) : Prop :=
  keyFits o.sigType k.kty = true ∧ Signed k o

/-- `ChainD E Signed d o`: there is a chain  o — certificate — … — trust anchor  with `d`
    certificates strictly between `o` and the anchor, in which every element names the next as its
    key, every link is allowed by the schema's signing check (which answers `True`, without raising),
    every signature verifies under the next certificate's public key, and every certificate on the way
    can be retrieved: the network answers the exact-name, must-be-fresh Interest for the key name
    (`certInterest kn`) with a Data of exactly that name.
    A name equal to the anchor's name denotes the anchor. -/
inductive ChainD (E : Env N) (Signed : Key → Obj N → Prop) : Nat → Obj N → Prop where
  | anchor (o : Obj N) :
      o.keyLoc = some E.anchorName → E.allowed o.name E.anchorName = .ok true →
      Verifies Signed E.anchorKey o → ChainD E Signed 0 o
  | step (o : Obj N) (kn : N) (c : Obj N) (k : Key) (d : Nat) :
      o.keyLoc = some kn → kn ≠ E.anchorName → E.allowed o.name kn = .ok true →
      E.world (certInterest kn) = some (.data c) → c.name = kn → c.content = some k →
      Verifies Signed k o → ChainD E Signed d c → ChainD E Signed (d + 1) o

def Chain (E : Env N) (Signed : Key → Obj N → Prop) (o : Obj N) : Prop := ∃ d, ChainD E Signed d o

/-- invariant of an instance's key storage: every cached key is the key of a certificate that is
    retrievable in this world under that name and itself has a chain to this instance's anchor -/
def CacheInv (E : Env N) (Signed : Key → Obj N → Prop) (st : Cache N) : Prop :=
  ∀ n k, cacheLoad st n = some k →
    ∃ c, E.world (certInterest n) = some (.data c) ∧ c.name = n ∧ c.content = some k ∧ Chain E Signed c

/-- the ideal-signature hypotheses, always stated as hypotheses of theorems -/
def Unforgeable (E : Env N) (Signed : Key → Obj N → Prop) : Prop := ∀ k o, E.crypto k o = true → Signed k o
def Correct (E : Env N) (Signed : Key → Obj N → Prop) : Prop := ∀ k o, Signed k o → E.crypto k o = true

theorem cacheInv_nil (E : Env N) (Signed) : CacheInv E Signed [] := by
  intro n k h; simp [cacheLoad] at h

theorem cacheLoad_save (st : Cache N) (n m : N) (k : Key) :
    cacheLoad (cacheSave st n k) m = if n = m then some k else cacheLoad st m := by
  simp [cacheSave, cacheLoad]

omit [DecidableEq N] in
theorem verifySig_accept {crypto : Key → Obj N → Bool} {k : Key} {o : Obj N}
    (h : verifySig crypto k o = .accept) : keyFits o.sigType k.kty = true ∧ crypto k o = true := by
  unfold verifySig at h
  cases ht : o.sigType <;> rw [ht] at h <;> simp only [] at h
  case hmac => cases h
  case other => cases h
  all_goals
    split at h
    · rename_i hf
      split at h
      · rename_i hc; exact ⟨hf, hc⟩
      · cases h
    · cases h

omit [DecidableEq N] in
theorem verifySig_of_verifies {crypto : Key → Obj N → Bool} {k : Key} {o : Obj N}
    (hf : keyFits o.sigType k.kty = true) (hc : crypto k o = true) : verifySig crypto k o = .accept := by
  unfold verifySig
  cases ht : o.sigType <;> rw [ht] at hf <;> simp_all [keyFits]

omit [DecidableEq N] in
/-- `verifySig` under the ideal-signature hypotheses is exactly `Verifies` -/
theorem verifySig_iff (E : Env N) (Signed) (hu : Unforgeable E Signed) (hc : Correct E Signed) (k : Key) (o : Obj N) :
    verifySig E.crypto k o = .accept ↔ Verifies Signed k o := by
  constructor
  · intro h
    have := verifySig_accept h
    exact ⟨this.1, hu k o this.2⟩
  · intro h
    exact verifySig_of_verifies h.1 (hc k o h.2)

/-! ### certificate fetching: the reduction of `express_interest` -/

/-- the Interest sent for a key locator is satisfied by a returned Data iff the Data has exactly the
    requested name -/
theorem pitPasses_certInterest (kn : N) (c : Obj N) : pitPasses (certInterest kn) c = true ↔ c.name = kn := by
  simp only [pitPasses, certInterest, Bool.or_false]
  exact decide_eq_true_iff

/-- `express_interest` for a key locator hands a Data to the validator iff the network answered the
    exact-name, must-be-fresh Interest with a Data of exactly that name -/
theorem express_certInterest (E : Env N) (kn : N) (c : Obj N) :
    express E (certInterest kn) = some c ↔ E.world (certInterest kn) = some (.data c) ∧ c.name = kn := by
  unfold express
  cases hw : E.world (certInterest kn) with
  | none => simp
  | some out =>
    cases out with
    | data d =>
      by_cases hp : pitPasses (certInterest kn) d = true
      · simp only [hp, if_true, Option.some.injEq, Outcome.data.injEq]
        constructor
        · rintro rfl; exact ⟨rfl, (pitPasses_certInterest kn d).mp hp⟩
        · rintro ⟨rfl, _⟩; rfl
      · simp only [hp, Option.some.injEq, Outcome.data.injEq]
        constructor
        · intro h; cases h
        · rintro ⟨rfl, hn⟩; exact absurd ((pitPasses_certInterest kn d).mpr hn) hp
    | nack => simp
    | timeout => simp

/-! ### the validator against the specification -/

theorem validate_sound_aux (E : Env N) (Signed : Key → Obj N → Prop) (hu : Unforgeable E Signed) :
    ∀ fuel st o, CacheInv E Signed st → (validate E fuel st o).verdict = some .accept →
      Chain E Signed o := by
  intro fuel
  induction fuel with
  | zero => intro st o _ h; simp [validate] at h
  | succ f ih =>
    intro st o hinv h
    rw [validate] at h
    split at h
    · simp at h
    · rename_i kn hk
      split at h
      · simp at h
      · simp at h
      · rename_i ha
        split at h
        · rename_i hn
          simp only [Option.some.injEq] at h
          have hv := verifySig_accept h
          subst hn
          exact ⟨0, .anchor o hk ha ⟨hv.1, hu _ _ hv.2⟩⟩
        · rename_i hn
          split at h
          · rename_i k hl
            simp only [Option.some.injEq] at h
            have hv := verifySig_accept h
            obtain ⟨c, hw, hcn, hcc, d, hd⟩ := hinv kn k hl
            exact ⟨d + 1, .step o kn c k d hk hn ha hw hcn hcc ⟨hv.1, hu _ _ hv.2⟩ hd⟩
          · split at h
            · simp at h
            · rename_i c hex
              obtain ⟨hw, hcn⟩ := (express_certInterest E kn c).mp hex
              simp only [] at h
              split at h
              · simp at h
              · rename_i hacc
                split at h
                · simp at h
                · rename_i k hcc
                  simp only [Option.some.injEq] at h
                  have hv := verifySig_accept h
                  obtain ⟨d, hd⟩ := ih st c hinv hacc
                  exact ⟨d + 1, .step o kn c k d hk hn ha hw hcn hcc ⟨hv.1, hu _ _ hv.2⟩ hd⟩
              · simp at h
              · simp at h

theorem cache_inv_preserved_aux (E : Env N) (Signed : Key → Obj N → Prop) (hu : Unforgeable E Signed) :
    ∀ fuel st o, CacheInv E Signed st → CacheInv E Signed (validate E fuel st o).cache := by
  intro fuel
  induction fuel with
  | zero => intro st o h; simpa [validate] using h
  | succ f ih =>
    intro st o hinv
    rw [validate]
    split
    · exact hinv
    · rename_i kn hk
      split
      · exact hinv
      · exact hinv
      · split
        · exact hinv
        · split
          · exact hinv
          · split
            · exact hinv
            · rename_i c hex
              obtain ⟨hw, hcn⟩ := (express_certInterest E kn c).mp hex
              simp only []
              have hr := ih st c hinv
              split
              · exact hr
              · rename_i hacc
                split
                · exact hr
                · rename_i k hcc
                  intro n k' hl
                  rw [cacheLoad_save] at hl
                  split at hl
                  · rename_i hnn
                    subst hnn
                    cases hl
                    exact ⟨c, hw, hcn, hcc, validate_sound_aux E Signed hu f st c hinv hacc⟩
                  · exact hr n k' hl
              · exact hr
              · exact hr

theorem validate_complete_aux (E : Env N) (Signed : Key → Obj N → Prop) (hc : Correct E Signed) :
    ∀ d o, ChainD E Signed d o → ∀ fuel st, CacheInv E Signed st → d < fuel →
      (validate E fuel st o).verdict = some .accept := by
  intro d o h
  induction h with
  | anchor o hk ha hv =>
    intro fuel st _ hf
    obtain ⟨f, rfl⟩ : ∃ f, fuel = f + 1 := ⟨fuel - 1, by omega⟩
    rw [validate]
    simp [hk, ha, verifySig_of_verifies hv.1 (hc _ _ hv.2)]
  | step o kn c k d hk hn ha hw hcn hcc hv _ ih =>
    intro fuel st hinv hf
    obtain ⟨f, rfl⟩ : ∃ f, fuel = f + 1 := ⟨fuel - 1, by omega⟩
    have hex := (express_certInterest E kn c).mpr ⟨hw, hcn⟩
    rw [validate]
    simp only [hk, ha, hn, if_false]
    cases hl : cacheLoad st kn with
    | some k' =>
      obtain ⟨c', hw', _, hcc', _⟩ := hinv kn k' hl
      rw [hw] at hw'
      cases hw'
      rw [hcc] at hcc'
      cases hcc'
      simp [verifySig_of_verifies hv.1 (hc _ _ hv.2)]
    | none =>
      have := ih f st hinv (by omega)
      simp [hex, this, hcc, verifySig_of_verifies hv.1 (hc _ _ hv.2)]

/-- with a chain, whatever the fuel: either no verdict yet, or acceptance -/
theorem chain_verdict_aux (E : Env N) (Signed : Key → Obj N → Prop) (hc : Correct E Signed) :
    ∀ d o, ChainD E Signed d o → ∀ fuel st, CacheInv E Signed st →
      (validate E fuel st o).verdict = none ∨ (validate E fuel st o).verdict = some .accept := by
  intro d o h
  induction h with
  | anchor o hk ha hv =>
    intro fuel st _
    cases fuel with
    | zero => left; simp [validate]
    | succ f =>
      right
      rw [validate]
      simp [hk, ha, verifySig_of_verifies hv.1 (hc _ _ hv.2)]
  | step o kn c k d hk hn ha hw hcn hcc hv _ ih =>
    intro fuel st hinv
    cases fuel with
    | zero => left; simp [validate]
    | succ f =>
      have hex := (express_certInterest E kn c).mpr ⟨hw, hcn⟩
      rw [validate]
      simp only [hk, ha, hn, if_false]
      cases hl : cacheLoad st kn with
      | some k' =>
        obtain ⟨c', hw', _, hcc', _⟩ := hinv kn k' hl
        rw [hw] at hw'
        cases hw'
        rw [hcc] at hcc'
        cases hcc'
        simp [verifySig_of_verifies hv.1 (hc _ _ hv.2)]
      | none =>
        rcases ih f st hinv with h0 | h1
        · left; simp [hex, h0]
        · right; simp [hex, h1, hcc, verifySig_of_verifies hv.1 (hc _ _ hv.2)]

/-! ### exceptions, the Interests sent, where cached keys come from -/

omit [DecidableEq N] in
theorem verifySig_raise {crypto : Key → Obj N → Bool} {k : Key} {o : Obj N} {e : PyErr}
    (h : verifySig crypto k o = .raise e) : e = .valueError := by
  unfold verifySig at h
  cases ht : o.sigType <;> rw [ht] at h <;> simp only [] at h
  case hmac => cases h
  case other => cases h
  all_goals
    split at h
    · split at h <;> cases h
    · cases h; rfl

theorem raise_has_cause_aux (E : Env N) :
    ∀ fuel st o e, (validate E fuel st o).verdict = some (.raise e) →
      (∃ a b, E.allowed a b = .error e) ∨ e = .valueError := by
  intro fuel
  induction fuel with
  | zero => intro st o e h; simp [validate] at h
  | succ f ih =>
    intro st o e h
    rw [validate] at h
    split at h
    · simp at h
    · rename_i kn hk
      split at h
      · rename_i e' ha
        simp only [Option.some.injEq, Verdict.raise.injEq] at h
        subst h
        exact Or.inl ⟨_, _, ha⟩
      · simp at h
      · split at h
        · simp only [Option.some.injEq] at h
          exact Or.inr (verifySig_raise h)
        · split at h
          · simp only [Option.some.injEq] at h
            exact Or.inr (verifySig_raise h)
          · split at h
            · simp at h
            · rename_i c hex
              simp only [] at h
              split at h
              · simp at h
              · split at h
                · simp at h
                · simp only [Option.some.injEq] at h
                  exact Or.inr (verifySig_raise h)
              · simp at h
              · rename_i e' hr
                simp only [Option.some.injEq, Verdict.raise.injEq] at h
                subst h
                exact ih st c _ hr

theorem log_only_cert_aux (E : Env N) :
    ∀ fuel st o, ∀ i ∈ (validate E fuel st o).log, i = certInterest i.name := by
  intro fuel
  induction fuel with
  | zero => intro st o i hi; simp [validate] at hi
  | succ f ih =>
    intro st o i hi
    rw [validate] at hi
    split at hi
    · simp at hi
    · rename_i kn hk
      split at hi
      · simp at hi
      · simp at hi
      · split at hi
        · simp at hi
        · split at hi
          · simp at hi
          · split at hi
            · simp only [List.mem_singleton] at hi
              subst hi; rfl
            · rename_i c hex
              have hrec := ih st c
              simp only [] at hi
              split at hi
              · rcases List.mem_cons.mp hi with rfl | hi
                · rfl
                · exact hrec i hi
              · split at hi
                · rcases List.mem_cons.mp hi with rfl | hi
                  · rfl
                  · exact hrec i hi
                · rcases List.mem_cons.mp hi with rfl | hi
                  · rfl
                  · exact hrec i hi
              · rcases List.mem_cons.mp hi with rfl | hi
                · rfl
                · exact hrec i hi
              · rcases List.mem_cons.mp hi with rfl | hi
                · rfl
                · exact hrec i hi

theorem cached_origin_aux (E : Env N) :
    ∀ fuel st o n k, cacheLoad (validate E fuel st o).cache n = some k →
      cacheLoad st n = some k ∨
        (certInterest n ∈ (validate E fuel st o).log ∧
          ∃ c, E.world (certInterest n) = some (.data c) ∧ c.name = n ∧ c.content = some k) := by
  intro fuel
  induction fuel with
  | zero => intro st o n k h; left; simpa [validate] using h
  | succ f ih =>
    intro st o n k h
    generalize hres : validate E (f + 1) st o = res at h ⊢
    rw [validate] at hres
    split at hres
    · subst hres; exact Or.inl h
    · rename_i kn hk
      split at hres
      · subst hres; exact Or.inl h
      · subst hres; exact Or.inl h
      · split at hres
        · subst hres; exact Or.inl h
        · split at hres
          · subst hres; exact Or.inl h
          · split at hres
            · subst hres; exact Or.inl h
            · rename_i c hex
              obtain ⟨hw, hcn⟩ := (express_certInterest E kn c).mp hex
              have hrec := ih st c n k
              simp only [] at hres
              split at hres
              · subst hres
                rcases hrec h with h0 | ⟨hm, hc⟩
                · exact Or.inl h0
                · exact Or.inr ⟨List.mem_cons_of_mem _ hm, hc⟩
              · split at hres
                · subst hres
                  rcases hrec h with h0 | ⟨hm, hc⟩
                  · exact Or.inl h0
                  · exact Or.inr ⟨List.mem_cons_of_mem _ hm, hc⟩
                · rename_i k' hcc
                  subst hres
                  simp only [cacheLoad_save] at h
                  split at h
                  · rename_i hnn
                    subst hnn
                    cases h
                    exact Or.inr ⟨List.mem_cons_self, c, hw, hcn, hcc⟩
                  · rcases hrec h with h0 | ⟨hm, hc⟩
                    · exact Or.inl h0
                    · exact Or.inr ⟨List.mem_cons_of_mem _ hm, hc⟩
              · subst hres
                rcases hrec h with h0 | ⟨hm, hc⟩
                · exact Or.inl h0
                · exact Or.inr ⟨List.mem_cons_of_mem _ hm, hc⟩
              · subst hres
                rcases hrec h with h0 | ⟨hm, hc⟩
                · exact Or.inl h0
                · exact Or.inr ⟨List.mem_cons_of_mem _ hm, hc⟩

omit [DecidableEq N] in
/-- no chain starts inside a set of names that is closed under "key locator of the certificate
    retrievable under that name" and does not contain the anchor's name (certificate loops) -/
theorem no_chain_in_closed_set (E : Env N) (Signed : Key → Obj N → Prop) (S : N → Prop)
    (hS : ∀ n c, S n → E.world (certInterest n) = some (.data c) → ∃ m, c.keyLoc = some m ∧ S m)
    (hA : ¬ S E.anchorName) :
    ∀ d o, ChainD E Signed d o → ∀ n, o.keyLoc = some n → S n → False := by
  intro d o h
  induction h with
  | anchor o hk _ _ =>
    intro n hn hs
    rw [hk] at hn; cases hn; exact hA hs
  | step o kn c k d hk _ _ hw _ _ _ _ ih =>
    intro n hn hs
    rw [hk] at hn; cases hn
    obtain ⟨m, hm, hsm⟩ := hS _ c hs hw
    exact ih m hm hsm

theorem runHist_inv (E : Env N) (Signed : Key → Obj N → Prop) (hu : Unforgeable E Signed) :
    ∀ (h : List (Nat × Obj N)) st, CacheInv E Signed st → CacheInv E Signed (runHist E st h) := by
  intro h
  induction h with
  | nil => intro st hs; simpa [runHist] using hs
  | cons x r ih =>
    intro st hs
    obtain ⟨f, o⟩ := x
    simp only [runHist]
    exact ih _ (cache_inv_preserved_aux E Signed hu f st o hs)

/-- the storage of instance `i` after a system history is what `i` alone would have built from its
    own steps -/
theorem runSys_proj (envs : Nat → Env N) (i : Nat) :
    ∀ (h : List (Nat × Nat × Obj N)) (cs : Nat → Cache N),
      runSys envs cs h i =
        runHist (envs i) (cs i) ((h.filter fun s => s.1 = i).map fun s => s.2) := by
  intro h
  induction h with
  | nil => intro cs; simp [runSys, runHist]
  | cons x r ih =>
    intro cs
    obtain ⟨j, f, o⟩ := x
    simp only [runSys]
    rw [ih]
    by_cases hji : j = i
    · subst hji
      simp [setCache, runHist]
    · simp [setCache, hji, Ne.symm hji]

end Ndn.Cascade
