import NdnModel.Cascade
/-!
  Specification vocabulary and helper lemmas for C14 (trust-schema validator).
-/
namespace Ndn.Cascade

variable {N : Type} [DecidableEq N]

/-- "the signature of `o` verifies under the public key `k`": the key is of the kind the declared
    signature type needs and the signature was produced by the holder of `k`'s private key
    (`Signed`, the ground truth).  No HMAC / digest / unknown-type signature ever verifies under a
    certificate's *public* key. -/
def Verifies (Signed : Key → Obj N → Prop) (k : Key) (o : Obj N) : Prop :=
  keyFits o.sigType k.kty = true ∧ Signed k o

/-- `ChainD E Signed d o`: there is a chain  o — certificate — … — trust anchor  with `d`
    certificates strictly between `o` and the anchor, in which every element names the next as its
    key, every link is allowed by the schema's signing check (which answers `True`, without raising),
    every signature verifies under the next certificate's public key, and every certificate on the way
    can be retrieved: the network answers the exact-name, must-be-fresh Interest for the key name
    (`certInterest kn`) with a Data of exactly that name.
    A name equal to the anchor's name denotes the anchor. -/
inductive ChainD (E : Env N) (Signed : Key → Obj N → Prop) : Nat → Obj N → Prop where
  | anchor (o : Obj N) :
      o.keyLoc = some E.anchorName → E.allowed o.name E.anchorName = .ok true →
      Verifies Signed E.anchorKey o → ChainD E Signed 0 o
  | step (o : Obj N) (kn : N) (c : Obj N) (k : Key) (d : Nat) :
      o.keyLoc = some kn → kn ≠ E.anchorName → E.allowed o.name kn = .ok true →
      E.world (certInterest kn) = some (.data c) → c.name = kn → c.content = some k →
      Verifies Signed k o → ChainD E Signed d c → ChainD E Signed (d + 1) o

def Chain (E : Env N) (Signed : Key → Obj N → Prop) (o : Obj N) : Prop := ∃ d, ChainD E Signed d o

/-- invariant of an instance's key storage: every cached key is the key of a certificate that is
    retrievable in this world under that name and itself has a chain to this instance's anchor -/
def CacheInv (E : Env N) (Signed : Key → Obj N → Prop) (st : Cache N) : Prop :=
  ∀ n k, cacheLoad st n = some k →
    ∃ c, E.world (certInterest n) = some (.data c) ∧ c.name = n ∧ c.content = some k ∧ Chain E Signed c

/-- the ideal-signature hypotheses, always stated as hypotheses of theorems -/
def Unforgeable (E : Env N) (Signed : Key → Obj N → Prop) : Prop := ∀ k o, E.crypto k o = true → Signed k o
def Correct (E : Env N) (Signed : Key → Obj N → Prop) : Prop := ∀ k o, Signed k o → E.crypto k o = true

theorem cacheInv_nil (E : Env N) (Signed) : CacheInv E Signed [] := by
  intro n k h; simp [cacheLoad] at h

theorem cacheLoad_save (st : Cache N) (n m : N) (k : Key) :
    cacheLoad (cacheSave st n k) m = if n = m then some k else cacheLoad st m := by
  simp [cacheSave, cacheLoad]

omit [DecidableEq N] in
theorem verifySig_accept {crypto : Key → Obj N → Bool} {k : Key} {o : Obj N}
    (h : verifySig crypto k o = .accept) : keyFits o.sigType k.kty = true ∧ crypto k o = true := by
  unfold verifySig at h
  cases ht : o.sigType <;> rw [ht] at h <;> simp only [] at h
  case hmac => cases h
  case other => cases h
  all_goals
    split at h
    · rename_i hf
      split at h
      · rename_i hc; exact ⟨hf, hc⟩
      · cases h
    · cases h

omit [DecidableEq N] in
theorem verifySig_of_verifies {crypto : Key → Obj N → Bool} {k : Key} {o : Obj N}
    (hf : keyFits o.sigType k.kty = true) (hc : crypto k o = true) : verifySig crypto k o = .accept := by
  unfold verifySig
  cases ht : o.sigType <;> rw [ht] at hf <;> simp_all [keyFits]

omit [DecidableEq N] in
/-- `verifySig` under the ideal-signature hypotheses is exactly `Verifies` -/
theorem verifySig_iff (E : Env N) (Signed) (hu : Unforgeable E Signed) (hc : Correct E Signed) (k : Key) (o : Obj N) :
    verifySig E.crypto k o = .accept ↔ Verifies Signed k o := by
  constructor
  · intro h
    have := verifySig_accept h
    exact ⟨this.1, hu k o this.2⟩
  · intro h
    exact verifySig_of_verifies h.1 (hc k o h.2)

/-! ### certificate fetching: the reduction of `express_interest` -/

/-- the Interest sent for a key locator is satisfied by a returned Data iff the Data has exactly the
    requested name -/
theorem pitPasses_certInterest (kn : N) (c : Obj N) : pitPasses (certInterest kn) c = true ↔ c.name = kn := by
  simp only [pitPasses, certInterest, Bool.or_false]
  exact decide_eq_true_iff

/-- `express_interest` for a key locator hands a Data to the validator iff the network answered the
    exact-name, must-be-fresh Interest with a Data of exactly that name -/
theorem express_certInterest (E : Env N) (kn : N) (c : Obj N) :
    express E (certInterest kn) = some c ↔ E.world (certInterest kn) = some (.data c) ∧ c.name = kn := by
  unfold express
  cases hw : E.world (certInterest kn) with
  | none => simp
  | some out =>
    cases out with
    | data d =>
      by_cases hp : pitPasses (certInterest kn) d = true
      · simp only [hp, if_true, Option.some.injEq, Outcome.data.injEq]
        constructor
        · rintro rfl; exact ⟨rfl, (pitPasses_certInterest kn d).mp hp⟩
        · rintro ⟨rfl, _⟩; rfl
      · simp only [hp, Option.some.injEq, Outcome.data.injEq]
        constructor
        · intro h; cases h
        · rintro ⟨rfl, hn⟩; exact absurd ((pitPasses_certInterest kn d).mpr hn) hp
    | nack => simp
    | timeout => simp

/-! ### the validator against the specification -/

theorem validate_sound_aux (E : Env N) (Signed : Key → Obj N → Prop) (hu : Unforgeable E Signed) :
    ∀ fuel st o, CacheInv E Signed st → (validate E fuel st o).verdict = some .accept →
      Chain E Signed o := by
  intro fuel
  induction fuel with
  | zero => intro st o _ h; simp [validate] at h
  | succ f ih =>
    intro st o hinv h
    rw [validate] at h
    split at h
    · simp at h
    · rename_i kn hk
      split at h
      · simp at h
      · simp at h
      · rename_i ha
        split at h
        · rename_i hn
          simp only [Option.some.injEq] at h
          have hv := verifySig_accept h
          subst hn
          exact ⟨0, .anchor o hk ha ⟨hv.1, hu _ _ hv.2⟩⟩
        · rename_i hn
          split at h
          · rename_i k hl
            simp only [Option.some.injEq] at h
            have hv := verifySig_accept h
            obtain ⟨c, hw, hcn, hcc, d, hd⟩ := hinv kn k hl
            exact ⟨d + 1, .step o kn c k d hk hn ha hw hcn hcc ⟨hv.1, hu _ _ hv.2⟩ hd⟩
          · split at h
            · simp at h
            · rename_i c hex
              obtain ⟨hw, hcn⟩ := (express_certInterest E kn c).mp hex
              simp only [] at h
              split at h
              · simp at h
              · rename_i hacc
                split at h
                · simp at h
                · rename_i k hcc
                  simp only [Option.some.injEq] at h
                  have hv := verifySig_accept h
                  obtain ⟨d, hd⟩ := ih st c hinv hacc
                  exact ⟨d + 1, .step o kn c k d hk hn ha hw hcn hcc ⟨hv.1, hu _ _ hv.2⟩ hd⟩
              · simp at h
              · simp at h

theorem cache_inv_preserved_aux (E : Env N) (Signed : Key → Obj N → Prop) (hu : Unforgeable E Signed) :
    ∀ fuel st o, CacheInv E Signed st → CacheInv E Signed (validate E fuel st o).cache := by
  intro fuel
  induction fuel with
  | zero => intro st o h; simpa [validate] using h
  | succ f ih =>
    intro st o hinv
    rw [validate]
    split
    · exact hinv
    · rename_i kn hk
      split
      · exact hinv
      · exact hinv
      · split
        · exact hinv
        · split
          · exact hinv
          · split
            · exact hinv
            · rename_i c hex
              obtain ⟨hw, hcn⟩ := (express_certInterest E kn c).mp hex
              simp only []
              have hr := ih st c hinv
              split
              · exact hr
              · rename_i hacc
                split
                · exact hr
                · rename_i k hcc
                  intro n k' hl
                  rw [cacheLoad_save] at hl
                  split at hl
                  · rename_i hnn
                    subst hnn
                    cases hl
                    exact ⟨c, hw, hcn, hcc, validate_sound_aux E Signed hu f st c hinv hacc⟩
                  · exact hr n k' hl
              · exact hr
              · exact hr

theorem validate_complete_aux (E : Env N) (Signed : Key → Obj N → Prop) (hc : Correct E Signed) :
    ∀ d o, ChainD E Signed d o → ∀ fuel st, CacheInv E Signed st → d < fuel →
      (validate E fuel st o).verdict = some .accept := by
  intro d o h
  induction h with
  | anchor o hk ha hv =>
    intro fuel st _ hf
    obtain ⟨f, rfl⟩ : ∃ f, fuel = f + 1 := ⟨fuel - 1, by omega⟩
    rw [validate]
    simp [hk, ha, verifySig_of_verifies hv.1 (hc _ _ hv.2)]
  | step o kn c k d hk hn ha hw hcn hcc hv _ ih =>
    intro fuel st hinv hf
    obtain ⟨f, rfl⟩ : ∃ f, fuel = f + 1 := ⟨fuel - 1, by omega⟩
    have hex := (express_certInterest E kn c).mpr ⟨hw, hcn⟩
    rw [validate]
    simp only [hk, ha, hn, if_false]
    cases hl : cacheLoad st kn with
    | some k' =>
      obtain ⟨c', hw', _, hcc', _⟩ := hinv kn k' hl
      rw [hw] at hw'
      cases hw'
      rw [hcc] at hcc'
      cases hcc'
      simp [verifySig_of_verifies hv.1 (hc _ _ hv.2)]
    | none =>
      have := ih f st hinv (by omega)
      simp [hex, this, hcc, verifySig_of_verifies hv.1 (hc _ _ hv.2)]

/-- with a chain, whatever the fuel: either no verdict yet, or acceptance -/
theorem chain_verdict_aux (E : Env N) (Signed : Key → Obj N → Prop) (hc : Correct E Signed) :
    ∀ d o, ChainD E Signed d o → ∀ fuel st, CacheInv E Signed st →
      (validate E fuel st o).verdict = none ∨ (validate E fuel st o).verdict = some .accept := by
  intro d o h
  induction h with
  | anchor o hk ha hv =>
    intro fuel st _
    cases fuel with
    | zero => left; simp [validate]
    | succ f =>
      right
      rw [validate]
      simp [hk, ha, verifySig_of_verifies hv.1 (hc _ _ hv.2)]
  | step o kn c k d hk hn ha hw hcn hcc hv _ ih =>
    intro fuel st hinv
    cases fuel with
    | zero => left; simp [validate]
    | succ f =>
      have hex := (express_certInterest E kn c).mpr ⟨hw, hcn⟩
      rw [validate]
      simp only [hk, ha, hn, if_false]
      cases hl : cacheLoad st kn with
      | some k' =>
        obtain ⟨c', hw', _, hcc', _⟩ := hinv kn k' hl
        rw [hw] at hw'
        cases hw'
        rw [hcc] at hcc'
        cases hcc'
        simp [verifySig_of_verifies hv.1 (hc _ _ hv.2)]
      | none =>
        rcases ih f st hinv with h0 | h1
        · left; simp [hex, h0]
        · right; simp [hex, h1, hcc, verifySig_of_verifies hv.1 (hc _ _ hv.2)]

/-! ### exceptions, the Interests sent, where cached keys come from -/

omit [DecidableEq N] in
theorem verifySig_raise {crypto : Key → Obj N → Bool} {k : Key} {o : Obj N} {e : PyErr}
    (h : verifySig crypto k o = .raise e) : e = .valueError := by
  unfold verifySig at h
  cases ht : o.sigType <;> rw [ht] at h <;> simp only [] at h
  case hmac => cases h
  case other => cases h
  all_goals
    split at h
    · split at h <;> cases h
    · cases h; rfl

theorem raise_has_cause_aux (E : Env N) :
    ∀ fuel st o e, (validate E fuel st o).verdict = some (.raise e) →
      (∃ a b, E.allowed a b = .error e) ∨ e = .valueError := by
  intro fuel
  induction fuel with
  | zero => intro st o e h; simp [validate] at h
  | succ f ih =>
    intro st o e h
    rw [validate] at h
    split at h
    · simp at h
    · rename_i kn hk
      split at h
      · rename_i e' ha
        simp only [Option.some.injEq, Verdict.raise.injEq] at h
        subst h
        exact Or.inl ⟨_, _, ha⟩
      · simp at h
      · split at h
        · simp only [Option.some.injEq] at h
          exact Or.inr (verifySig_raise h)
        · split at h
          · simp only [Option.some.injEq] at h
            exact Or.inr (verifySig_raise h)
          · split at h
            · simp at h
            · rename_i c hex
              simp only [] at h
              split at h
              · simp at h
              · split at h
                · simp at h
                · simp only [Option.some.injEq] at h
                  exact Or.inr (verifySig_raise h)
              · simp at h
              · rename_i e' hr
                simp only [Option.some.injEq, Verdict.raise.injEq] at h
                subst h
                exact ih st c _ hr

theorem log_only_cert_aux (E : Env N) :
    ∀ fuel st o, ∀ i ∈ (validate E fuel st o).log, i = certInterest i.name := by
  intro fuel
  induction fuel with
  | zero => intro st o i hi; simp [validate] at hi
  | succ f ih =>
    intro st o i hi
    rw [validate] at hi
    split at hi
    · simp at hi
    · rename_i kn hk
      split at hi
      · simp at hi
      · simp at hi
      · split at hi
        · simp at hi
        · split at hi
          · simp at hi
          · split at hi
            · simp only [List.mem_singleton] at hi
              subst hi; rfl
            · rename_i c hex
              have hrec := ih st c
              simp only [] at hi
              split at hi
              · rcases List.mem_cons.mp hi with rfl | hi
                · rfl
                · exact hrec i hi
              · split at hi
                · rcases List.mem_cons.mp hi with rfl | hi
                  · rfl
                  · exact hrec i hi
                · rcases List.mem_cons.mp hi with rfl | hi
                  · rfl
                  · exact hrec i hi
              · rcases List.mem_cons.mp hi with rfl | hi
                · rfl
                · exact hrec i hi
              · rcases List.mem_cons.mp hi with rfl | hi
                · rfl
                · exact hrec i hi

theorem cached_origin_aux (E : Env N) :
    ∀ fuel st o n k, cacheLoad (validate E fuel st o).cache n = some k →
      cacheLoad st n = some k ∨
        (certInterest n ∈ (validate E fuel st o).log ∧
          ∃ c, E.world (certInterest n) = some (.data c) ∧ c.name = n ∧ c.content = some k) := by
  intro fuel
  induction fuel with
  | zero => intro st o n k h; left; simpa [validate] using h
  | succ f ih =>
    intro st o n k h
    generalize hres : validate E (f + 1) st o = res at h ⊢
    rw [validate] at hres
    split at hres
    · subst hres; exact Or.inl h
    · rename_i kn hk
      split at hres
      · subst hres; exact Or.inl h
      · subst hres; exact Or.inl h
      · split at hres
        · subst hres; exact Or.inl h
        · split at hres
          · subst hres; exact Or.inl h
          · split at hres
            · subst hres; exact Or.inl h
            · rename_i c hex
              obtain ⟨hw, hcn⟩ := (express_certInterest E kn c).mp hex
              have hrec := ih st c n k
              simp only [] at hres
              split at hres
              · subst hres
                rcases hrec h with h0 | ⟨hm, hc⟩
                · exact Or.inl h0
                · exact Or.inr ⟨List.mem_cons_of_mem _ hm, hc⟩
              · split at hres
                · subst hres
                  rcases hrec h with h0 | ⟨hm, hc⟩
                  · exact Or.inl h0
                  · exact Or.inr ⟨List.mem_cons_of_mem _ hm, hc⟩
                · rename_i k' hcc
                  subst hres
                  simp only [cacheLoad_save] at h
                  split at h
                  · rename_i hnn
                    subst hnn
                    cases h
                    exact Or.inr ⟨List.mem_cons_self, c, hw, hcn, hcc⟩
                  · rcases hrec h with h0 | ⟨hm, hc⟩
                    · exact Or.inl h0
                    · exact Or.inr ⟨List.mem_cons_of_mem _ hm, hc⟩
              · subst hres
                rcases hrec h with h0 | ⟨hm, hc⟩
                · exact Or.inl h0
                · exact Or.inr ⟨List.mem_cons_of_mem _ hm, hc⟩
              · subst hres
                rcases hrec h with h0 | ⟨hm, hc⟩
                · exact Or.inl h0
                · exact Or.inr ⟨List.mem_cons_of_mem _ hm, hc⟩

omit [DecidableEq N] in
/-- no chain starts inside a set of names that is closed under "key locator of the certificate
    retrievable under that name" and does not contain the anchor's name (certificate loops) -/
theorem no_chain_in_closed_set (E : Env N) (Signed : Key → Obj N → Prop) (S : N → Prop)
    (hS : ∀ n c, S n → E.world (certInterest n) = some (.data c) → ∃ m, c.keyLoc = some m ∧ S m)
    (hA : ¬ S E.anchorName) :
    ∀ d o, ChainD E Signed d o → ∀ n, o.keyLoc = some n → S n → False := by
  intro d o h
  induction h with
  | anchor o hk _ _ =>
    intro n hn hs
    rw [hk] at hn; cases hn; exact hA hs
  | step o kn c k d hk _ _ hw _ _ _ _ ih =>
    intro n hn hs
    rw [hk] at hn; cases hn
    obtain ⟨m, hm, hsm⟩ := hS _ c hs hw
    exact ih m hm hsm

theorem runHist_inv (E : Env N) (Signed : Key → Obj N → Prop) (hu : Unforgeable E Signed) :
    ∀ (h : List (Nat × Obj N)) st, CacheInv E Signed st → CacheInv E Signed (runHist E st h) := by
  intro h
  induction h with
  | nil => intro st hs; simpa [runHist] using hs
  | cons x r ih =>
    intro st hs
    obtain ⟨f, o⟩ := x
    simp only [runHist]
    exact ih _ (cache_inv_preserved_aux E Signed hu f st o hs)

/-- the storage of instance `i` after a system history is what `i` alone would have built from its
    own steps -/
theorem runSys_proj (envs : Nat → Env N) (i : Nat) :
    ∀ (h : List (Nat × Nat × Obj N)) (cs : Nat → Cache N),
      runSys envs cs h i =
        runHist (envs i) (cs i) ((h.filter fun s => s.1 = i).map fun s => s.2) := by
  intro h
  induction h with
  | nil => intro cs; simp [runSys, runHist]
  | cons x r ih =>
    intro cs
    obtain ⟨j, f, o⟩ := x
    simp only [runSys]
    rw [ih]
    by_cases hji : j = i
    · subst hji
      simp [setCache, runHist]
    · simp [setCache, hji, Ne.symm hji]

/-! ## a certificate world that changes, an explicit key storage

  Specification vocabulary (no mention of the implementation):
  * `ChainC R E Signed T d o` — a chain from `o` towards the anchor of `E` whose links satisfy `R`, in the world of `E`
    AS IT IS NOW, that may end early at a link to a key `T` vouches for (`T kn k`: "the certificate named `kn`, with key
    `k`, is trusted from before") — `d` certificates are retrieved now;
  * `TrustedD R cfgs Signed w T h` — what the storage objects may vouch for after the history `h` that started in the
    world `w` with `T`: what `T` vouched for, and every `(name, key)` such that, at the time of some `validate` event
    of an instance holding that storage object, the network answered the certificate Interest for the name with a
    certificate of that name and key that had a chain (in this same sense, at that time) to the anchor of that instance;
  * `worldsOf w h` — every state the network went through; `KeyStable ws now` — a name denotes one key: whatever was
    served under a name in one of the states `ws` carries the key bits of what is served under it now.
-/

/-- the link relation the validator itself uses -/
def AllowedR (allowed : N → N → Except PyErr Bool) : N → N → Prop := fun a b => allowed a b = .ok true

inductive ChainC (R : N → N → Prop) (E : Env N) (Signed : Key → Obj N → Prop) (T : N → Key → Prop) :
    Nat → Obj N → Prop where
  | anchor (o : Obj N) :
      o.keyLoc = some E.anchorName → R o.name E.anchorName →
      Verifies Signed E.anchorKey o → ChainC R E Signed T 0 o
  | step (o : Obj N) (kn : N) (c : Obj N) (k : Key) (d : Nat) :
      o.keyLoc = some kn → kn ≠ E.anchorName → R o.name kn →
      E.world (certInterest kn) = some (.data c) → c.name = kn → c.content = some k →
      Verifies Signed k o → ChainC R E Signed T d c → ChainC R E Signed T (d + 1) o
  | cached (o : Obj N) (kn : N) (k : Key) :
      o.keyLoc = some kn → kn ≠ E.anchorName → R o.name kn →
      T kn k → Verifies Signed k o → ChainC R E Signed T 0 o

omit [DecidableEq N] in
theorem ChainC.mono {R R' : N → N → Prop} {E : Env N} {Signed : Key → Obj N → Prop} {T T' : N → Key → Prop}
    (hR : ∀ a b, R a b → R' a b) (hT : ∀ n k, T n k → T' n k) {d : Nat} {o : Obj N}
    (h : ChainC R E Signed T d o) : ChainC R' E Signed T' d o := by
  induction h with
  | anchor o hk ha hv => exact .anchor o hk (hR _ _ ha) hv
  | step o kn c k d hk hn ha hw hcn hcc hv _ ih => exact .step o kn c k d hk hn (hR _ _ ha) hw hcn hcc hv ih
  | cached o kn k hk hn ha ht hv => exact .cached o kn k hk hn (hR _ _ ha) (hT _ _ ht) hv

omit [DecidableEq N] in
/-- a chain that relies on nothing from before is a chain of the static specification, and conversely -/
theorem chainC_false_iff (E : Env N) (Signed : Key → Obj N → Prop) (d : Nat) (o : Obj N) :
    ChainC (AllowedR E.allowed) E Signed (fun _ _ => False) d o ↔ ChainD E Signed d o := by
  constructor
  · intro h
    induction h with
    | anchor o hk ha hv => exact .anchor o hk ha hv
    | step o kn c k d hk hn ha hw hcn hcc hv _ ih => exact .step o kn c k d hk hn ha hw hcn hcc hv ih
    | cached o kn k _ _ _ ht _ => exact ht.elim
  · intro h
    induction h with
    | anchor o hk ha hv => exact .anchor o hk ha hv
    | step o kn c k d hk hn ha hw hcn hcc hv _ ih => exact .step o kn c k d hk hn ha hw hcn hcc hv ih

omit [DecidableEq N] in
theorem chainC_of_chainD (E : Env N) (Signed : Key → Obj N → Prop) (T : N → Key → Prop) (d : Nat) (o : Obj N)
    (h : ChainD E Signed d o) : ChainC (AllowedR E.allowed) E Signed T d o :=
  ChainC.mono (fun _ _ h => h) (fun _ _ h => h.elim) ((chainC_false_iff E Signed d o).mpr h)

/-- the storage vouches only for what `T` vouches for -/
def Trusts (st : Cache N) (T : N → Key → Prop) : Prop := ∀ n k, cacheLoad st n = some k → T n k

theorem trusts_nil (T : N → Key → Prop) : Trusts ([] : Cache N) T := by
  intro n k h; simp [cacheLoad] at h

/-- soundness relative to the storage: an acceptance has a chain in the world as it is now that may end at a key the
    storage held when the validation began -/
theorem validate_sound_c (E : Env N) (Signed : Key → Obj N → Prop) (hu : Unforgeable E Signed) (T : N → Key → Prop) :
    ∀ fuel st o, Trusts st T → (validate E fuel st o).verdict = some .accept →
      ∃ d, ChainC (AllowedR E.allowed) E Signed T d o := by
  intro fuel
  induction fuel with
  | zero => intro st o _ h; simp [validate] at h
  | succ f ih =>
    intro st o hinv h
    rw [validate] at h
    split at h
    · simp at h
    · rename_i kn hk
      split at h
      · simp at h
      · simp at h
      · rename_i ha
        split at h
        · rename_i hn
          simp only [Option.some.injEq] at h
          have hv := verifySig_accept h
          subst hn
          exact ⟨0, .anchor o hk ha ⟨hv.1, hu _ _ hv.2⟩⟩
        · rename_i hn
          split at h
          · rename_i k hl
            simp only [Option.some.injEq] at h
            have hv := verifySig_accept h
            exact ⟨0, .cached o kn k hk hn ha (hinv kn k hl) ⟨hv.1, hu _ _ hv.2⟩⟩
          · split at h
            · simp at h
            · rename_i c hex
              obtain ⟨hw, hcn⟩ := (express_certInterest E kn c).mp hex
              simp only [] at h
              split at h
              · simp at h
              · rename_i hacc
                split at h
                · simp at h
                · rename_i k hcc
                  simp only [Option.some.injEq] at h
                  have hv := verifySig_accept h
                  obtain ⟨d, hd⟩ := ih st c hinv hacc
                  exact ⟨d + 1, .step o kn c k d hk hn ha hw hcn hcc ⟨hv.1, hu _ _ hv.2⟩ hd⟩
              · simp at h
              · simp at h

/-- what a validation adds to the storage: keys of certificates that were retrievable under exactly that name during
    this validation and had a chain (relative to the storage at the beginning) -/
theorem validate_cache_new (E : Env N) (Signed : Key → Obj N → Prop) (hu : Unforgeable E Signed) (T : N → Key → Prop) :
    ∀ fuel st o, Trusts st T → ∀ n k, cacheLoad (validate E fuel st o).cache n = some k →
      cacheLoad st n = some k ∨
        ∃ c, E.world (certInterest n) = some (.data c) ∧ c.name = n ∧ c.content = some k ∧
          ∃ d, ChainC (AllowedR E.allowed) E Signed T d c := by
  intro fuel
  induction fuel with
  | zero => intro st o _ n k h; left; simpa [validate] using h
  | succ f ih =>
    intro st o hinv n k h
    generalize hres : validate E (f + 1) st o = res at h
    rw [validate] at hres
    split at hres
    · subst hres; exact Or.inl h
    · rename_i kn hk
      split at hres
      · subst hres; exact Or.inl h
      · subst hres; exact Or.inl h
      · split at hres
        · subst hres; exact Or.inl h
        · split at hres
          · subst hres; exact Or.inl h
          · split at hres
            · subst hres; exact Or.inl h
            · rename_i c hex
              obtain ⟨hw, hcn⟩ := (express_certInterest E kn c).mp hex
              have hrec := ih st c hinv n k
              simp only [] at hres
              split at hres
              · subst hres; exact hrec h
              · rename_i hacc
                split at hres
                · subst hres; exact hrec h
                · rename_i k' hcc
                  subst hres
                  simp only [cacheLoad_save] at h
                  split at h
                  · rename_i hnn
                    subst hnn
                    cases h
                    exact Or.inr ⟨c, hw, hcn, hcc, validate_sound_c E Signed hu T f st c hinv hacc⟩
                  · exact hrec h
              · subst hres; exact hrec h
              · subst hres; exact hrec h

/-- the storage holds no key other than the one the certificate retrievable under that name now carries -/
def CacheAgrees (E : Env N) (st : Cache N) : Prop :=
  ∀ n k c, cacheLoad st n = some k → E.world (certInterest n) = some (.data c) → c.name = n → c.content = some k

theorem cacheAgrees_nil (E : Env N) : CacheAgrees E [] := by
  intro n k c h; simp [cacheLoad] at h

/-- completeness from ANY storage that does not contradict the world as it is now -/
theorem validate_complete_agree (E : Env N) (Signed : Key → Obj N → Prop) (hc : Correct E Signed) :
    ∀ d o, ChainD E Signed d o → ∀ fuel st, CacheAgrees E st → d < fuel →
      (validate E fuel st o).verdict = some .accept := by
  intro d o h
  induction h with
  | anchor o hk ha hv =>
    intro fuel st _ hf
    obtain ⟨f, rfl⟩ : ∃ f, fuel = f + 1 := ⟨fuel - 1, by omega⟩
    rw [validate]
    simp [hk, ha, verifySig_of_verifies hv.1 (hc _ _ hv.2)]
  | step o kn c k d hk hn ha hw hcn hcc hv _ ih =>
    intro fuel st hinv hf
    obtain ⟨f, rfl⟩ : ∃ f, fuel = f + 1 := ⟨fuel - 1, by omega⟩
    have hex := (express_certInterest E kn c).mpr ⟨hw, hcn⟩
    rw [validate]
    simp only [hk, ha, hn, if_false]
    cases hl : cacheLoad st kn with
    | some k' =>
      have hcc' := hinv kn k' c hl hw hcn
      rw [hcc] at hcc'
      cases hcc'
      simp [verifySig_of_verifies hv.1 (hc _ _ hv.2)]
    | none =>
      have := ih f st hinv (by omega)
      simp [hex, this, hcc, verifySig_of_verifies hv.1 (hc _ _ hv.2)]

/-! ### histories -/

omit [DecidableEq N] in
theorem unforgeable_env (c : Cfg N) (Signed : Key → Obj N → Prop) (w : World N)
    (h : ∀ k o, c.crypto k o = true → Signed k o) : Unforgeable (c.env w) Signed := h

omit [DecidableEq N] in
theorem correct_env (c : Cfg N) (Signed : Key → Obj N → Prop) (w : World N)
    (h : ∀ k o, Signed k o → c.crypto k o = true) : Correct (c.env w) Signed := h

/-- one `validate` event of instance configuration `c` in the world `w`: what the storage objects may vouch for
    afterwards -/
def trustStep (R : N → N → Prop) (c : Cfg N) (Signed : Key → Obj N → Prop) (w : World N)
    (T : Nat → N → Key → Prop) : Nat → N → Key → Prop :=
  fun s n k => T s n k ∨ (c.store = .mem s ∧ ∃ x, w (certInterest n) = some (.data x) ∧ x.name = n ∧
    x.content = some k ∧ ∃ d, ChainC R (c.env w) Signed (T s) d x)

def TrustedD (R : Nat → N → N → Prop) (cfgs : Nat → Cfg N) (Signed : Key → Obj N → Prop) :
    World N → (Nat → N → Key → Prop) → List (Event N) → (Nat → N → Key → Prop)
  | _, T, [] => T
  | _, T, .world w' :: r => TrustedD R cfgs Signed w' T r
  | w, T, .validate j _ _ :: r => TrustedD R cfgs Signed w (trustStep (R j) (cfgs j) Signed w T) r

/-- nothing is trusted from before (a fresh process) -/
def noTrust : Nat → N → Key → Prop := fun _ _ _ => False

/-- what the storage object behind a `StoreRef` may vouch for -/
def trustOf (T : Nat → N → Key → Prop) : StoreRef → N → Key → Prop
  | .empty => fun _ _ => False
  | .mem s => T s

/-- every state of the network during a history, in order (the last one is the state after it) -/
def worldsOf : World N → List (Event N) → List (World N)
  | w, [] => [w]
  | w, .world w' :: r => w :: worldsOf w' r
  | w, .validate _ _ _ :: r => worldsOf w r

/-- a name denotes one key: whatever one of the states `ws` served under a name carries the key bits of what `now`
    serves under it -/
def KeyStable (ws : List (World N)) (now : World N) : Prop :=
  ∀ w ∈ ws, ∀ n c c', w (certInterest n) = some (.data c) → c.name = n →
    now (certInterest n) = some (.data c') → c'.name = n → c.content = c'.content

/-- the link relation of every instance -/
def allowedOf (cfgs : Nat → Cfg N) : Nat → N → N → Prop := fun j => AllowedR (cfgs j).allowed

def StoresTrusted (st : DState N) (T : Nat → N → Key → Prop) : Prop := ∀ s, Trusts (st.stores s) (T s)

theorem trusts_loadStore (st : DState N) (T : Nat → N → Key → Prop) (h : StoresTrusted st T) (r : StoreRef) :
    Trusts (loadStore st r) (trustOf T r) := by
  cases r with
  | empty => exact trusts_nil _
  | mem s => exact h s

omit [DecidableEq N] in
theorem chainC_trustOf_mem {R : N → N → Prop} {E : Env N} {Signed : Key → Obj N → Prop} {T : Nat → N → Key → Prop}
    {r : StoreRef} {s : Nat} (hr : r = .mem s) {d : Nat} {o : Obj N}
    (h : ChainC R E Signed (trustOf T r) d o) : ChainC R E Signed (T s) d o := by
  subst hr; exact h

/-- the invariant of the storage objects is kept by every event -/
theorem storesTrusted_step (cfgs : Nat → Cfg N) (Signed : Key → Obj N → Prop)
    (hu : ∀ i k o, (cfgs i).crypto k o = true → Signed k o) (st : DState N) (T : Nat → N → Key → Prop)
    (h : StoresTrusted st T) (j f : Nat) (o : Obj N) :
    StoresTrusted (stepD cfgs st (.validate j f o)) (trustStep (allowedOf cfgs j) (cfgs j) Signed st.world T) := by
  intro s n k hl
  simp only [stepD] at hl
  cases hst : (cfgs j).store with
  | empty =>
    rw [hst] at hl
    exact Or.inl (h s n k hl)
  | mem s' =>
    rw [hst] at hl
    simp only [saveStore, setCache] at hl
    split at hl
    · rename_i hss
      subst hss
      have ht := trusts_loadStore st T h (cfgs j).store
      rcases validate_cache_new ((cfgs j).env st.world) Signed (hu j) _ f _ o ht n k hl with h0 | ⟨c, hw, hcn, hcc, d, hd⟩
      · rw [hst] at h0
        exact Or.inl (h s n k h0)
      · exact Or.inr ⟨hst, c, hw, hcn, hcc, d, chainC_trustOf_mem hst hd⟩
    · exact Or.inl (h s n k hl)

theorem storesTrusted_run (cfgs : Nat → Cfg N) (Signed : Key → Obj N → Prop)
    (hu : ∀ i k o, (cfgs i).crypto k o = true → Signed k o) :
    ∀ (h : List (Event N)) (st : DState N) (T : Nat → N → Key → Prop), StoresTrusted st T →
      StoresTrusted (runD cfgs st h) (TrustedD (allowedOf cfgs) cfgs Signed st.world T h) := by
  intro h
  induction h with
  | nil => intro st T hT; simpa [runD, TrustedD] using hT
  | cons e r ih =>
    intro st T hT
    cases e with
    | world w => exact ih ⟨w, st.stores⟩ T hT
    | validate j f o =>
      have := ih _ _ (storesTrusted_step cfgs Signed hu st T hT j f o)
      simpa [runD, TrustedD, stepD] using this

omit [DecidableEq N] in
/-- the trust relation only grows along a history … -/
theorem trustedD_mono_T (R : Nat → N → N → Prop) (cfgs : Nat → Cfg N) (Signed : Key → Obj N → Prop) :
    ∀ (h : List (Event N)) (w : World N) (T : Nat → N → Key → Prop) s n k, T s n k → TrustedD R cfgs Signed w T h s n k := by
  intro h
  induction h with
  | nil => intro w T s n k ht; exact ht
  | cons e r ih =>
    intro w T s n k ht
    cases e with
    | world w' => exact ih w' T s n k ht
    | validate j f o => exact ih w _ s n k (Or.inl ht)

omit [DecidableEq N] in
/-- … and is monotone in the link relations and in what was trusted before -/
theorem trustedD_mono (R R' : Nat → N → N → Prop) (cfgs : Nat → Cfg N) (Signed : Key → Obj N → Prop)
    (hR : ∀ j a b, R j a b → R' j a b) :
    ∀ (h : List (Event N)) (w : World N) (T T' : Nat → N → Key → Prop), (∀ s n k, T s n k → T' s n k) →
      ∀ s n k, TrustedD R cfgs Signed w T h s n k → TrustedD R' cfgs Signed w T' h s n k := by
  intro h
  induction h with
  | nil => intro w T T' hT s n k ht; exact hT s n k ht
  | cons e r ih =>
    intro w T T' hT s n k ht
    cases e with
    | world w' => exact ih w' T T' hT s n k ht
    | validate j f o =>
      refine ih w _ _ ?_ s n k ht
      intro s n k hs
      rcases hs with h0 | ⟨hst, x, hw, hxn, hxc, d, hd⟩
      · exact Or.inl (hT s n k h0)
      · exact Or.inr ⟨hst, x, hw, hxn, hxc, d, ChainC.mono (hR j) (hT s) hd⟩

omit [DecidableEq N] in
theorem worldsOf_head_mem (w : World N) (h : List (Event N)) : w ∈ worldsOf w h := by
  induction h generalizing w with
  | nil => simp [worldsOf]
  | cons e r ih =>
    cases e with
    | world w' => simp [worldsOf]
    | validate j f o => simpa [worldsOf] using ih w

omit [DecidableEq N] in
/-- everything a storage object may vouch for was served, under that name and with that key, in some state of the
    network during the history -/
theorem trustedD_served (R : Nat → N → N → Prop) (cfgs : Nat → Cfg N) (Signed : Key → Obj N → Prop) (Q : N → Key → Prop) :
    ∀ (h : List (Event N)) (w : World N) (T : Nat → N → Key → Prop), (∀ s n k, T s n k → Q n k) →
      (∀ w' ∈ worldsOf w h, ∀ n k x, w' (certInterest n) = some (.data x) → x.name = n → x.content = some k → Q n k) →
      ∀ s n k, TrustedD R cfgs Signed w T h s n k → Q n k := by
  intro h
  induction h with
  | nil => intro w T hT _ s n k ht; exact hT s n k ht
  | cons e r ih =>
    intro w T hT hQ s n k ht
    cases e with
    | world w' =>
      exact ih w' T hT (fun w'' hm => hQ w'' (by simp [worldsOf, hm])) s n k ht
    | validate j f o =>
      refine ih w _ ?_ (fun w'' hm => hQ w'' (by simpa [worldsOf] using hm)) s n k ht
      intro s n k hs
      rcases hs with h0 | ⟨_, x, hw, hxn, hxc, _⟩
      · exact hT s n k h0
      · exact hQ w (by simpa [worldsOf] using worldsOf_head_mem w r) n k x hw hxn hxc

theorem runD_world_last (cfgs : Nat → Cfg N) :
    ∀ (h : List (Event N)) (st : DState N), (runD cfgs st h).world ∈ worldsOf st.world h := by
  intro h
  induction h with
  | nil => intro st; simp [runD, worldsOf]
  | cons e r ih =>
    intro st
    cases e with
    | world w => simpa [runD, worldsOf, stepD] using Or.inr (ih ⟨w, st.stores⟩)
    | validate j f o => simpa [runD, worldsOf, stepD] using ih (stepD cfgs st (.validate j f o))

/-- every key in a storage object after a history was in it before or was served, under that name, in some state of
    the network during the history (no hypothesis on the signature scheme) -/
theorem stores_served (cfgs : Nat → Cfg N) (Q : N → Key → Prop) :
    ∀ (h : List (Event N)) (st : DState N), (∀ s n k, cacheLoad (st.stores s) n = some k → Q n k) →
      (∀ w' ∈ worldsOf st.world h, ∀ n k x, w' (certInterest n) = some (.data x) → x.name = n → x.content = some k → Q n k) →
      ∀ s n k, cacheLoad ((runD cfgs st h).stores s) n = some k → Q n k := by
  intro h
  induction h with
  | nil => intro st h0 _ s n k hl; exact h0 s n k hl
  | cons e r ih =>
    intro st h0 hQ s n k hl
    cases e with
    | world w =>
      exact ih ⟨w, st.stores⟩ h0 (fun w'' hm => hQ w'' (by simp [worldsOf, hm])) s n k hl
    | validate j f o =>
      refine ih (stepD cfgs st (.validate j f o)) ?_ (fun w'' hm => hQ w'' (by simpa [worldsOf, stepD] using hm)) s n k hl
      intro s n k hs
      simp only [stepD] at hs
      cases hst : (cfgs j).store with
      | empty => rw [hst] at hs; exact h0 s n k hs
      | mem s' =>
        rw [hst] at hs
        simp only [saveStore, setCache] at hs
        split at hs
        · rename_i hss
          subst hss
          rcases cached_origin_aux ((cfgs j).env st.world) f _ o n k hs with h1 | ⟨_, x, hw, hxn, hxc⟩
          · rw [hst] at h1; exact h0 s n k h1
          · exact hQ st.world (worldsOf_head_mem st.world _) n k x hw hxn hxc
        · exact h0 s n k hs

/-- under `KeyStable`, storages that vouch only for served keys do not contradict the world as it is now -/
theorem cacheAgrees_of_stable (E : Env N) (ws : List (World N)) (hst : KeyStable ws E.world) (st : Cache N)
    (h : ∀ n k, cacheLoad st n = some k →
      ∃ w ∈ ws, ∃ x, w (certInterest n) = some (.data x) ∧ x.name = n ∧ x.content = some k) :
    CacheAgrees E st := by
  intro n k c hl hw hcn
  obtain ⟨w, hm, x, hxw, hxn, hxc⟩ := h n k hl
  rw [← hst w hm n x c hxw hxn hw hcn, hxc]

/-! ### isolation -/

/-- the events that can touch the storage object `s` or the network -/
def touches (cfgs : Nat → Cfg N) (s : Nat) : Event N → Bool
  | .world _ => true
  | .validate i _ _ => decide ((cfgs i).store = .mem s)

theorem runD_filter (cfgs : Nat → Cfg N) (s : Nat) :
    ∀ (h : List (Event N)) (st1 st2 : DState N), st1.world = st2.world → st1.stores s = st2.stores s →
      (runD cfgs st1 h).world = (runD cfgs st2 (h.filter (touches cfgs s))).world ∧
      (runD cfgs st1 h).stores s = (runD cfgs st2 (h.filter (touches cfgs s))).stores s := by
  intro h
  induction h with
  | nil => intro st1 st2 hw hs; exact ⟨hw, hs⟩
  | cons e r ih =>
    intro st1 st2 hw hs
    cases e with
    | world w =>
      simp only [List.filter, touches, runD]
      exact ih _ _ rfl hs
    | validate i f o =>
      by_cases hst : (cfgs i).store = .mem s
      · have ht : touches cfgs s (.validate i f o) = true := by simp [touches, hst]
        simp only [List.filter, ht, runD]
        refine ih _ _ hw ?_
        simp [stepD, validateD, hst, saveStore, setCache, loadStore, hw, hs]
      · have ht : touches cfgs s (.validate i f o) = false := by simp [touches, hst]
        simp only [List.filter, ht, runD]
        refine ih _ _ hw ?_
        rw [← hs]
        simp only [stepD]
        cases hc : (cfgs i).store with
        | empty => rfl
        | mem s' =>
          have : s ≠ s' := by intro he; subst he; exact hst hc
          simp [saveStore, setCache, this]

/-- the state of the network after a history depends on its `world` events only -/
def isWorld : Event N → Bool
  | .world _ => true
  | .validate _ _ _ => false

theorem runD_world_only (cfgs : Nat → Cfg N) :
    ∀ (h : List (Event N)) (st1 st2 : DState N), st1.world = st2.world →
      (runD cfgs st1 h).world = (runD cfgs st2 (h.filter isWorld)).world := by
  intro h
  induction h with
  | nil => intro st1 st2 hw; exact hw
  | cons e r ih =>
    intro st1 st2 hw
    cases e with
    | world w => simp only [List.filter, isWorld, runD]; exact ih _ _ rfl
    | validate i f o => simp only [List.filter, isWorld, runD]; exact ih _ _ hw

/-! ### refinement: no `world` event, one storage object per instance -/

def staticEvents (h : List (Nat × Nat × Obj N)) : List (Event N) := h.map fun s => .validate s.1 s.2.1 s.2.2

theorem runD_static (cfgs : Nat → Cfg N) (hpriv : ∀ i, (cfgs i).store = .mem i) (w : World N) :
    ∀ (h : List (Nat × Nat × Obj N)) (cs : Nat → Cache N),
      (runD cfgs ⟨w, cs⟩ (staticEvents h)).stores = runSys (fun i => (cfgs i).env w) cs h ∧
      (runD cfgs ⟨w, cs⟩ (staticEvents h)).world = w ∧
      traceD cfgs ⟨w, cs⟩ (staticEvents h) = traceSys (fun i => (cfgs i).env w) cs h := by
  intro h
  induction h with
  | nil => intro cs; simp [staticEvents, runD, runSys, traceD, traceSys]
  | cons x r ih =>
    intro cs
    obtain ⟨i, f, o⟩ := x
    have := ih (setCache cs i (validate ((cfgs i).env w) f (cs i) o).cache)
    simp only [staticEvents, List.map_cons, runD, runSys, traceD, traceSys, stepD, validateD, hpriv i, loadStore,
      saveStore] at this ⊢
    exact ⟨this.1, this.2.1, by rw [this.2.2]⟩

end Ndn.Cascade
