import NdnProofs.Lemmas.PyDict
import NdnProofs.Lemmas.Shrink
import NdnProofs.Lemmas.Svs
import NdnProofs.Lemmas.TlNum
import NdnProofs.Props.C18
