import NdnModel.Basic
/-!
  Executable model of prefix registration against the forwarder management protocol:

  * `NfdRegister.register / unregister`            (src/ndn/transport/nfd_registerer.py)
  * legacy `NDNApp.register / unregister`          (src/ndn/app.py) — `unregister` both as it is now (inside the
    command lock, like `register`) and as it was in the unchanged tree (outside it: `Cfg.unregLock = false`)
  * `main_loop.starting_task` auto-registration    (src/ndn/appv2.py, src/ndn/app.py)
  * the part of `parse_response` that comes after the TLV decoder (src/ndn/app_support/nfd_mgmt.py)

  Here a command is `(verb, prefix, signed timestamp)` and a reply is what the library's packet decoder makes of
  the forwarder's answer; `Ndn.NfdBytes.runW` composes this state machine with the byte level (command Interest
  wires out, reply bytes in).

  The registerer is a state machine.  One asyncio semaphore (FIFO, value 1) guards the section
  "wait for a fresh millisecond - sign and send the command - wait for the reply - look at the reply".
  Clock: the model never sees absolute time, only by how much the millisecond clock advanced between two
  consecutive reads (`Env`), so every modelled clock is monotone by construction; the advance across
  the 1 ms `sleep` of the guard loop is a separate stream so the clock hypothesis
  "the clock advances across the sleep" can be stated (`∀ k, 1 ≤ env.sleepAdv k`).

  `Cfg` selects the front-end and, for the theorems that describe the defects of the unchanged tree,
  switches individual repairs off.  `Cfg.repaired` is the code as it should be (candidate fixes C17-*).
-/
namespace Ndn.NfdMgmt

inductive Verb where
  | register | unregister
  deriving DecidableEq, Repr, Inhabited

inductive FrontEnd where
  | v2 | legacy
  deriving DecidableEq, Repr, Inhabited

/-- What comes back for a command Interest, after the library's packet decoder.
    `sigOk`: the DigestSha256 signature of the Data verifies. -/
inductive Reply where
  | response (code : Option Nat) (body : Bool) (sigOk : Bool)   -- a ControlResponse (StatusCode may be absent)
  | undecodable (sigOk : Bool)                                  -- Data whose Content is not a ControlResponse
  | nack
  | timeout
  | canceled
  deriving DecidableEq, Repr, Inhabited

structure Cfg where
  fe : FrontEnd
  /-- `parse_response` tolerates a ControlResponse without body (C17-parse-response-no-body) -/
  bodyFix : Bool
  /-- `unregister` looks at the status code (C17-unregister-status) -/
  statusFix : Bool
  /-- a response that does not decode reports failure (C17-undecodable-response) -/
  decodeFix : Bool
  /-- there is a guard loop on `_last_command_timestamp` at all (legacy front-end: C17-legacy-serialise) -/
  guard : Bool
  /-- `_last_command_timestamp` is re-read after signing (C17-timestamp-guard) -/
  postRead : Bool
  /-- `unregister` takes the command lock and waits for a fresh millisecond exactly like `register`
      (legacy front-end: C17-legacy-serialise, fix 754fd1f; `NfdRegister.unregister` always did).  When `false`,
      `unregister` is the legacy `NDNApp.unregister` of the unchanged tree: it signs and sends at once, outside
      the semaphore, and the command is in flight next to whatever else is in flight. -/
  unregLock : Bool
  deriving DecidableEq, Repr, Inhabited

def Cfg.repaired (fe : FrontEnd) : Cfg := ⟨fe, true, true, true, true, true, true⟩
/-- the unchanged tree -/
def Cfg.unchanged : FrontEnd → Cfg
  | .v2 => ⟨.v2, false, false, false, true, false, true⟩
  | .legacy => ⟨.legacy, false, false, false, false, false, false⟩

/-! ### outcome of `express` and what the registerer makes of it -/

inductive Outcome where
  | content (parsed : Option (Option Nat × Bool))   -- `none`: the Content does not decode
  | nackE | timeoutE | canceledE | validationFailure
  deriving DecidableEq, Repr, Inhabited

/-- v2: `NfdRegister` passes `validator=pass_all`; legacy: `app.data_validator = sha256_digest_checker`. -/
def validates : FrontEnd → Bool → Bool
  | .v2, _ => true
  | .legacy, ok => ok

def expressOutcome (fe : FrontEnd) : Reply → Outcome
  | .response c b ok => if validates fe ok then .content (some (c, b)) else .validationFailure
  | .undecodable ok => if validates fe ok then .content none else .validationFailure
  | .nack => .nackE
  | .timeout => .timeoutE
  | .canceled => .canceledE

/-- `parse_response(reply)['status_code']`, or the exception it raises. -/
def parseStatus (cfg : Cfg) : Option (Option Nat × Bool) → Except PyErr (Option Nat)
  | none => .error .valueError                       -- class abstracted: Value/Index/Type/DecodeError
  | some (c, body) => if body || cfg.bodyFix then .ok c else .error .attributeError

/-- return value of `register` / `unregister` given the outcome of `express` -/
def finish (cfg : Cfg) (v : Verb) (o : Outcome) : Except PyErr Bool :=
  match o with
  | .content p =>
    if v == .unregister && !cfg.statusFix then .ok true     -- unchanged tree: the reply is not looked at
    else match parseStatus cfg p with
      | .ok c => .ok (c == some 200)
      | .error e => if p.isNone && cfg.decodeFix then .ok false else .error e
  | _ => .ok false

/-! ### clock -/

structure Env where
  /-- clock advance (ms) seen by the k-th first read of a guard loop, since the previous read -/
  tick : Nat → Nat
  /-- clock advance across the k-th 1 ms sleep of a guard loop -/
  sleepAdv : Nat → Nat
  /-- clock advance between the last guard read and the read that is signed, for the k-th command -/
  signTick : Nat → Nat
  /-- clock advance between the signed read and the re-read of `_last_command_timestamp` -/
  postTick : Nat → Nat

structure Clock where
  now : Nat
  ti : Nat := 0
  si : Nat := 0
  gi : Nat := 0
  pi : Nat := 0
  deriving DecidableEq, Repr, Inhabited

def Clock.read (env : Env) (c : Clock) : Clock := { c with now := c.now + env.tick c.ti, ti := c.ti + 1 }
def Clock.sleepRead (env : Env) (c : Clock) : Clock := { c with now := c.now + env.sleepAdv c.si, si := c.si + 1 }
def Clock.signRead (env : Env) (c : Clock) : Clock := { c with now := c.now + env.signTick c.gi, gi := c.gi + 1 }
def Clock.postReadC (env : Env) (c : Clock) : Clock := { c with now := c.now + env.postTick c.pi, pi := c.pi + 1 }

/-- iterations 2..10 of `for _ in range(10): now = timestamp(); if now > last: last = now; break; await sleep(0.001)` -/
def guardLoop (env : Env) (last : Nat) : Nat → Clock → Clock × Nat
  | 0, c => (c, last)
  | n + 1, c =>
    let c' := c.sleepRead env
    if last < c'.now then (c', c'.now) else guardLoop env last n c'

def guard (env : Env) (last : Nat) (c : Clock) : Clock × Nat :=
  let c0 := c.read env
  if last < c0.now then (c0, c0.now) else guardLoop env last 9 c0

/-! ### the registerer -/

structure Req where
  id : Nat
  verb : Verb
  pfx : Nat
  /-- issued by `starting_task` for a route declared with `route()` -/
  auto : Bool
  deriving DecidableEq, Repr, Inhabited

inductive Out where
  | cmd (r : Req) (ts : Nat)                 -- command Interest on the face, with its signed timestamp
  | ret (r : Req) (res : Except PyErr Bool)  -- the call returns / raises
  | connected
  | unmodelled
  deriving Repr, Inhabited

instance : DecidableEq (Except PyErr Bool) := fun a b =>
  match a, b with
  | .ok x, .ok y => if h : x = y then isTrue (by rw [h]) else isFalse (by intro e; cases e; exact h rfl)
  | .error x, .error y => if h : x = y then isTrue (by rw [h]) else isFalse (by intro e; cases e; exact h rfl)
  | .ok _, .error _ => isFalse (by intro e; cases e)
  | .error _, .ok _ => isFalse (by intro e; cases e)

deriving instance DecidableEq for Out

structure St where
  clock : Clock
  /-- `_last_command_timestamp` -/
  last : Nat := 0
  /-- holder of the semaphore whose command is on the wire -/
  inflight : Option Req := none
  /-- waiters of the semaphore, FIFO -/
  queue : List Req := []
  /-- routes `starting_task` has still to register -/
  autoTodo : List Nat := []
  nextId : Nat := 0
  /-- `unregister` calls of the unchanged legacy front-end whose command is on the wire: they never held the
      semaphore (always empty when `cfg.unregLock`) -/
  free : List Req := []
  deriving DecidableEq, Repr, Inhabited

def init (t0 : Nat) : St := { clock := { now := t0 } }

inductive Ev where
  | call (v : Verb) (pfx : Nat)
  | reply (k : Reply)
  | connect (routes : List Nat)
  /-- the answer to the `i`-th command that is in flight outside the semaphore (unchanged legacy `unregister`) -/
  | replyU (i : Nat) (k : Reply)
  /-- the connection is lost — `Face.run()` returns (EOF, reset, `app.shutdown()`) or raises (ConnectionAbortedError,
      another OSError, TimeoutError) out of `main_loop` — and what was going on comes to its end -/
  | down
  deriving DecidableEq, Repr, Inhabited

/-- the holder of the semaphore waits for a fresh millisecond, signs and sends -/
def start (cfg : Cfg) (env : Env) (s : St) (r : Req) : St × List Out :=
  let g := if cfg.guard then guard env s.last s.clock else (s.clock, s.last)
  let c2 := g.1.signRead env
  let p := if cfg.postRead then (let c3 := c2.postReadC env; (c3, c3.now)) else (c2, g.2)
  ({ s with clock := p.1, last := p.2, inflight := some r }, [.cmd r c2.now])

def submit (cfg : Cfg) (env : Env) (s : St) (v : Verb) (pfx : Nat) (auto : Bool) : St × List Out :=
  let r : Req := { id := s.nextId, verb := v, pfx := pfx, auto := auto }
  let s := { s with nextId := s.nextId + 1 }
  if s.inflight.isSome then ({ s with queue := s.queue ++ [r] }, []) else start cfg env s r

/-- the semaphore is handed to its first waiter -/
def handOver (cfg : Cfg) (env : Env) (s : St) : St × List Out :=
  match s.queue with
  | [] => (s, [])
  | q :: rest => start cfg env { s with queue := rest } q

/-- `starting_task` continues after `await self.register(name)` -/
def autoNext (cfg : Cfg) (env : Env) (s : St) (r : Req) (res : Except PyErr Bool) : St × List Out :=
  if r.auto then
    match res, s.autoTodo with
    | .ok _, p :: todo => submit cfg env { s with autoTodo := todo } .register p true
    | .ok _, [] => (s, [])
    | .error _, _ => ({ s with autoTodo := [] }, [])     -- the task dies with the exception
  else (s, [])

def autoActive (s : St) : Bool :=
  !s.autoTodo.isEmpty || (match s.inflight with | some r => r.auto | none => false) || s.queue.any (·.auto)

/-- the unchanged legacy `NDNApp.unregister`: no semaphore, no guard — `make_command` reads the clock, the command
    goes out at once and is in flight next to everything else -/
def freeRun (env : Env) (s : St) (p : Nat) : St × List Out :=
  let r : Req := { id := s.nextId, verb := .unregister, pfx := p, auto := false }
  let c2 := s.clock.signRead env
  ({ s with nextId := s.nextId + 1, clock := c2, free := s.free ++ [r] }, [.cmd r c2.now])

def step (cfg : Cfg) (env : Env) (s : St) : Ev → St × List Out
  | .call v p =>
    if v == .unregister && !cfg.unregLock then freeRun env s p else submit cfg env s v p false
  | .replyU i k =>
    match s.free[i]? with
    | none => (s, [])
    | some r => ({ s with free := s.free.eraseIdx i }, [.ret r (finish cfg r.verb (expressOutcome cfg.fe k))])
  | .reply k =>
    match s.inflight with
    | none => (s, [])                                     -- nobody waits for it: dropped
    | some r =>
      let res := finish cfg r.verb (expressOutcome cfg.fe k)
      let a := handOver cfg env { s with inflight := none }
      let b := autoNext cfg env a.1 r res
      (b.1, .ret r res :: (a.2 ++ b.2))
  | .down =>
    -- The command in flight never gets its answer: `_clean_up()` cancels it (InterestCanceled), or — appv2, when
    -- `run()` raised: `_clean_up()` is skipped there; the legacy `main_loop` runs it on every path since fix c36f7e8 —
    -- it runs into its lifetime (InterestTimeout); either way the call returns `False`.  If that call was the start-up task's, the task goes on to the next route, `express` raises
    -- NetworkError ("cannot send packet before connected") and the task dies: the rest of its walk is dropped.
    -- Calls that wait for the command lock at this moment (they would raise NetworkError one by one) are not modelled.
    if !s.queue.isEmpty then (s, [.unmodelled])
    else match s.inflight with
      | none => ({ s with autoTodo := [] }, [])
      | some r => ({ s with inflight := none, autoTodo := [] },
                   [.ret r (finish cfg r.verb (expressOutcome cfg.fe .canceled))])
  | .connect routes =>
    if autoActive s then (s, [.unmodelled])
    else match routes with
      | [] => (s, [.connected])
      | p :: todo =>
        let a := submit cfg env { s with autoTodo := todo } .register p true
        (a.1, .connected :: a.2)

def run (cfg : Cfg) (env : Env) : St → List Ev → St × List Out
  | s, [] => (s, [])
  | s, e :: es =>
    let a := step cfg env s e
    let b := run cfg env a.1 es
    (b.1, a.2 ++ b.2)

/-! ### the part of `parse_response` after the decoder -/

/-- value of a decoded field, as `getattr` returns it (`none` = Python `None`) -/
inductive FVal where
  | uint (n : Nat)
  | text (s : Bytes)
  | name (comps : List Bytes)
  deriving DecidableEq, Repr, Inhabited

/-- field names of `ControlParametersValue`, in declaration order (checked against the generated table) -/
def cpvFields : List String :=
  ["name", "face_id", "uri", "local_uri", "origin", "cost", "capacity", "count",
   "base_congestion_mark_interval", "default_congestion_threshold", "mtu", "flags", "mask",
   "strategy", "expiration_period", "face_persistency"]

structure ControlResponseRec where
  statusCode : Option Nat
  statusText : Option Bytes
  /-- decoded body: field name ↦ value, for the fields that are present -/
  body : Option (List (String × FVal))
  deriving DecidableEq, Repr, Inhabited

def lookupField (b : List (String × FVal)) (k : String) : Option FVal := (b.find? (·.1 == k)).map (·.2)

inductive DVal where
  | none | uint (n : Nat) | text (s : Bytes) | name (comps : List Bytes)
  deriving DecidableEq, Repr, Inhabited

def DVal.ofF : Option FVal → DVal
  | .none => .none | some (.uint n) => .uint n | some (.text s) => .text s | some (.name c) => .name c

/-- the dict `parse_response` returns (insertion-ordered), or the exception -/
def parseResponseRec (bodyFix : Bool) (cr : ControlResponseRec) : Except PyErr (List (String × DVal)) :=
  let head : List (String × DVal) :=
    [("status_code", match cr.statusCode with | some n => .uint n | none => .none),
     ("status_text", match cr.statusText with | some s => .text s | none => .none)]
  match cr.body with
  | some b => .ok (head ++ cpvFields.map fun k => (k, DVal.ofF (lookupField b k)))
  | none => if bodyFix then .ok (head ++ cpvFields.map fun k => (k, DVal.none)) else .error .attributeError

end Ndn.NfdMgmt
