import NdnModel.TlNum
import NdnGen.C09
/-
  Model of src/ndn/encoding/name/Component.py and src/ndn/encoding/name/Name.py.

  A component is its encoded TLV (`Bytes`), a name is a list of components, URI text is a
  `List Char` (Python `str`; Lean `Char` = Unicode scalar value, so lone surrogates are outside
  the model).  Exceptions are the Python classes the code raises:
    * `Component.from_str`  : `ValueError` for everything it rejects, except that a typed number
      (`seg=` …) that is negative or ≥ 2^64 escapes as `struct.error` from `pack_uint_bytes`;
    * `to_str` / `to_canonical_uri` : `IndexError` / `struct.error` from `parse_tl_num`,
      `ValueError` when the Length does not match;
    * `Name.decode` : `ValueError` (not a Name), `IndexError`, `struct.error`.
  The library has no "..." rule for dots-only components (`'...'` is the 3-byte value `...`).
-/
namespace Ndn

abbrev Str := List Char

/-! ### Python text primitives used by the code -/

def isAsciiDigit (c : Char) : Bool := 48 ≤ c.toNat && c.toNat ≤ 57
def isAsciiLetter (c : Char) : Bool :=
  (65 ≤ c.toNat && c.toNat ≤ 90) || (97 ≤ c.toNat && c.toNat ≤ 122)

/-- `ch in Component.CHARSET`: membership in the table generated from the source (`lean/NdnGen/C09.lean`; on the
    unchanged tree: ASCII letters, digits and `- . _ ~ = %`, theorem `inCharset_eq`). -/
def inCharset (c : Char) : Bool := Gen.C09.charset.contains c.toNat

def digitVal (c : Char) : Nat := c.toNat - 48

/-- CPython `sys.get_int_max_str_digits()` default. -/
def pyIntMaxStrDigits : Nat := 4300

/-- the tail of a decimal literal: `(_? digit)*` -/
def pyDigitsLoop (acc : Nat) : Str → Option Nat
  | [] => some acc
  | c :: r =>
    if isAsciiDigit c then pyDigitsLoop (acc * 10 + digitVal c) r
    else if c = '_' then
      match r with
      | d :: r' => if isAsciiDigit d then pyDigitsLoop (acc * 10 + digitVal d) r' else none
      | [] => none
    else none

/-- `int(s)` for an unsigned `s` over CHARSET: `digit (_? digit)*`, at most 4300 digits. -/
def pyNat (s : Str) : Option Nat :=
  match s with
  | [] => none
  | c :: r =>
    if !isAsciiDigit c then none
    else if (s.filter isAsciiDigit).length > pyIntMaxStrDigits then none
    else pyDigitsLoop (digitVal c) r

/-- `int(s)` (base 10) for `s` over CHARSET (`+` and white space are not in CHARSET);
    `none` = `ValueError`. -/
def pyInt (s : Str) : Option Int :=
  match s with
  | [] => none
  | c :: r =>
    if c = '-' then (pyNat r).map fun n => - (n : Int)
    else (pyNat s).map fun n => (n : Int)

/-- value of one hex digit, either case -/
def hexVal? (c : Char) : Option Nat :=
  if 48 ≤ c.toNat ∧ c.toNat ≤ 57 then some (c.toNat - 48)
  else if 97 ≤ c.toNat ∧ c.toNat ≤ 102 then some (c.toNat - 87)
  else if 65 ≤ c.toNat ∧ c.toNat ≤ 70 then some (c.toNat - 55)
  else none

/-- `view[pos] = int(a+b, 16)` for two CHARSET characters: two hex digits of either case, or the
    accident `-0` (= 0).  `-1`…`-f` parse but the memoryview store raises `ValueError`; `0x`, `_`
    forms are not integers.  `none` = `ValueError`. -/
def pyHexByte (a b : Char) : Option UInt8 :=
  match hexVal? a, hexVal? b with
  | some x, some y => some (UInt8.ofNat (x * 16 + y))
  | _, _ => if a == '-' && b == '0' then some 0 else none

/-- `bytearray.fromhex(s)` for `s` over CHARSET (no white space): pairs of hex digits. -/
def pyFromHex : Str → Option Bytes
  | [] => some []
  | [_] => none
  | a :: b :: rest =>
    match hexVal? a, hexVal? b, pyFromHex rest with
    | some x, some y, some r => some (UInt8.ofNat (x * 16 + y) :: r)
    | _, _, _ => none

def hexLower (n : Nat) : Char := if n < 10 then Char.ofNat (48 + n) else Char.ofNat (87 + n)
def hexUpper (n : Nat) : Char := if n < 10 then Char.ofNat (48 + n) else Char.ofNat (55 + n)

/-- `bytes.hex()` -/
def pyHex (bs : Bytes) : Str := bs.flatMap fun b => [hexLower (b.toNat / 16), hexLower (b.toNat % 16)]

/-- `f"%{b:02X}"` -/
def pctByte (b : UInt8) : Str := ['%', hexUpper (b.toNat / 16), hexUpper (b.toNat % 16)]

/-- decimal digits of `n`, most significant first (`fuel` > number of digits) -/
def toDecAux : Nat → Nat → Str
  | 0, _ => []
  | fuel + 1, n =>
    if n < 10 then [Char.ofNat (48 + n)] else toDecAux fuel (n / 10) ++ [Char.ofNat (48 + n % 10)]

/-- `str(n)` / `'{}'.format(n)` for a natural number -/
def toDec (n : Nat) : Str := toDecAux (n + 1) n

/-- `s.split('/')` -/
def splitSlash : Str → List Str
  | [] => [[]]
  | c :: r =>
    if c = '/' then [] :: splitSlash r
    else match splitSlash r with
      | h :: t => (c :: h) :: t
      | [] => [[c]]

/-- `'/'.join(l)` -/
def joinSlash : List Str → Str
  | [] => []
  | [s] => s
  | s :: t => s ++ '/' :: joinSlash t

/-- position of the first `=`: `(val[:i], val[i+1:])` -/
def splitEq : Str → Option (Str × Str)
  | [] => none
  | c :: r =>
    if c = '=' then some ([], r)
    else match splitEq r with
      | some (a, b) => some (c :: a, b)
      | none => none

namespace Comp

def TYPE_GENERIC : Nat := 8
def TYPE_IMPLICIT_SHA256 : Nat := 1
def TYPE_PARAMETERS_SHA256 : Nat := 2
def MAX_TYPE : Nat := 65535

/-- `ALTERNATE_URI_TYPE` : type → shorthand (the table generated from the source, `lean/NdnGen/C09.lean`) -/
def altUriOfType (t : Nat) : Option Str :=
  (Gen.C09.altUriType.find? fun p => p.1 == t).map (·.2)

/-- `ALTERNATE_URI_STR` : shorthand → type (the table generated from the source) -/
def altTypeOfStr (s : Str) : Option Nat :=
  (Gen.C09.altUriStr.find? fun p => p.1 == s).map (·.2)

/-- `Component.from_bytes(val, typ)` for `typ ≥ 0` (a negative `typ` is rejected the same way). -/
def fromBytes (v : Bytes) (typ : Nat) : Except PyErr Bytes :=
  if typ = 0 ∨ typ > MAX_TYPE then .error .valueError else .ok (tlv typ v)

/-- `Component.from_number(val, typ)`: `pack_uint_bytes` raises `struct.error` outside 0..2^64-1. -/
def fromNumber (val : Int) (typ : Nat) : Except PyErr Bytes :=
  if val < 0 ∨ val ≥ 18446744073709551616 then .error .structError
  else fromBytes (packUint val.toNat) typ

/-- the `encode()` loop of `from_str`: one byte per plain character, `%xy` → one byte.
    `none` = the `ValueError` of `int(.., 16)` (also a `%` with fewer than two characters after it:
    `int('')` fails, and `%4` at the very end overruns the pre-sized buffer → `IndexError` →
    `ValueError`). -/
def unescape : Str → Option Bytes
  | [] => some []
  | c :: r =>
    if c = '%' then
      match r with
      | a :: b :: r' =>
        match pyHexByte a b, unescape r' with
        | some x, some bs => some (x :: bs)
        | _, _ => none
      | _ => none
    else (unescape r).map fun bs => UInt8.ofNat c.toNat :: bs

/-- second half of `from_str`: allocate `len(rest) − 2·percent_cnt` bytes and fill them. -/
def encodeValue (typ : Nat) (rest : Str) (pct : Nat) : Except PyErr Bytes :=
  if rest.length < 2 * pct then .error .valueError          -- 'Too many %'
  else
    let length := rest.length - 2 * pct
    match unescape rest with
    | none => .error .valueError
    | some bs =>
      if bs.length > length then .error .valueError          -- IndexError, re-raised as ValueError
      else .ok (writeTlNum typ ++ writeTlNum length ++ bs ++ List.replicate (length - bs.length) 0)

/-- `Component.from_str(val)` -/
def fromStr (val : Str) : Except PyErr Bytes :=
  if val = [] then .ok [8, 0]
  else if !val.all inCharset then .error .valueError
  else
    let pct := val.count '%'
    match splitEq val with
    | none => encodeValue TYPE_GENERIC val pct
    | some (typStr, rest) =>
      if rest.contains '=' then .error .valueError           -- 'Multiple TLV types are present.'
      else if typStr = "sha256digest".toList then
        match pyFromHex rest with
        | none => .error .valueError
        | some b => fromBytes b TYPE_IMPLICIT_SHA256
      else if typStr = "params-sha256".toList then
        match pyFromHex rest with
        | none => .error .valueError
        | some b => fromBytes b TYPE_PARAMETERS_SHA256
      else match altTypeOfStr typStr with
        | some t =>
          match pyInt rest with
          | none => .error .valueError
          | some n => fromNumber n t
        | none =>
          match pyInt typStr with
          | none => .error .valueError
          | some typ =>
            if typ ≤ 0 ∨ typ > 65535 then .error .valueError
            else encodeValue typ.toNat rest pct

/-- `Component.get_type` -/
def getType (c : Bytes) : Except PyErr Nat := do
  let (t, _) ← parseTlNum c 0
  pure t

/-- `Component.get_value` (no length check in the code) -/
def getValue (c : Bytes) : Except PyErr Bytes := do
  let (_, s1) ← parseTlNum c 0
  let (_, s2) ← parseTlNum c s1
  pure (c.drop (s1 + s2))

/-- common head of `to_str` / `to_canonical_uri`: (type, value) -/
def parseComp (c : Bytes) : Except PyErr (Nat × Bytes) := do
  let (t, s1) ← parseTlNum c 0
  let (l, s2) ← parseTlNum c s1
  if c.length ≠ l + (s1 + s2) then .error .valueError
  else pure (t, c.drop (s1 + s2))

/-- the inner `decode(val)` of `to_str`: CHARSET characters other than `%` `=` stay, the rest `%XX` -/
def escByte (b : UInt8) : Str :=
  let c := Char.ofNat b.toNat
  if inCharset c && c != '%' && c != '=' then [c] else pctByte b

def escBytes (v : Bytes) : Str := v.flatMap escByte

def typePrefix (t : Nat) : Str := if t = TYPE_GENERIC then [] else toDec t ++ ['=']

/-- `Component.to_canonical_uri` -/
def toCanonicalUri (c : Bytes) : Except PyErr Str := do
  let (t, v) ← parseComp c
  pure (typePrefix t ++ escBytes v)

/-- `Component.to_str` -/
def toStr (c : Bytes) : Except PyErr Str := do
  let (t, v) ← parseComp c
  if t = TYPE_IMPLICIT_SHA256 then pure ("sha256digest=".toList ++ pyHex v)
  else if t = TYPE_PARAMETERS_SHA256 then pure ("params-sha256=".toList ++ pyHex v)
  else match altUriOfType t with
    | some s =>
      -- the number shorthand only for a nonNegativeInteger (1, 2, 4 or 8 bytes); any other value is printed
      -- in the generic form (so `to_str` never raises on a well-formed component: no 4300-digit limit)
      if v.length = 1 ∨ v.length = 2 ∨ v.length = 4 ∨ v.length = 8 then pure (s ++ '=' :: toDec (beVal v))
      else pure (typePrefix t ++ escBytes v)
    | none => pure (typePrefix t ++ escBytes v)

/-- `Component.to_number` -/
def toNumber (c : Bytes) : Except PyErr Nat := do
  let v ← getValue c
  pure (beVal v)

/-- `Component.escape_str`: characters outside CHARSET become the `%XX` of their UTF-8 bytes
    (`%` and `=` are in CHARSET and stay). -/
def escapeStr (s : Str) : Str :=
  s.flatMap fun ch => if inCharset ch then [ch] else (String.utf8EncodeChar ch).flatMap pctByte

end Comp

namespace Name

def TYPE_NAME : Nat := 7

/-- `if val.startswith('/'): val = val[1:]; cnt_slash += 1` → (val, cnt_slash) -/
def stripLead (val : Str) : Str × Nat :=
  match val with
  | '/' :: r => (r, 1)
  | _ => (val, 0)

/-- `if val.endswith('/'): val = val[:-1]; cnt_slash += 1` -/
def stripTrail (p : Str × Nat) : Str × Nat :=
  if p.1.getLast? = some '/' then (p.1.dropLast, p.2 + 1) else p

/-- `Name.from_str` -/
def fromStr (val : Str) : Except PyErr (List Bytes) :=
  let p := stripTrail (stripLead val)
  if p.1 = [] ∧ p.2 ≤ 1 then .ok []
  else (splitSlash p.1).mapM fun comp => Comp.fromStr (Comp.escapeStr comp)

/-- `Name.to_str` on a list of encoded components -/
def toStr (n : List Bytes) : Except PyErr Str := do
  let ss ← n.mapM Comp.toStr
  pure ('/' :: (joinSlash ss ++ (if n.getLast? = some [8, 0] then ['/'] else [])))

/-- `Name.to_canonical_uri` on a list of encoded components -/
def toCanonicalUri (n : List Bytes) : Except PyErr Str := do
  let ss ← n.mapM Comp.toCanonicalUri
  pure ('/' :: (joinSlash ss ++ (if n.getLast? = some [8, 0] then ['/'] else [])))

/-- `Name.encode(name)` (fresh buffer) -/
def encode (n : List Bytes) : Bytes :=
  writeTlNum TYPE_NAME ++ writeTlNum n.flatten.length ++ n.flatten

/-- the `while length > 0` loop of `Name.decode`: `length` is the number of bytes of the declared Length not yet
    consumed.  A component whose extent (`off' - off`: its Type, Length and declared Value) is larger than what is left
    of the declared Length raises `IndexError('name component exceeds the Length of the Name')` before anything is
    appended - the test sits where the source has it, after the new offset is computed - so `length` never goes
    negative and the natural-number subtraction below is exact. -/
def decodeLoop (buf : Bytes) : Nat → Nat → Nat → List Bytes → Except PyErr (List Bytes × Nat)
  | 0, _, _, _ => .error .fuel
  | fuel + 1, off, length, acc =>
    if length = 0 then .ok (acc, off)
    else do
      let (_, st) ← parseTlNum buf off
      let (lc, sl) ← parseTlNum buf (off + st)
      let off' := off + st + sl + lc
      if off' - off > length then .error .indexError
      else decodeLoop buf fuel off' (length - (off' - off)) (acc ++ [pySlice buf off off'])

/-- `Name.decode(buf)` → (components, bytes consumed) -/
def decode (buf : Bytes) : Except PyErr (List Bytes × Nat) := do
  let (typ, st) ← parseTlNum buf 0
  if typ ≠ TYPE_NAME then .error .valueError
  else do
    let (length, sl) ← parseTlNum buf st
    if length > buf.length - (st + sl) then .error .indexError
    else decodeLoop buf (length + 1) (st + sl) length []

/-- `Name.decode(buf, offset)` for an offset `0 ≤ off`: the Name element is read AT the offset of the same buffer (the
    components are slices of `buf`, the Length test is against `len(buf) - offset`), the second result is the number of
    bytes consumed (`offset - origin_offset`).  `off ≥ len(buf)`: `IndexError` from the first `parse_tl_num`. -/
def decodeAt (buf : Bytes) (off : Nat) : Except PyErr (List Bytes × Nat) := do
  let (typ, st) ← parseTlNum buf off
  if typ ≠ TYPE_NAME then .error .valueError
  else do
    let (length, sl) ← parseTlNum buf (off + st)
    if length > buf.length - (off + st + sl) then .error .indexError
    else do
      let r ← decodeLoop buf (length + 1) (off + st + sl) length []
      pure (r.1, r.2 - off)

/-- a `NonStrictName` -/
inductive NonStrict where
  | wire (b : Bytes)
  | str (s : Str)
  | list (l : List (Str ⊕ Bytes))

/-- `Name.normalize` -/
def normalize : NonStrict → Except PyErr (List Bytes)
  | .wire b => do let (n, _) ← decode b; pure n
  | .str s => fromStr s
  | .list l => l.mapM fun
    | .inl s => Comp.fromStr (Comp.escapeStr s)
    | .inr b => pure b

/-- `Name.is_prefix` on normalised names -/
def isPrefix (lhs rhs : List Bytes) : Bool :=
  decide (lhs.length ≤ rhs.length) && lhs == rhs.take lhs.length

end Name

/-- Python `bytes.__lt__`: unsigned lexicographic, a proper prefix is smaller. -/
def bytesLt : Bytes → Bytes → Bool
  | [], [] => false
  | [], _ :: _ => true
  | _ :: _, [] => false
  | a :: as, b :: bs => decide (a.toNat < b.toNat) || (a == b && bytesLt as bs)

/-- Python `list.__lt__` on lists of `bytes` -/
def nameLt : List Bytes → List Bytes → Bool
  | [], [] => false
  | [], _ :: _ => true
  | _ :: _, [] => false
  | a :: as, b :: bs => if a = b then nameLt as bs else bytesLt a b

end Ndn
