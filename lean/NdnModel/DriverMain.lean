import NdnModel.Basic
/- generic stdin/stdout loop of a per-property model driver: one request per line, one answer per line;
   the first token of a line is the property tag and is dropped. -/
namespace Ndn

partial def driverLoop (handle : List String → String) (h o : IO.FS.Stream) : IO Unit := do
  let line ← h.getLine
  if line.isEmpty then return ()
  let toks := (line.trimAscii.toString.splitOn " ").filter (· ≠ "")
  o.putStrLn (match toks with
    | _ :: args => handle args
    | [] => "bad-op")
  driverLoop handle h o

def driverMain (handle : List String → String) : IO Unit := do
  let o ← IO.getStdout
  driverLoop handle (← IO.getStdin) o
  o.flush

end Ndn
