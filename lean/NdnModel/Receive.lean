import NdnModel.TlNum
import NdnModel.PyDict
/-
  Model of the receive pipeline of both front-ends:
    src/ndn/appv2.py : NDNApp._receive, _on_nack, _on_data, _on_interest (dispatch part)
    src/ndn/app.py   : NDNApp._receive, _on_nack, _on_data, _on_interest (dispatch part)
    src/ndn/name_tree.py / appv2.py : InterestTreeNode.nack_interest, .satisfy
    src/ndn/transport/udp_face.py : PacketHandler.datagram_received

  The byte-level decoders (parse_lp_packet_v2, parse_tl_num, parse_interest, parse_data) are a
  parameter `Decoders`: each either yields the few facts the pipeline looks at or raises one Python
  exception class.  Which classes each `try` swallows (`Guards`) is generated from the live source
  (lean/NdnGen/C06.lean).  Property C10 instantiates `Decoders.lp` / `.tl` with the concrete
  envelope decoder of NdnModel/Lp.lean.
-/
namespace Ndn.Recv
open Ndn

/-- a name as the key used by the tables: the list of encoded components -/
abbrev NameKey := List Bytes

/-- what the pipeline reads off a decoded LpPacket -/
structure LpFacts where
  /-- `lp_pkt.nack`: absent / present with `nack_reason` (itself optional) -/
  nack : Option (Option Nat)
  pitToken : Option Bytes
  fragment : Option Bytes
  deriving DecidableEq, Repr, Inhabited

/-- what the pipeline reads off a decoded Interest -/
structure IntFacts where
  name : NameKey
  /-- `app_param is not None or sig.signature_info is not None` -/
  sigRequired : Bool
  /-- result of `params_sha256_checker(name, sig)` -/
  digestOk : Bool
  deriving DecidableEq, Repr, Inhabited

/-- what the pipeline reads off a decoded Data -/
structure DataFacts where
  name : NameKey
  /-- SHA-256 of the whole Data packet (for implicit-digest Interests) -/
  digest : Bytes
  deriving DecidableEq, Repr, Inhabited

/-- the decoders as black boxes: facts or the exception class raised -/
structure Decoders where
  lp : Bytes → Except PyErr LpFacts
  tl : Bytes → Except PyErr Nat
  interest : Bytes → Except PyErr IntFacts
  data : Bytes → Except PyErr DataFacts

/-- Generated per front-end from the source of `_receive` / `_on_nack` (see NdnGen/C06.lean). -/
structure Guards where
  lpType : Nat
  interestType : Nat
  dataType : Nat
  /-- classes named by the `except` of the `try` around parse_lp_packet(_v2) -/
  caughtLp : List PyErr
  /-- an explicit `… is None: return` precedes `parse_tl_num(fragment)` -/
  fragNoneGuard : Bool
  /-- `except` classes of the `try` enclosing `parse_tl_num(fragment)` (`[]` when it is not in a `try`) -/
  caughtFragTl : List PyErr
  /-- `try` around `parse_interest` in the Nack branch -/
  caughtNackInterest : List PyErr
  caughtInterest : List PyErr
  caughtData : List PyErr
  /-- `try` around the table lookup in `_on_nack` (`[]` when there is none) -/
  caughtNackLookup : List PyErr
  /-- the PIT token is handed to `_on_interest` (appv2) or ignored (legacy app) -/
  usesPitToken : Bool
  /-- `_on_nack` splits an implicit-digest component off the Nack's name and `nack_interest` completes only
      the entries with that digest (false: looks the full name up and completes the whole node) -/
  nackByDigest : Bool
  /-- `InterestTreeNode.nack_interest` fails a named entry only `if not entry.future.done()`.  The pending Interests of
      this model are live ones; that a Nack arriving in the very loop turn in which its Interest ended otherwise
      (cancelled / timed out, entry not yet unlinked) does not raise `InvalidStateError` out of `_receive` rests on
      this guard (`Ndn.C06.safe`) -/
  nackDoneGuard : Bool
  /-- the same for a Data: legacy `satisfy` completes `if not entry.future.done()`; appv2 hands the Data to a task
      whose `PendingIntEntry.satisfy` returns when the future is cancelled or done before completing it -/
  satisfyDoneGuard : Bool
  deriving DecidableEq, Repr, Inhabited

/-- one expressed Interest waiting in a node of the pending-Interest table -/
structure Pending where
  id : Nat
  canBePrefix : Bool
  /-- implicit SHA-256 digest the Interest asked for (`[]` = none) -/
  digest : Bytes
  deriving DecidableEq, Repr, Inhabited

structure State where
  /-- pending-Interest table: node name ↦ pending list -/
  pit : PyDict NameKey (List Pending)
  /-- names with an attached handler -/
  fib : List NameKey
  deriving DecidableEq, Repr, Inhabited

inductive Effect where
  /-- `future.set_exception(InterestNack(reason))` -/
  | nacked (id : Nat) (reason : Nat)
  /-- the Data is handed to the pending Interest (validation task in v2, `set_result` in legacy) -/
  | satisfied (id : Nat)
  /-- the handler attached at `pfx` is scheduled with this PIT token in its reply closure -/
  | invoke (pfx : NameKey) (token : Option Bytes)
  deriving DecidableEq, Repr, Inhabited

abbrev Res := State × List Effect

/-- `a` is a prefix of `b` -/
def isPrefixOf (a b : NameKey) : Bool := a.length ≤ b.length && b.take a.length == a

/-- `InterestTreeNode.satisfy`: does this entry take the Data? -/
def passes (p : Pending) (exact : Bool) (digest : Bytes) : Bool :=
  (p.canBePrefix || exact) && (p.digest.isEmpty || p.digest == digest)

/-- `Component.get_value(c)`: the bytes after Type and Length -/
def compValue (c : Bytes) : Bytes :=
  match parseTlNum c 0 with
  | .ok (_, st) =>
    match parseTlNum c st with
    | .ok (_, sl) => c.drop (st + sl)
    | .error _ => []
  | .error _ => []

/-- an ImplicitSha256DigestComponent: Type 1 and a 32-byte value (a Type-1 component of another length is not a
    digest - it is an ordinary component of a name no Data can have; repaired in /repo: it used to be split off
    like a digest, so a Nack naming `/a/<empty digest>` nacked the pending Interest `/a`) -/
def isDigestComp (c : Bytes) : Bool :=
  match parseTlNum c 0 with
  | .ok (t, _) => t == 1 && (compValue c).length == 32
  | .error _ => false

/-- how an Interest name is filed: table node name and implicit digest (`[]` = none), as
    `express_raw_interest` and the repaired `_on_nack` split it -/
def splitDigest (n : NameKey) : NameKey × Bytes :=
  match n.getLast? with
  | some c => if isDigestComp c then (n.dropLast, compValue c) else (n, [])
  | none => (n, [])

/-- the pending Interests a Nack enclosing an Interest named `name` addresses, and those of the node it leaves -/
def nackSplit (g : Guards) (name : NameKey) (node : List Pending) : List Pending × List Pending :=
  if g.nackByDigest then
    (node.filter fun p => p.digest == (splitDigest name).2, node.filter fun p => !(p.digest == (splitDigest name).2))
  else (node, [])

def nackNode (g : Guards) (name : NameKey) : NameKey := if g.nackByDigest then (splitDigest name).1 else name

/-- `_on_nack` -/
def onNack (g : Guards) (st : State) (name : NameKey) (reason : Nat) : Except PyErr Res :=
  match st.pit.get? (nackNode g name) with
  | none => if PyErr.keyError ∈ g.caughtNackLookup then .ok (st, []) else .error .keyError
  | some node =>
    let (hit, rest) := nackSplit g name node
    .ok ({ st with pit := if rest.isEmpty then PyDict.erase st.pit (nackNode g name)
                          else PyDict.set st.pit (nackNode g name) rest },
         hit.map fun p => Effect.nacked p.id reason)

/-- what `_on_data` does to one table node -/
def dataNode (d : DataFacts) (e : NameKey × List Pending) : Option (NameKey × List Pending) :=
  if isPrefixOf e.1 d.name then
    let rest := e.2.filter fun p => !passes p (e.1 == d.name) d.digest
    if rest.isEmpty then none else some (e.1, rest)
  else some e

def dataEffects (d : DataFacts) (e : NameKey × List Pending) : List Effect :=
  if isPrefixOf e.1 d.name then
    (e.2.filter fun p => passes p (e.1 == d.name) d.digest).map fun p => Effect.satisfied p.id
  else []

/-- `_on_data` -/
def onData (st : State) (d : DataFacts) : Res :=
  ({ st with pit := st.pit.filterMap (dataNode d) }, st.pit.flatMap (dataEffects d))

/-- `NameTrie.longest_prefix` over the attached handlers -/
def longestPrefix (fib : List NameKey) (n : NameKey) : Option NameKey :=
  fib.foldl (fun best p =>
    if isPrefixOf p n then
      match best with
      | none => some p
      | some b => if b.length < p.length then some p else some b
    else best) none

/-- `_on_interest` up to scheduling the handler -/
def onInterest (st : State) (i : IntFacts) (tok : Option Bytes) : Res :=
  match longestPrefix st.fib i.name with
  | none => (st, [])
  | some p => if i.sigRequired && !i.digestOk then (st, []) else (st, [Effect.invoke p tok])

/-- `try: x = dec(...) except caught: return` -/
def guarded {α} (caught : List PyErr) (st : State) (r : Except PyErr α) (k : α → Except PyErr Res) :
    Except PyErr Res :=
  match r with
  | .ok a => k a
  | .error e => if e ∈ caught then .ok (st, []) else .error e

/-- the part of `_receive` after the envelope (if any) has been removed -/
def receiveNet (g : Guards) (D : Decoders) (st : State) (nackReason : Option Nat) (tok : Option Bytes)
    (typ : Nat) (pkt : Bytes) : Except PyErr Res :=
  match nackReason with
  | some r => guarded g.caughtNackInterest st (D.interest pkt) fun i => onNack g st i.name r
  | none =>
    if typ = g.interestType then
      guarded g.caughtInterest st (D.interest pkt) fun i =>
        .ok (onInterest st i (if g.usesPitToken then tok else none))
    else if typ = g.dataType then
      guarded g.caughtData st (D.data pkt) fun d => .ok (onData st d)
    else .ok (st, [])

/-- the Nack reason `_receive` acts on: a Nack header without a NackReason element is a Nack with
    reason None = 0 (NDNLPv2; `parse_lp_packet` / `appv2._receive` default it), no Nack header = not a Nack -/
def nackReasonOf (n : Option (Option Nat)) : Option Nat := n.map (·.getD 0)

/-- `_receive(typ, data)`; `.error e` = exception class `e` leaves the coroutine -/
def receive (g : Guards) (D : Decoders) (st : State) (typ : Nat) (wire : Bytes) : Except PyErr Res :=
  if typ = g.lpType then
    guarded g.caughtLp st (D.lp wire) fun lp =>
      match lp.fragment with
      | none =>
        if g.fragNoneGuard then .ok (st, [])
        else guarded g.caughtFragTl st (.error .typeError : Except PyErr Nat) fun _ => .ok (st, [])
      | some frag =>
        guarded g.caughtFragTl st (D.tl frag) fun t =>
          receiveNet g D st (nackReasonOf lp.nack) lp.pitToken t frag
  else receiveNet g D st none none typ wire

/-- `UdpFace … datagram_received(data, addr)`: the `(typ, data)` handed to the callback, `none` when the
    datagram is ignored, `.error` when the exception reaches the event loop. -/
def datagramReceived (caught : List PyErr) (data : Bytes) : Except PyErr (Option (Nat × Bytes)) :=
  match parseTlNum data 0 with
  | .ok (t, _) => .ok (some (t, data))
  | .error e => if e ∈ caught then .ok none else .error e

end Ndn.Recv
