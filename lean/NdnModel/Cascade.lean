import NdnModel.Basic
/-
  Model of the trust-schema validator:
    src/ndn/app_support/light_versec/validator.py   lvs_validator (validate_name, sanity_check)
    src/ndn/security/validator/cascade_validator.py CascadeChecker (__init__, validate, _verify_sig),
                                                    MemoryKeyStorage
    src/ndn/security/validator/digest_validator.py  union_checker
  as repaired by candidate_fixes/C14-*.diff: every validator instance owns its key storage, and
  `_verify_sig` has an Ed25519 branch.

  Abstractions
  * The model is generic in the type `N` of names (`[DecidableEq N]`): only equality of names, the
    world lookup, the cache lookup and the schema's signing check look at them.  The driver and the
    non-vacuity examples use opaque identifiers (`Name = Nat`); `NdnModel/CascadeLvs.lean` instantiates
    `N` with real names (lists of TLV-encoded components) and `allowed` with the Light VerSec checker.
  * `Checker.check` (the signing check, property C12) is the parameter `allowed pkt key` of the
    environment (instantiated with the model of `Checker.check` in `NdnModel/CascadeLvs.lean`).  It may
    RAISE (`.error e`): `validate_name` has no `try`, `union_checker` has none, `NDNApp._wait_for_data`
    calls the validator outside its `try`, and the only `except` of `CascadeChecker.validate` names
    ValidationFailure / InterestTimeout / InterestNack (tables `Ndn.Gen.C14`), so the exception of the
    check reaches whoever awaits the validator, at every depth of the cascade: `Verdict.raise e`.
  * Key bits are `Key = (key type, identity)`; the cryptographic library's answer for "signature of
    `o` verifies under key bits `k`" (after `import_key` succeeded) is the abstract function
    `crypto k o`.  Nothing is assumed about it in the model; the theorems state the ideal-signature
    hypotheses explicitly.
  * The network is a `world : Interest → fetch outcome`: what comes back for a certificate
    Interest, as a function of the WHOLE Interest (name, CanBePrefix, MustBeFresh, lifetime).  It is fixed during
    one validation (`validate`, `runSys`: fixed during a whole history); the last section (`runD`) lets it change
    BETWEEN validations and makes the key storage objects (EmptyKeyStorage, MemoryKeyStorage objects that several
    instances may have been handed) explicit.  The only
    Interest the validator ever sends for a key locator `kn` is `certInterest kn` (exact name,
    MustBeFresh, default lifetime; theorem `Ndn.C14.log_only_cert_interests`, generated table
    `Ndn.Gen.C14.fetchKwargs`).  The NDNApp machinery (`express_interest`, PIT, timeout) is the function
    `express`: the Data the network returns passes the pending-Interest test (`pitPasses`, the test of
    `InterestTreeNode.satisfy` for an Interest without implicit digest, property C03) iff it has the
    Interest's name or the Interest is CanBePrefix, and is then handed to `next_level`; Nack / timeout /
    no answer / a Data that does not pass (dropped by the PIT: the Interest times out) make
    `express_interest` raise, which `validate` catches.  Key locators that name a certificate by its
    full name (with a trailing implicit digest) are outside the model.
  * Non-termination (certificate loops) is fuel exhaustion = *no verdict* (`none`).
-/
namespace Ndn.Cascade
open Ndn

/-- the opaque names of the driver and of the examples -/
abbrev Name := Nat

/-- what the bytes of a certificate's Content are, for the key importers -/
inductive KeyType where
  | ec | rsa | ed | bad        -- `bad`: non-empty bytes that no importer accepts
  deriving DecidableEq, Repr

/-- SignatureType as dispatched on by `_verify_sig` -/
inductive SigType where
  | hmac | rsa | ecdsa | ed25519 | other
  deriving DecidableEq, Repr

structure Key where
  kty : KeyType
  id  : Nat
  deriving DecidableEq, Repr

/-- A Data packet (a certificate is a Data packet whose Content is key bits) as the validator sees
    it.  `keyLoc = none` stands for: no SignatureInfo, or no KeyLocator, or an empty KeyLocator name.
    `sig` is an opaque token for the SignatureValue (the driver uses it to carry the ground truth of
    who signed; the model itself never looks at it). -/
structure Obj (N : Type) where
  name    : N
  keyLoc  : Option N
  sigType : SigType
  sig     : Option Nat
  content : Option Key         -- `none`: absent / empty Content
  deriving DecidableEq, Repr

inductive Outcome (N : Type) where
  | data (c : Obj N) | nack | timeout
  deriving Repr

inductive Verdict where
  | accept | reject | raise (e : PyErr)
  deriving DecidableEq, Repr

/-- an Interest as the network sees it (`InterestParam`; lifetime in milliseconds) -/
structure Interest (N : Type) where
  name        : N
  canBePrefix : Bool
  mustBeFresh : Bool
  lifetime    : Nat
  deriving DecidableEq, Repr

/-- `self.app.express_interest(name=cert_name, must_be_fresh=True, can_be_prefix=False, validator=…)`:
    the Interest sent for a key locator; the lifetime is `InterestParam`'s default -/
def certInterest {N : Type} (kn : N) : Interest N := ⟨kn, false, true, 4000⟩

/-- everything a validator instance is built from, plus the network it talks to -/
structure Env (N : Type) where
  allowed    : N → N → Except PyErr Bool   -- checker.check(pkt_name, key_name); `.error`: it raises
  crypto     : Key → Obj N → Bool          -- verify_* of the crypto library
  world      : Interest N → Option (Outcome N)   -- what the network returns for an Interest (`none` = no answer)
  anchorName : N
  anchorKey  : Key

/-- which importer accepts which key bits (`RSA.import_key`, `ECC.import_key` + curve check of the
    verifier) -/
def keyFits : SigType → KeyType → Bool
  | .rsa, .rsa => true
  | .ecdsa, .ec => true
  | .ed25519, .ed => true
  | _, _ => false

/-- `CascadeChecker._verify_sig`.  The HMAC branch computes `verify_hmac` and drops the result
    (returns `None`, which every caller treats as false).  Key bits the importer for the declared
    signature type does not accept raise `ValueError` (or its subclass `UnsupportedEccFeature`). -/
def verifySig {N : Type} (crypto : Key → Obj N → Bool) (k : Key) (o : Obj N) : Verdict :=
  match o.sigType with
  | .hmac => .reject
  | .rsa => if keyFits .rsa k.kty then (if crypto k o then .accept else .reject) else .raise .valueError
  | .ecdsa => if keyFits .ecdsa k.kty then (if crypto k o then .accept else .reject) else .raise .valueError
  | .ed25519 => if keyFits .ed25519 k.kty then (if crypto k o then .accept else .reject) else .raise .valueError
  | .other => .reject

/-! ### MemoryKeyStorage (one per instance) -/

abbrev Cache (N : Type) := List (N × Key)

section generic
variable {N : Type} [DecidableEq N]

def cacheLoad : Cache N → N → Option Key
  | [], _ => none
  | (m, k) :: r, n => if m = n then some k else cacheLoad r n

/-- `self._cache[name] = key_bits` -/
def cacheSave (st : Cache N) (n : N) (k : Key) : Cache N := (n, k) :: st

end generic

structure Res (N : Type) where
  verdict : Option Verdict       -- `none`: no verdict (fuel exhausted)
  cache   : Cache N
  log     : List (Interest N)    -- certificate Interests expressed, in order
  deriving Repr

section generic
variable {N : Type} [DecidableEq N]

/-- the per-entry test of `InterestTreeNode.satisfy` (C03: `Ndn.Pit.passes`) for an Interest without
    implicit digest, on a Data the network returned for it: a Data of the Interest's name passes; any
    other (longer-named) Data only if the Interest is CanBePrefix -/
def pitPasses (i : Interest N) (c : Obj N) : Bool := decide (c.name = i.name) || i.canBePrefix

/-- `await self.app.express_interest(...)` up to the validator call: `some c` — the Data `c` satisfied
    the pending Interest and is handed to the validator; `none` — InterestNack / InterestTimeout (a Nack,
    no answer, or a Data the PIT does not take for this Interest) -/
def express (E : Env N) (i : Interest N) : Option (Obj N) :=
  match E.world i with
  | some (.data c) => if pitPasses i c then some c else none
  | _ => none

/-- `union_checker(validate_name, cas_checker)` applied to `o`; `cas_checker.next_level` is the same
    union, so the recursion is on this function. -/
def validate (E : Env N) : Nat → Cache N → Obj N → Res N
  | 0, st, _ => ⟨none, st, []⟩
  | fuel + 1, st, o =>
    match o.keyLoc with
    | none => ⟨some .reject, st, []⟩                         -- validate_name: no key locator name
    | some kn =>
      match E.allowed o.name kn with                          -- validate_name: checker.check
      | .error e => ⟨some (.raise e), st, []⟩                 -- … raises: nobody catches it
      | .ok false => ⟨some .reject, st, []⟩
      | .ok true =>
        if kn = E.anchorName then                             -- CascadeChecker.validate
          ⟨some (verifySig E.crypto E.anchorKey o), st, []⟩
        else
          match cacheLoad st kn with
          | some k => ⟨some (verifySig E.crypto k o), st, []⟩
          | none =>
            match express E (certInterest kn) with
            | none => ⟨some .reject, st, [certInterest kn]⟩   -- InterestNack / InterestTimeout caught
            | some c =>
              let r := validate E fuel st c                   -- `validator=self.next_level`
              match r.verdict with
              | none => ⟨none, r.cache, certInterest kn :: r.log⟩
              | some .accept =>
                match c.content with
                | none => ⟨some .reject, r.cache, certInterest kn :: r.log⟩   -- `if not key_bits: return False`
                | some k => ⟨some (verifySig E.crypto k o), cacheSave r.cache kn k, certInterest kn :: r.log⟩
              | some .reject => ⟨some .reject, r.cache, certInterest kn :: r.log⟩     -- ValidationFailure caught
              | some (.raise e) => ⟨some (.raise e), r.cache, certInterest kn :: r.log⟩  -- not caught: propagates

/-- one instance validating a sequence of packets (each with its own fuel), keeping its storage -/
def runHist (E : Env N) : Cache N → List (Nat × Obj N) → Cache N
  | st, [] => st
  | st, (f, o) :: r => runHist E (validate E f st o).cache r

/-! ### several instances, each with its own storage -/

def setCache (cs : Nat → Cache N) (i : Nat) (c : Cache N) : Nat → Cache N :=
  fun j => if j = i then c else cs j

/-- a history of `(instance, fuel, packet)` steps over instances `envs i`; returns the storages -/
def runSys (envs : Nat → Env N) : (Nat → Cache N) → List (Nat × Nat × Obj N) → (Nat → Cache N)
  | cs, [] => cs
  | cs, (i, f, o) :: r => runSys envs (setCache cs i (validate (envs i) f (cs i) o).cache) r

/-- the verdicts and Interest logs of a system history -/
def traceSys (envs : Nat → Env N) : (Nat → Cache N) → List (Nat × Nat × Obj N) →
    List (Option Verdict × List (Interest N))
  | _, [] => []
  | cs, (i, f, o) :: r =>
    let x := validate (envs i) f (cs i) o
    (x.verdict, x.log) :: traceSys envs (setCache cs i x.cache) r

/-! ### the certificate world changes between validations; the key storage is an explicit object

  A history is a list of events: `validate i fuel o` (instance `i` is asked about the packet `o`) and
  `world w` (from now on the network answers as `w`: a certificate appears, disappears, times out, is Nacked, is
  replaced by another one of the same name, …).  The key storage an instance was given is explicit
  (`StoreRef`): `EmptyKeyStorage` (`load` answers `None`, `save` does nothing) or the `MemoryKeyStorage`
  object number `s` - the same number for every instance the caller handed that object to.  `CascadeChecker.validate`
  reads the storage once per element of the chain BEFORE fetching (`self.storage.load(cert_name)`), and writes
  `self.storage.save(cert_name, key_bits)` only after `express_interest` returned, i.e. after the fetched certificate
  was validated by `next_level` with verdict `True`, and only if its Content is non-empty; it writes it BEFORE the
  signature of the element that named the certificate is verified, and nothing is written when the fetch fails
  (timeout, Nack, refused certificate) or raises.  That is `validate` above; here the storage it works on is
  looked up in, and written back to, the table of storage objects. -/

abbrev World (N : Type) := Interest N → Option (Outcome N)

/-- the storage object an instance holds -/
inductive StoreRef where
  | empty              -- an `EmptyKeyStorage`
  | mem (s : Nat)      -- the `MemoryKeyStorage` object number `s`
  deriving DecidableEq, Repr

/-- a validator instance without its network: schema check, crypto, anchor, storage object -/
structure Cfg (N : Type) where
  allowed    : N → N → Except PyErr Bool
  crypto     : Key → Obj N → Bool
  anchorName : N
  anchorKey  : Key
  store      : StoreRef

/-- the instance in front of the network `w` -/
def Cfg.env (c : Cfg N) (w : World N) : Env N := ⟨c.allowed, c.crypto, w, c.anchorName, c.anchorKey⟩

inductive Event (N : Type) where
  | validate (i : Nat) (fuel : Nat) (o : Obj N)
  | world (w : World N)

/-- the network as it answers now, and the content of every `MemoryKeyStorage` object -/
structure DState (N : Type) where
  world  : World N
  stores : Nat → Cache N

/-- what `self.storage.load` sees during one validation -/
def loadStore (st : DState N) : StoreRef → Cache N
  | .empty => []
  | .mem s => st.stores s

/-- the storage objects after a validation that left `c` in the storage it worked on -/
def saveStore (stores : Nat → Cache N) : StoreRef → Cache N → (Nat → Cache N)
  | .empty, _ => stores                      -- `EmptyKeyStorage.save` returns at once
  | .mem s, c => setCache stores s c

/-- instance `i` validates `o` in the state `st` -/
def validateD (cfgs : Nat → Cfg N) (st : DState N) (i fuel : Nat) (o : Obj N) : Res N :=
  validate ((cfgs i).env st.world) fuel (loadStore st (cfgs i).store) o

def stepD (cfgs : Nat → Cfg N) (st : DState N) : Event N → DState N
  | .validate i f o => ⟨st.world, saveStore st.stores (cfgs i).store (validateD cfgs st i f o).cache⟩
  | .world w => ⟨w, st.stores⟩

def runD (cfgs : Nat → Cfg N) : DState N → List (Event N) → DState N
  | st, [] => st
  | st, e :: r => runD cfgs (stepD cfgs st e) r

/-- what is observable of a history: per `validate` event the verdict and the certificate Interests -/
def traceD (cfgs : Nat → Cfg N) : DState N → List (Event N) → List (Option Verdict × List (Interest N))
  | _, [] => []
  | st, .validate i f o :: r =>
    ((validateD cfgs st i f o).verdict, (validateD cfgs st i f o).log) :: traceD cfgs (stepD cfgs st (.validate i f o)) r
  | st, .world w :: r => traceD cfgs (stepD cfgs st (.world w)) r

/-! ### construction (`lvs_validator` up to `CascadeChecker.__init__`) -/

end generic

structure Setup (N : Type) where
  userFnsOk : Bool              -- checker.validate_user_fns()
  roots     : List String       -- checker.root_of_trust()
  matched   : List String       -- rule names of every node the anchor's name matches
  anchor    : Obj N
  anchorKey : Key               -- bytes(content) of the anchor
  deriving Repr

def construct {N : Type} (crypto : Key → Obj N → Bool) (s : Setup N) : Except PyErr (N × Key) :=
  if s.userFnsOk = false then .error .valueError
  else if s.matched.isEmpty || !(s.roots.all fun r => s.matched.contains r) then .error .valueError
  else match verifySig crypto s.anchorKey s.anchor with
    | .accept => .ok (s.anchor.name, s.anchorKey)
    | .reject => .error .valueError           -- 'Trust anchor is not properly self-signed'
    | .raise e => .error e

end Ndn.Cascade
