import NdnModel.Basic
/-
  The proleptic Gregorian calendar as CPython's `datetime` implements it (Lib/_pydatetime.py; the C module
  Modules/_datetimemodule.c carries the same algorithms): `_is_leap`, `_days_before_year`, `_days_in_month`,
  `_days_before_month`, `_ymd2ord`, `_ord2ymd` (400/100/4/1-year cycles), `datetime.__add__` with a
  `timedelta(seconds=n)`, `datetime.replace(year=…)`, `astimezone(UTC)` of an aware datetime given the offset its tzinfo reports for it.

  An instant = (`date.toordinal()` : 1 = 0001-01-01, second of the day, microsecond).
-/
namespace Ndn.Calendar
open Ndn

def MINYEAR : Nat := 1
def MAXYEAR : Nat := 9999
/-- `_MAXORDINAL` = `date(9999, 12, 31).toordinal()` -/
def maxOrdinal : Nat := 3652059
/-- `_DI400Y`, `_DI100Y`, `_DI4Y`: days in 400, 100, 4 years -/
def DI400Y : Nat := 146097
def DI100Y : Nat := 36524
def DI4Y : Nat := 1461

/-- `_is_leap(year)` -/
def isLeap (y : Nat) : Bool := y % 4 == 0 && (y % 100 != 0 || y % 400 == 0)

/-- `_days_before_year(year)` -/
def daysBeforeYear (year : Nat) : Nat :=
  let y := year - 1
  y * 365 + y / 4 - y / 100 + y / 400

/-- `_DAYS_IN_MONTH` (index 0 is a placeholder) -/
def daysInMonthTbl : List Nat := [0, 31, 28, 31, 30, 31, 30, 31, 31, 30, 31, 30, 31]

/-- `_DAYS_BEFORE_MONTH`, computed as the module does: running sum of `_DAYS_IN_MONTH[1:]` -/
def runningSums : Nat → List Nat → List Nat
  | _, [] => []
  | acc, d :: ds => acc :: runningSums (acc + d) ds
def daysBeforeMonthTbl : List Nat := 0 :: runningSums 0 (daysInMonthTbl.drop 1)

/-- `_days_in_month(year, month)` -/
def daysInMonth (y m : Nat) : Nat :=
  if m == 2 && isLeap y then 29 else daysInMonthTbl.getD m 0

/-- `_days_before_month(year, month)` -/
def daysBeforeMonth (y m : Nat) : Nat :=
  daysBeforeMonthTbl.getD m 0 + (if decide (m > 2) && isLeap y then 1 else 0)

/-- `_ymd2ord(year, month, day)` -/
def ymd2ord (y m d : Nat) : Nat := daysBeforeYear y + daysBeforeMonth y m + d

/-- the dates `_check_date_fields` accepts -/
def validDate (y m d : Nat) : Prop :=
  1 ≤ y ∧ y ≤ 9999 ∧ 1 ≤ m ∧ m ≤ 12 ∧ 1 ≤ d ∧ d ≤ daysInMonth y m

instance (y m d : Nat) : Decidable (validDate y m d) := by unfold validDate; infer_instance

/-- `date(year, month, day).toordinal()` with `_check_date_fields` -/
def mkDate (y m d : Nat) : Except PyErr Nat :=
  if validDate y m d then .ok (ymd2ord y m d) else .error .valueError

/-- the tail of `_ord2ymd`: month and day of the 0-based day `n` of a year (`month = (n + 50) >> 5` is an
    estimate that is exact or one too large) -/
def splitMonth (leapyear : Bool) (n : Nat) : Nat × Nat :=
  let month := (n + 50) / 32
  let preceding := daysBeforeMonthTbl.getD month 0 + (if decide (month > 2) && leapyear then 1 else 0)
  if preceding > n then
    let month' := month - 1
    let preceding' := preceding - (daysInMonthTbl.getD month' 0 + (if month' == 2 && leapyear then 1 else 0))
    (month', n - preceding' + 1)
  else (month, n - preceding + 1)

/-- `_ord2ymd(n)` -/
def ord2ymd (ord : Nat) : Nat × Nat × Nat :=
  let n := ord - 1
  let n400 := n / DI400Y
  let n := n % DI400Y
  let n100 := n / DI100Y
  let n := n % DI100Y
  let n4 := n / DI4Y
  let n := n % DI4Y
  let n1 := n / 365
  let n := n % 365
  let year := n400 * 400 + 1 + (n100 * 100 + n4 * 4 + n1)
  if n1 == 4 || n100 == 4 then (year - 1, 12, 31)
  else
    let leapyear := n1 == 3 && (n4 != 24 || n100 == 3)
    let md := splitMonth leapyear n
    (year, md.1, md.2)

/-- `date.fromordinal(n)` (ValueError outside 1..`_MAXORDINAL`) -/
def fromOrdinal (n : Nat) : Except PyErr (Nat × Nat × Nat) :=
  if 1 ≤ n ∧ n ≤ maxOrdinal then .ok (ord2ymd n) else .error .valueError

/-- a `datetime` value without its zone: ordinal of the date, second of the day, microsecond -/
structure Instant where
  ord : Nat
  sec : Nat
  us : Nat
  deriving DecidableEq, Repr

def Instant.valid (t : Instant) : Prop := 1 ≤ t.ord ∧ t.ord ≤ maxOrdinal ∧ t.sec < 86400 ∧ t.us < 1000000

instance (t : Instant) : Decidable t.valid := by unfold Instant.valid; infer_instance

/-- seconds since 0000-12-31T00:00:00 (ordinal 0) -/
def Instant.abs (t : Instant) : Int := (t.ord : Int) * 86400 + t.sec

/-- `dt + timedelta(seconds=n)` for an integer `n`: `timedelta(seconds=n)` normalises to
    (days = n // 86400, seconds = n % 86400) and must have |days| ≤ 999999999; the sum of
    `timedelta(days=ordinal, seconds=second-of-day)` and it is normalised again (one carry), and the date must
    stay in 0001-01-01..9999-12-31; `OverflowError` otherwise.  The microsecond is untouched. -/
def addSeconds (t : Instant) (n : Int) : Except PyErr Instant :=
  let nd : Int := n / 86400
  let ns : Int := n % 86400
  if nd < -999999999 ∨ nd > 999999999 then .error .overflowError
  else
    let s : Int := t.sec + ns
    let carry : Int := if s ≥ 86400 then 1 else 0
    let days : Int := t.ord + nd + carry
    let secs : Int := s - 86400 * carry
    if 0 < days ∧ days ≤ maxOrdinal then .ok { ord := days.toNat, sec := secs.toNat, us := t.us }
    else .error .overflowError

/-- `dt.replace(year=dt.year + k)`: the constructor checks the fields again (`ValueError` for a year above 9999
    and for 29 February in a year that is not leap) -/
def addYears (t : Instant) (k : Nat) : Except PyErr Instant :=
  let ymd := ord2ymd t.ord
  match mkDate (ymd.1 + k) ymd.2.1 ymd.2.2 with
  | .ok o => .ok { t with ord := o }
  | .error e => .error e

/-- a `tzinfo`: the UTC offset in seconds it reports (`tzinfo.utcoffset(dt)`) for a wall-clock reading and its
    `fold` attribute.  Any function: a fixed-offset `timezone`, a `zoneinfo.ZoneInfo` whose offset changes with
    daylight saving (and which tells the two occurrences of a repeated reading apart by `fold`), anything else. -/
abbrev Zone := Instant → Bool → Int

/-- the UTC reading of a datetime: a naive one (`off = none`) is taken as it is; for an aware one, whose tzinfo
    reports the offset `o` seconds for this reading, `astimezone(UTC)` is
    `(dt - utcoffset).replace(tzinfo=UTC)` handed to `UTC.fromutc`, which adds `timedelta(0)` -/
def toUtc (t : Instant) (off : Option Int) : Except PyErr Instant :=
  match off with
  | none => .ok t
  | some o => do
    let u ← addSeconds t (-o)
    addSeconds u 0

/-- calendar fields `(year, month, day, hour, minute, second)` of an instant -/
def fields (t : Instant) : Nat × Nat × Nat × Nat × Nat × Nat :=
  let ymd := ord2ymd t.ord
  (ymd.1, ymd.2.1, ymd.2.2, t.sec / 3600, t.sec % 3600 / 60, t.sec % 3600 % 60)

/-- 1970-01-01T00:00:00 (`datetime.fromisoformat('1970-01-01T00:00:00')`) -/
def epoch : Instant := { ord := 719163, sec := 0, us := 0 }

end Ndn.Calendar
