import NdnModel.Basic
/-
  Python `dict` as an insertion-ordered association list with unique keys.
-/
namespace Ndn

abbrev PyDict (κ ν : Type) := List (κ × ν)

namespace PyDict
variable {κ ν : Type} [DecidableEq κ]

def get? (d : PyDict κ ν) (k : κ) : Option ν :=
  match d with
  | [] => none
  | (k', v) :: r => if k' = k then some v else get? r k

/-- `d[k] = v` (keeps the position of an existing key, appends a new one). -/
def set (d : PyDict κ ν) (k : κ) (v : ν) : PyDict κ ν :=
  match d with
  | [] => [(k, v)]
  | (k', v') :: r => if k' = k then (k, v) :: r else (k', v') :: set r k v

def contains (d : PyDict κ ν) (k : κ) : Bool := (get? d k).isSome

def erase (d : PyDict κ ν) (k : κ) : PyDict κ ν := d.filter (fun p => p.1 ≠ k)

def keys (d : PyDict κ ν) : List κ := d.map (·.1)

end PyDict
end Ndn
