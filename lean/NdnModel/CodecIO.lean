import NdnModel.Codec
/- Text syntax of schemas and values for the line protocol (driver only; not used in proofs).
   Schema: U<typ>:<fixedLen|->  B<typ>  Y<typ>:<0|1>  N<typ>  M<typ>:<ic 0|1>(s,s,…)  R(s)  P(k,v)  K
   Value : _  u<nat>  b  y<hex|->  n(<hex>,…)  m(v,…)  l(v,…)  p(k=v,…) -/
namespace Ndn.Codec
open Ndn

abbrev P (α : Type) := List Char → Option (α × List Char)

def pNat : P Nat := fun cs =>
  let ds := cs.takeWhile Char.isDigit
  if ds.isEmpty then none else some ((String.ofList ds).toNat!, cs.drop ds.length)

def pHexTok : P Bytes := fun cs =>
  let ds := cs.takeWhile (fun c => c.isAlphanum || c == '-')
  match fromHex (String.ofList ds) with
  | some b => some (b, cs.drop ds.length)
  | none => none

def expect (c : Char) : List Char → Option (List Char)
  | x :: r => if x == c then some r else none
  | [] => none

mutual
partial def pSchema : P Schema := fun cs =>
  match cs with
  | 'U' :: r => do
    let (t, r) ← pNat r
    let r ← expect ':' r
    match r with
    | '-' :: r => some (.uint t none, r)
    | _ => do let (w, r) ← pNat r; some (.uint t (some w), r)
  | 'B' :: r => do let (t, r) ← pNat r; some (.bool t, r)
  | 'Y' :: r => do
    let (t, r) ← pNat r
    let r ← expect ':' r
    let (s, r) ← pNat r
    some (.bytes t (s == 1), r)
  | 'N' :: r => do let (t, r) ← pNat r; some (.name t, r)
  | 'M' :: r => do
    let (t, r) ← pNat r
    let r ← expect ':' r
    let (ic, r) ← pNat r
    let r ← expect '(' r
    let (fs, r) ← pSchemas r
    some (.model t fs (ic == 1), r)
  | 'R' :: r => do
    let r ← expect '(' r
    let (e, r) ← pSchema r
    let r ← expect ')' r
    some (.repeated e, r)
  | 'P' :: r => do
    let r ← expect '(' r
    let (k, r) ← pSchema r
    let r ← expect ',' r
    let (v, r) ← pSchema r
    let r ← expect ')' r
    some (.map k v, r)
  | 'K' :: r => some (.marker, r)
  | _ => none
/-- comma separated schemas up to and including the closing parenthesis -/
partial def pSchemas : P (List Schema) := fun cs =>
  match cs with
  | ')' :: r => some ([], r)
  | _ => do
    let (s, r) ← pSchema cs
    match r with
    | ',' :: r => do let (ss, r) ← pSchemas r; some (s :: ss, r)
    | ')' :: r => some ([s], r)
    | _ => none
end

partial def pHexList : P (List Bytes) := fun cs =>
  match cs with
  | ')' :: r => some ([], r)
  | _ => do
    let (b, r) ← pHexTok cs
    match r with
    | ',' :: r => do let (bs, r) ← pHexList r; some (b :: bs, r)
    | ')' :: r => some ([b], r)
    | _ => none

mutual
partial def pValue : P Value := fun cs =>
  match cs with
  | '_' :: r => some (.none, r)
  | 'u' :: r => do let (v, r) ← pNat r; some (.uint v, r)
  | 'b' :: r => some (.bool, r)
  | 'y' :: r => do let (b, r) ← pHexTok r; some (.bytes b, r)
  | 'n' :: '(' :: r => do let (bs, r) ← pHexList r; some (.name bs, r)
  | 'm' :: '(' :: r => do let (vs, r) ← pValues r; some (.model vs, r)
  | 'l' :: '(' :: r => do let (vs, r) ← pValues r; some (.list vs, r)
  | 'p' :: '(' :: r => do let (es, r) ← pEntries r; some (.map es, r)
  | _ => none
partial def pValues : P (List Value) := fun cs =>
  match cs with
  | ')' :: r => some ([], r)
  | _ => do
    let (v, r) ← pValue cs
    match r with
    | ',' :: r => do let (vs, r) ← pValues r; some (v :: vs, r)
    | ')' :: r => some ([v], r)
    | _ => none
partial def pEntries : P (List (Value × Value)) := fun cs =>
  match cs with
  | ')' :: r => some ([], r)
  | _ => do
    let (k, r) ← pValue cs
    let r ← expect '=' r
    let (v, r) ← pValue r
    match r with
    | ',' :: r => do let (es, r) ← pEntries r; some ((k, v) :: es, r)
    | ')' :: r => some ([(k, v)], r)
    | _ => none
end

/-- a top-level model: `(s,s,…)` -/
def readSchemas (s : String) : Option (List Schema) :=
  match s.toList with
  | '(' :: r => match pSchemas r with
    | some (fs, []) => some fs
    | _ => none
  | _ => none

def readValues (s : String) : Option (List Value) :=
  match s.toList with
  | '(' :: r => match pValues r with
    | some (vs, []) => some vs
    | _ => none
  | _ => none

mutual
partial def showValue : Value → String
  | .none => "_"
  | .uint v => "u" ++ toString v
  | .bool => "b"
  | .bytes b => "y" ++ toHex b
  | .name cs => "n(" ++ ",".intercalate (cs.map toHex) ++ ")"
  | .model vs => "m" ++ showValues vs
  | .list vs => "l" ++ showValues vs
  | .map es => "p(" ++ ",".intercalate (es.map fun (k, v) => showValue k ++ "=" ++ showValue v) ++ ")"
partial def showValues (vs : List Value) : String := "(" ++ ",".intercalate (vs.map showValue) ++ ")"
end

end Ndn.Codec
