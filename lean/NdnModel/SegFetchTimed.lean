import NdnModel.Pit
import NdnModel.SegFetch
/-
  Timed model of `ndn/app_support/segment_fetcher.py`: the sequential generator running over the pending-Interest
  table of the legacy front-end (`Ndn.Pit`, `FrontEnd.v1` = `app.py` `express_interest` / `_wait_for_data` /
  `_on_data` / `_on_nack`), against a producer / network whose answers take time.

  * every Interest is expressed in the table (`Pit.step .v1 σ (.express name none can_be_prefix lifetime …)`, awaited at
    once, lifetime = the fetcher's `timeout`), the fetcher then sleeps until the table says the Interest is `done`;
  * for the `n`-th Interest the script says what the producer does (`SegFetch.Outcome`: Data / nothing / Nack / Data the
    validator rejects) and after how many ticks (ms) the answer reaches the consumer.  Answers travel in `Flight`
    (arrival time, packet), ordered by arrival time, first sent first among equals;
  * `await`: the clock moves to the next arrival or to the deadline, whichever is first - **timers first** when both fall
    on the same instant (that is the order in which the harness's virtual-time loop runs them) - and a packet is handed to
    `_on_data` / `_on_nack` whatever it was an answer to.  So an answer that arrives at or after the deadline of its own
    Interest is not seen by it; it stays in flight, and if the fetcher has re-expressed the same name by then it satisfies
    the *retry* (same name!), otherwise it finds no entry and is dropped.  A Data answering an earlier discovery
    Interest satisfies a pending segment Interest of that very name in the same way;
  * names: the prefix `[0]` (discovery, CanBePrefix), segment `i` = `[0, 1, i]`, the unsegmented Data `[0, 2]`; a Data is
    identified by `segId k valid` / `unsegId valid` (the validator's verdict is a function of the packet: the legacy
    validator runs in the express task after the entry has left the table, so the table is run with verdict `pass`
    and the fetcher's `retry` raises `ValidationFailure` for a Data whose id says so).

  The generator itself (`retryG`, `fetchLoopG`, `fetchG`) is written once over an abstract `ask` (express one Interest and
  await it): `fetchT` instantiates it with the timed world.
-/
namespace Ndn.SegFetchT
open Ndn.SegFetch (Req Seg Obj End Outcome)

abbrev Name := Pit.Name

def prefixName : Name := [0]
def segName (i : Nat) : Name := [0, 1, i]
def unsegName : Name := [0, 2]

def reqName : Req → Name
  | .disc => prefixName
  | .seg i => segName i

/-- `can_be_prefix=first` -/
def reqCbp : Req → Bool
  | .disc => true
  | .seg _ => false

/-- identifier of the Data of segment `k` (odd = the validator rejects it) -/
def segId (k : Nat) (valid : Bool) : Nat := 2 * (k + 1) + (if valid then 0 else 1)
/-- identifier of the Data of an unsegmented object -/
def unsegId (valid : Bool) : Nat := if valid then 0 else 1
def idValid (d : Nat) : Bool := d % 2 == 0
/-- the segment number in the name of Data `d` (`none`: its last component is not a segment component) -/
def idSeg (d : Nat) : Option Nat := if d / 2 = 0 then none else some (d / 2 - 1)

/-- result of the inner `retry` coroutine -/
inductive RRes where
  | ok (d : Nat) | timeout | nack | invalid | fuel
  deriving DecidableEq, Repr

def endOf : RRes → End
  | .ok _ => .done
  | .timeout => .timeout
  | .nack => .nack
  | .invalid => .invalid
  | .fuel => .fuel

/-- what the generator yielded, every Interest with what its awaitable came to, how the generator ended -/
structure Result where
  yielded : List Nat
  log : List (Req × Pit.Outcome)
  end_ : End
  deriving DecidableEq, Repr

section generator
variable {W : Type} (ask : W → Req → Pit.Outcome × W)

/-- `retry(first)` over `ask` = `await app.express_interest(...)` -/
def retryG (limit : Nat) (q : Req) : (fuel trial : Nat) → W → RRes × W × List Pit.Outcome
  | 0, _, w => (.fuel, w, [])
  | fuel + 1, trial, w =>
    match (ask w q).1 with
    | .data d => (if idValid d then .ok d else .invalid, (ask w q).2, [.data d])
    | .nack r => (.nack, (ask w q).2, [.nack r])
    | .timeout =>
      -- `trial_times += 1; if trial_times >= retry_times: raise`
      if trial + 1 ≥ limit then (.timeout, (ask w q).2, [.timeout])
      else
        let r := retryG limit q fuel (trial + 1) (ask w q).2
        (r.1, r.2.1, .timeout :: r.2.2)
    | o => (.fuel, (ask w q).2, [o])

/-- the `while True:` loop over `seg_no`; content and FinalBlockId are those of the Data received -/
def fetchLoopG (limit : Nat) (segs : List Seg) : (fuel i : Nat) → W → Result × W
  | 0, _, w => (⟨[], [], .fuel⟩, w)
  | fuel + 1, i, w =>
    let r := retryG ask limit (.seg i) (limit + 1) 0 w
    let lg := r.2.2.map fun o => (Req.seg i, o)
    match r.1 with
    | .ok d =>
      match idSeg d with
      | some k =>
        match segs[k]? with
        | some s =>
          if s.fbi = some k then (⟨[s.content], lg, .done⟩, r.2.1)
          else
            let t := fetchLoopG limit segs fuel (i + 1) r.2.1
            (⟨s.content :: t.1.yielded, lg ++ t.1.log, t.1.end_⟩, t.2)
        | none => (⟨[], lg, .fuel⟩, r.2.1)
      | none => (⟨[], lg, .fuel⟩, r.2.1)
    | e => (⟨[], lg, endOf e⟩, r.2.1)

def fetchG (obj : Obj) (limit : Nat) (w : W) : Result × W :=
  let r := retryG ask limit .disc (limit + 1) 0 w
  let lg := r.2.2.map fun o => (Req.disc, o)
  match r.1 with
  | .ok d =>
    match obj, idSeg d with
    | .unseg c, none => (⟨[c], lg, .done⟩, r.2.1)
    | .segs l, some k =>
      if k = 0 then
        match l[0]? with
        | some s =>
          if s.fbi = some 0 then (⟨[s.content], lg, .done⟩, r.2.1)
          else
            let t := fetchLoopG ask limit l (l.length + 1) 1 r.2.1
            (⟨s.content :: t.1.yielded, lg ++ t.1.log, t.1.end_⟩, t.2)
        | none => (⟨[], lg, .fuel⟩, r.2.1)
      else
        let t := fetchLoopG ask limit l (l.length + 1) 0 r.2.1
        (⟨t.1.yielded, lg ++ t.1.log, t.1.end_⟩, t.2)
    | _, _ => (⟨[], lg, .fuel⟩, r.2.1)
  | e => (⟨[], lg, endOf e⟩, r.2.1)

end generator

/-! ### the timed world -/

inductive Pkt where
  | data (nm : Name) (d : Nat)
  | nack (nm : Name) (reason : Nat)
  deriving DecidableEq, Repr

/-- packets on their way to the consumer: (arrival time, packet), in the order they will arrive -/
abbrev Flight := List (Nat × Pkt)

/-- a packet arriving at `t` goes behind everything that arrives at or before `t` -/
def insertPkt (t : Nat) (p : Pkt) : Flight → Flight
  | [] => [(t, p)]
  | (t', p') :: r => if t < t' then (t, p) :: (t', p') :: r else (t', p') :: insertPkt t p r

structure Cfg where
  obj : Obj
  disc : Nat
  life : Nat            -- `timeout` (ms) = the lifetime of every Interest
  reason : Nat := 150   -- reason carried by the Nacks

structure World where
  σ : Pit.State := {}
  fl : Flight := []
  script : List (Outcome × Nat) := []
  sent : List (Req × Nat) := []        -- every Interest the producer saw, and when

/-- next scripted answer; an exhausted script answers at once -/
def pop : List (Outcome × Nat) → (Outcome × Nat) × List (Outcome × Nat)
  | [] => ((.data, 0), [])
  | o :: r => (o, r)

def dataFor (C : Cfg) (q : Req) (valid : Bool) : Option Pkt :=
  match C.obj, q with
  | .unseg _, .disc => some (.data unsegName (unsegId valid))
  | .unseg _, .seg _ => none
  | .segs l, .disc => if C.disc < l.length then some (.data (segName C.disc) (segId C.disc valid)) else none
  | .segs l, .seg i => if i < l.length then some (.data (segName i) (segId i valid)) else none

/-- the packet the producer / network sends back (nothing can be answered for Data that does not exist) -/
def respond (C : Cfg) (q : Req) : Outcome → Option Pkt
  | .nack => some (.nack (reqName q) C.reason)
  | .timeout => none
  | .data => dataFor C q true
  | .invalid => dataFor C q false

/-- a packet reaches the application: `_on_data` / `_on_nack` (no implicit digests here; the digest slot carries the id) -/
def deliver (σ : Pit.State) : Pkt → Pit.State
  | .data nm d => Pit.step .v1 σ (.data nm d d)
  | .nack nm r => Pit.step .v1 σ (.nack nm none r)

def isDone (σ : Pit.State) (i : Nat) : Bool :=
  match σ.sts[i]? with
  | some (.done _ _) => true
  | _ => false

/-- sleep until Interest `i` (deadline `dl`, still pending) is done -/
def await (i dl : Nat) : Pit.State → Flight → Pit.State × Flight
  | σ, [] => (Pit.step .v1 σ (.tick dl), [])
  | σ, (ta, p) :: rest =>
    if dl ≤ ta then (Pit.step .v1 σ (.tick dl), (ta, p) :: rest)
    else
      let σ1 := deliver (Pit.step .v1 σ (.tick ta)) p
      if isDone σ1 i then (σ1, rest) else await i dl σ1 rest

def deadlineOf (σ : Pit.State) (i : Nat) : Nat :=
  match σ.ints[i]? with
  | some I => I.deadline
  | none => 0

def outcomeOf (σ : Pit.State) (i : Nat) : Pit.Outcome :=
  match σ.sts[i]? with
  | some (.done o _) => o
  | _ => .cancelled

/-- the packets in flight once the producer has seen the Interest for `q` (sent now) and put its scripted answer on its way -/
def flightWith (C : Cfg) (w : World) (q : Req) : Flight :=
  match respond C q (pop w.script).1.1 with
  | some p => insertPkt (w.σ.clock + (pop w.script).1.2) p w.fl
  | none => w.fl

/-- the fetcher awaits Interest `i`, just expressed (`wait_for(future, 0)` gives up at once) -/
def settle (i : Nat) (σ : Pit.State) (fl : Flight) : Pit.State × Flight :=
  if isDone σ i then (σ, fl) else await i (deadlineOf σ i) σ fl

/-- `await app.express_interest(name, can_be_prefix=first, lifetime=timeout, …)` -/
def ask (C : Cfg) (w : World) (q : Req) : Pit.Outcome × World :=
  let i := w.σ.ints.length
  let r := settle i (Pit.step .v1 w.σ (.express (reqName q) none (reqCbp q) C.life .pass 0 0 false)) (flightWith C w q)
  (outcomeOf r.1 i, ⟨r.1, r.2, (pop w.script).2, w.sent ++ [(q, w.σ.clock)]⟩)

structure Scenario where
  cfg : Cfg
  limit : Nat
  script : List (Outcome × Nat)

def fetchT (S : Scenario) : Result × World :=
  fetchG (ask S.cfg) S.cfg.obj S.limit { script := S.script }

end Ndn.SegFetchT
