import NdnModel.Basic
/- Strict UTF-8 validity as CPython's `bytes.decode('utf-8')` checks it (no overlongs, no surrogates,
   nothing above U+10FFFF). -/
namespace Ndn

def isCont (b : UInt8) : Bool := 0x80 ≤ b.toNat && b.toNat ≤ 0xBF

def utf8Valid : Bytes → Bool
  | [] => true
  | b0 :: r =>
    let n := b0.toNat
    if n ≤ 0x7F then utf8Valid r
    else if 0xC2 ≤ n && n ≤ 0xDF then
      match r with
      | b1 :: r' => isCont b1 && utf8Valid r'
      | _ => false
    else if 0xE0 ≤ n && n ≤ 0xEF then
      match r with
      | b1 :: b2 :: r' =>
        let lo := if n = 0xE0 then 0xA0 else 0x80
        let hi := if n = 0xED then 0x9F else 0xBF
        (lo ≤ b1.toNat && b1.toNat ≤ hi) && isCont b2 && utf8Valid r'
      | _ => false
    else if 0xF0 ≤ n && n ≤ 0xF4 then
      match r with
      | b1 :: b2 :: b3 :: r' =>
        let lo := if n = 0xF0 then 0x90 else 0x80
        let hi := if n = 0xF4 then 0x8F else 0xBF
        (lo ≤ b1.toNat && b1.toNat ≤ hi) && isCont b2 && isCont b3 && utf8Valid r'
      | _ => false
    else false

end Ndn
