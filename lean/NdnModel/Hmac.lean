import NdnModel.Sha256
/- HMAC (RFC 2104 / FIPS 198-1) over a hash function with 64-byte blocks, as `Cryptodome.Hash.HMAC` (used by
   `HmacSha256Signer` and `verify_hmac`) and Python's `hmac` compute it: a key longer than one block is hashed
   first, the key is zero-padded to one block, and
       HMAC(K, m) = H((K0 xor opad) ++ H((K0 xor ipad) ++ m)),  ipad = 0x36.., opad = 0x5c..
   `H` is a parameter so that theorems hold for every hash function; `hmacSha256` is the instance that is
   executed and compared with hmac/hashlib and with the library's signer and checker objects. -/
namespace Ndn.Hmac

def blockSize : Nat := 64
def ipad : UInt8 := 0x36
def opad : UInt8 := 0x5c

/-- the key as one block: hashed when longer than a block, then padded with zeros -/
def blockKey (H : Bytes → Bytes) (key : Bytes) : Bytes :=
  let k := if key.length > blockSize then H key else key
  k ++ List.replicate (blockSize - k.length) 0

def xorWith (b : UInt8) (k : Bytes) : Bytes := k.map (· ^^^ b)

def hmac (H : Bytes → Bytes) (key msg : Bytes) : Bytes :=
  let k0 := blockKey H key
  H (xorWith opad k0 ++ H (xorWith ipad k0 ++ msg))

def hmacSha256 (key msg : Bytes) : Bytes := hmac Sha256.sha256 key msg

end Ndn.Hmac
