import NdnModel.Packet
import NdnModel.CodecWF
/-
  Specification-level STRICT decoder: the scan loop of `TlvModel.parse` (`Ndn.Codec.parseFields`) with the one
  check the code does not make — after reading an element's Type and Length, `hdr + len ≤ rest.length`
  (the declared Value lies inside the enclosing wire), otherwise the element OVERRUNS.  In Python this is the
  documented `IndexError` ("the Length of a field exceeds the size of wire"); here the failure also carries the
  kind of the overrunning element (`SErr.overrun k`, `SErr.toPy` maps it to IndexError) so that theorems can
  speak about exactly these cases.  The check cannot be added to /repo (an existing integration test ships a
  malformed vector), see known_findings.txt `overrun-*`.

  The strict reader reads the same way as the independent Python oracle harness/strict_tlv.py
  (bounds check right after the T-L header, before the field search).
-/
namespace Ndn.Codec
open Ndn

/-- what kind of element overruns (the four known-finding keys + the two kinds the code does reject) -/
inductive Kind where
  | integer | boolean | byteString | name | subModel | unrecognised
  deriving DecidableEq, Repr, Inhabited

def Kind.text : Kind → String
  | .integer => "integer" | .boolean => "boolean" | .byteString => "byte-string"
  | .name => "name" | .subModel => "sub-model" | .unrecognised => "unrecognised"

/-- failure of the strict decoder: an overrun, or any failure the code has too -/
inductive SErr where
  | overrun (k : Kind)
  | py (e : PyErr)
  deriving DecidableEq, Repr, Inhabited

/-- the exception class the bounds-checked decoder would raise -/
def SErr.toPy : SErr → PyErr
  | .overrun _ => .indexError
  | .py e => e

def lift {α} : Except PyErr α → Except SErr α
  | .ok a => .ok a
  | .error e => .error (.py e)

def leafKind : Schema → Kind
  | .uint _ _ => .integer
  | .bool _ => .boolean
  | .bytes _ _ => .byteString
  | .name _ => .name
  | .model _ _ _ => .subModel
  | _ => .unrecognised

/-- the field an element of Type `typ` is assigned to when the search starts at `pos`:
    (schema of the element, field index, next search position) -/
def fieldAt (fs : List Schema) (pos typ : Nat) : Option (Schema × Nat × Nat) :=
  match findField fs pos typ with
  | none => none
  | some i =>
    match fs[i]? with
    | none => none
    | some (.repeated e) => some (e, i, i)
    | some (.map k _) => some (k, i, i)
    | some s => some (s, i, i + 1)

/-- kind of the element of Type `typ` read when the field search starts at `pos` -/
def kindAt (fs : List Schema) (pos typ : Nat) : Kind :=
  match fieldAt fs pos typ with
  | none => .unrecognised
  | some (s, _, _) => leafKind s

/-- `findMapValue` with the bounds check on every element it reads -/
def strictFindMapValue : Nat → Schema → Bool → Bytes → Nat →
    Except SErr (Nat × Bytes × Bytes × Bytes × Nat)
  | 0, _, _, _, _ => .error (.py .fuel)
  | fuel + 1, vs, ic, rest, off => do
    let (typ, st) ← lift (parseTlNum rest 0)
    let (len, sl) ← lift (parseTlNum rest st)
    let hdr := st + sl
    if hdr + len > rest.length then
      .error (.overrun (if some typ = vs.typ then leafKind vs else .unrecognised))
    else if some typ = vs.typ then
      pure (len, pySlice rest hdr (hdr + len), rest, rest.drop (hdr + len), off + hdr + len)
    else if typ % 2 = 1 ∧ ¬ ic then .error (.py .decodeError)
    else strictFindMapValue fuel vs ic (rest.drop (hdr + len)) (off + hdr + len)

mutual
/-- `parseValue`, reading sub-models strictly -/
def strictValue : Nat → Schema → Bytes → Bytes → Except SErr Value
  | 0, _, _, _ => .error (.py .fuel)
  | fuel + 1, s, body, elem =>
    match s with
    | .model _ fs ic => do
        let vs ← strictFields fuel fs ic body 0 0 (fs.map initVal)
        pure (.model vs)
    | .uint t fl => lift (parseValue (fuel + 1) (.uint t fl) body elem)
    | .bool t => lift (parseValue (fuel + 1) (.bool t) body elem)
    | .bytes t b => lift (parseValue (fuel + 1) (.bytes t b) body elem)
    | .name t => lift (parseValue (fuel + 1) (.name t) body elem)
    | .repeated _ => .error (.py .other)
    | .map _ _ => .error (.py .other)
    | .marker => .ok .none

/-- the scan loop with the bounds check -/
def strictFields : Nat → List Schema → Bool → Bytes → Nat → Nat → List Value → Except SErr (List Value)
  | 0, _, _, _, _, _, _ => .error (.py .fuel)
  | fuel + 1, fs, ic, rest, off, pos, acc =>
    if rest.isEmpty then .ok acc else do
      let (typ, st) ← lift (parseTlNum rest 0)
      let (len, sl) ← lift (parseTlNum rest st)
      let hdr := st + sl
      if hdr + len > rest.length then .error (.overrun (kindAt fs pos typ))
      else
        let body := pySlice rest hdr (hdr + len)
        let elem := rest
        match findField fs pos typ with
        | none =>
          if typ % 2 = 1 ∧ ¬ ic then .error (.py .decodeError)
          else strictFields fuel fs ic (rest.drop (hdr + len)) (off + hdr + len) pos acc
        | some i =>
          let acc1 := skipMarkers fs acc pos i off
          match fs[i]? with
          | none => .error (.py .other)
          | some s =>
            match s with
            | .repeated e => do
              lift (leafCheck e len body)
              let v ← strictValue fuel e body elem
              let old := listOf acc1[i]?
              strictFields fuel fs ic (rest.drop (hdr + len)) (off + hdr + len) i (acc1.set i (.list (old ++ [v])))
            | .map ks vs => do
              lift (leafCheck ks len body)
              let k ← strictValue fuel ks body elem
              let (len2, body2, elem2, rest3, off3) ←
                strictFindMapValue fuel vs ic (rest.drop (hdr + len)) (off + hdr + len)
              lift (leafCheck vs len2 body2)
              let v ← strictValue fuel vs body2 elem2
              let old := mapOf acc1[i]?
              strictFields fuel fs ic rest3 off3 i (acc1.set i (.map (mapSet old k v)))
            | _ => do
              lift (leafCheck s len body)
              let v ← strictValue fuel s body elem
              strictFields fuel fs ic (rest.drop (hdr + len)) (off + hdr + len) (i + 1) (acc1.set i v)
end

/-- `Cls.parse(wire, ignore_critical)` as it would be with the bounds check -/
def strictParse (fs : List Schema) (ic : Bool) (wire : Bytes) : Except SErr (List Value) :=
  strictFields (wire.length + 1) fs ic wire 0 0 (fs.map initVal)

/-! ### what "well nested" means (specification level, no decoder involved) -/

/-- `rest` starts with one complete element of Type `typ`: a T-L header of `hdr` bytes and `len` bytes of
    Value, all of it inside `rest` -/
def ElemAt (rest : Bytes) (typ hdr len : Nat) : Prop :=
  ∃ st sl, parseTlNum rest 0 = .ok (typ, st) ∧ parseTlNum rest st = .ok (len, sl) ∧ hdr = st + sl ∧
    hdr + len ≤ rest.length

/-- the `length` bytes of `buf` from `off` on are a sequence of complete name components -/
inductive CompsNested (buf : Bytes) : Nat → Nat → Prop where
  | done (off : Nat) : CompsNested buf off 0
  | comp {off length t st lc sl : Nat} : parseTlNum buf off = .ok (t, st) →
      parseTlNum buf (off + st) = .ok (lc, sl) → st + sl + lc ≤ length →
      CompsNested buf (off + (st + sl + lc)) (length - (st + sl + lc)) → CompsNested buf off length

def isLeaf : Schema → Bool
  | .uint _ _ | .bool _ | .bytes _ _ => true
  | _ => false

/-- `WellNested fs pos bytes`: `bytes` is a sequence of complete elements, each entirely inside `bytes`;
    the Value of every element recognised (field search from `pos`, as the decoder does) as a sub-model is
    again well nested for the sub-model's fields; the components of every recognised Name lie inside the
    Name's Value. -/
inductive WellNested : List Schema → Nat → Bytes → Prop where
  | done (fs : List Schema) (pos : Nat) : WellNested fs pos []
  | skip {fs : List Schema} {pos : Nat} {rest : Bytes} {typ hdr len : Nat} :
      ElemAt rest typ hdr len → fieldAt fs pos typ = none →
      WellNested fs pos (rest.drop (hdr + len)) → WellNested fs pos rest
  | leaf {fs : List Schema} {pos : Nat} {rest : Bytes} {typ hdr len : Nat} {s : Schema} {i next : Nat} :
      ElemAt rest typ hdr len → fieldAt fs pos typ = some (s, i, next) → isLeaf s = true →
      WellNested fs next (rest.drop (hdr + len)) → WellNested fs pos rest
  | name {fs : List Schema} {pos : Nat} {rest : Bytes} {typ hdr len : Nat} {t i next : Nat} :
      ElemAt rest typ hdr len → fieldAt fs pos typ = some (.name t, i, next) →
      CompsNested rest hdr len →
      WellNested fs next (rest.drop (hdr + len)) → WellNested fs pos rest
  | sub {fs : List Schema} {pos : Nat} {rest : Bytes} {typ hdr len : Nat} {t : Nat} {fs' : List Schema}
      {ic' : Bool} {i next : Nat} :
      ElemAt rest typ hdr len → fieldAt fs pos typ = some (.model t fs' ic', i, next) →
      WellNested fs' 0 (pySlice rest hdr (hdr + len)) →
      WellNested fs next (rest.drop (hdr + len)) → WellNested fs pos rest

end Ndn.Codec

namespace Ndn.Packet
open Ndn Ndn.Codec

/-- `decodePacket` over the strict scan loop -/
def strictDecodePacket (fs : List Schema) (outer : Nat) (ic needName : Bool) (forbid : List Nat)
    (wire : Bytes) : Except SErr (List Value) := do
  let v ← lift (parseAndCheckTl wire outer)
  let vs ← strictParse fs ic v
  if (needName && nameMissing fs vs) = true then .error (.py .decodeError)
  else if anyPresent fs vs forbid = true then .error (.py .decodeError)
  else .ok vs

/-- a whole packet: exactly one element of Type `outer` filling the wire, whose Value is well nested -/
def PacketNested (fs : List Schema) (outer : Nat) (wire : Bytes) : Prop :=
  ∃ tl size sl, parseTlNum wire 0 = .ok (outer, tl) ∧ parseTlNum wire tl = .ok (size, sl) ∧
    wire.length = tl + sl + size ∧ WellNested fs 0 (pySlice wire (tl + sl) (tl + sl + size))

end Ndn.Packet
