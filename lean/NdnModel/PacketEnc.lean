import NdnModel.Packet
import NdnModel.Shrink
/-
  make_data / make_interest of ndn_format_0_3.py (DataPacketValue / InterestPacketValue encoded_length
  and encode overrides, SignatureValueField.encode_into / calculate_signature, InterestNameField,
  shrink_length) and the SignaturePtrs that parse_data / parse_interest report.

  The signer is abstract: it announced `reserved` bytes and, given the covered bytes, produced `sig`.
  `H` is SHA-256 (a parameter so that theorems hold for every hash function).
-/
namespace Ndn.Packet
open Ndn Ndn.Codec

/-- field schemas of `DataPacketValue` (checked against the live class by `Ndn.Gen.C01`) -/
def nameS : Schema := .name 7
def metaS : Schema := .model 20 [.uint 24 none, .uint 25 none, .bytes 26 false] false
def contentS : Schema := .bytes 21 false
def keyLocS : Schema := .model 28 [.name 7, .bytes 29 false] false
def sigInfoFields : List Schema := [.uint 27 (some 1), keyLocS, .uint 38 none, .uint 40 none, .uint 42 none]
def dataSigInfoS : Schema := .model 22 sigInfoFields true
def dataFs : List Schema :=
  [.marker, .marker, .marker, .marker, .marker, nameS, metaS, contentS, dataSigInfoS, .bytes 23 false]

def linksS : Schema := .model 30 [.repeated (.name 7)] false
def intSigInfoS : Schema := .model 44 sigInfoFields false
def interestFs : List Schema :=
  [.marker, .marker, .marker, .marker, .marker, .marker, .marker,
   nameS, .bool 33, .bool 18, linksS, .uint 10 (some 4), .uint 12 none, .uint 34 (some 1),
   .marker, .marker, .bytes 36 false, intSigInfoS, .bytes 46 false, .marker]

structure SignerOut where
  reserved : Nat          -- get_signature_value_size()
  sig : Bytes             -- what write_signature_value wrote (its length is the returned real_len)
  deriving Repr

/-- SignatureValueField.encode_into + calculate_signature: the element as it sits in the buffer before
    the outer shrink (`reserved` value bytes, Length byte patched), and the shrink amount -/
def sigValueElem (t : Nat) (s : SignerOut) : Except PyErr (Bytes × Nat) :=
  if s.sig.length > s.reserved then .error .valueError       -- slice assignment of a longer signature
  else if s.reserved ≥ 2 ^ 64 then .error .structError
  else
    let pad := List.replicate (s.reserved - s.sig.length) (0 : UInt8)
    if s.sig.length = s.reserved then .ok (writeTlNum t ++ writeTlNum s.reserved ++ s.sig, 0)
    else if s.reserved ≥ 253 then .error .valueError
    else .ok (writeTlNum t ++ [UInt8.ofNat s.sig.length] ++ s.sig ++ pad, s.reserved - s.sig.length)

/-- outer element around an (unshrunk) value, then `shrink_length` when something was reserved in vain -/
def wrapShrink (outer : Nat) (value : Bytes) (shrink : Nat) : Except PyErr Bytes :=
  if value.length ≥ 2 ^ 64 then .error .structError
  else
    let w := writeTlNum outer ++ writeTlNum value.length ++ value
    if shrink > 0 then shrinkLength w shrink else .ok w

structure Made where
  wire : Bytes
  covered : List Bytes      -- what was handed to the signer (concatenated by it)
  finalName : List Bytes := []
  digestCovered : Bytes := []
  deriving Repr

/-- `make_data(name, meta_info, content, signer)`; `sigInfo` is what `write_signature_info` filled in -/
def makeData (name : List Bytes) (mi content sigInfo : Value) (signer : Option SignerOut) :
    Except PyErr Made := do
  let p ← encFields [nameS, metaS, contentS, dataSigInfoS] [.name name, mi, content, sigInfo]
  match signer with
  | none => do
    let w ← wrapShrink 6 p 0
    pure { wire := w, covered := [] }
  | some s => do
    let (sv, shrink) ← sigValueElem 23 s
    let w ← wrapShrink 6 (p ++ sv) shrink
    pure { wire := w, covered := [p] }

def isDigestComp (c : Bytes) : Bool :=
  match parseTlNum c 0 with
  | .ok (t, _) => t == 2
  | .error _ => false

/-- InterestNameField.encoded_length: position of the ParametersSha256Digest component, or the error -/
def digestPos (need : Bool) : List Bytes → Nat → Option Nat → Except PyErr (Option Nat)
  | [], _, acc => .ok acc
  | c :: r, i, acc =>
    if isDigestComp c then
      (if need ∧ acc = none then digestPos need r (i + 1) (some i) else .error .valueError)
    else digestPos need r (i + 1) acc

def placeDigest : List Bytes → Nat → Bytes → List Bytes
  | [], _, _ => []
  | c :: r, 0, d => (c.take 2 ++ d ++ c.drop 34) :: r     -- digest_buf = wire[offset+2 : offset+34]
  | c :: r, i + 1, d => c :: placeDigest r i d

/-- the name bytes covered by the signature: everything but the digest component, as the chunks
    `sig_cover_part` receives in encode_into -/
def nameChunks (comps : List Bytes) (pos : Option Nat) : List Bytes :=
  match pos with
  | none => if (concatB comps).isEmpty then [] else [concatB comps]
  | some i =>
    let a := concatB (comps.take i)
    let b := concatB (comps.drop (i + 1))
    (if a.isEmpty then [] else [a]) ++ (if b.isEmpty then [] else [b])

def digestPlaceholder : Bytes := [2, 32] ++ List.replicate 32 (0 : UInt8)

/-- a signed Interest always carries ApplicationParameters (empty when none was given) -/
def effApp (signed : Bool) (app : Value) : Value :=
  if signed && isNone app then .bytes [] else app

/-- encode once `need_digest` and the position of a caller-supplied digest component are known -/
def interestCore (H : Bytes → Bytes) (name : List Bytes) (mid : List Value) (app sigInfo : Value)
    (signer : Option SignerOut) (need : Bool) (pos : Option Nat) : Except PyErr Made := do
  let appended : Bool := need && pos.isNone
  let comps0 := if appended then name ++ [digestPlaceholder] else name
  let pos' := if appended then some name.length else pos
  let midB ← encFields [.bool 33, .bool 18, linksS, .uint 10 (some 4), .uint 12 none, .uint 34 (some 1)] mid
  let tailA ← encFields [.bytes 36 false, intSigInfoS] [app, sigInfo]
  let (sv, shrink) ← match signer with
    | none => pure ([], 0)
    | some s => sigValueElem 46 s
  -- after the signature is in place the digest covers ApplicationParameters .. end of the (shrunk) value
  let digestCovered := tailA ++ sv.take (sv.length - shrink)
  let comps := match need, pos' with
    | true, some i => placeDigest comps0 i (H digestCovered)
    | _, _ => comps0
  let nameB ← tlvE 7 (concatB comps)
  let w ← wrapShrink 5 (nameB ++ midB ++ tailA ++ sv) shrink
  let covered := match signer with
    | none => []
    | some _ => nameChunks comps pos' ++ [tailA]
  -- the returned final name carries the digest as written into the wire (also for a caller-supplied placeholder)
  pure { wire := w, covered := covered, finalName := comps,
         digestCovered := if need then digestCovered else [] }

/-- `make_interest(name, interest_param, app_param, signer)`.
    `mid` = the values of can_be_prefix, must_be_fresh, forwarding_hint, nonce, lifetime, hop_limit. -/
def makeInterest (H : Bytes → Bytes) (name : List Bytes) (mid : List Value) (appParam sigInfo : Value)
    (signer : Option SignerOut) : Except PyErr Made := do
  let app := effApp signer.isSome appParam
  let need := !(isNone app)
  let pos ← digestPos need name 0 none
  interestCore H name mid app sigInfo signer need pos

/-! ### SignaturePtrs reported by the parsers -/

/-- offset (inside `value`) of the first top-level element of Type `t` -/
def offsetOfType : Nat → Bytes → Nat → Nat → Option Nat
  | 0, _, _, _ => none
  | fuel + 1, rest, off, t =>
    match parseTlNum rest 0 with
    | .error _ => none
    | .ok (typ, st) =>
      match parseTlNum rest st with
      | .error _ => none
      | .ok (len, sl) =>
        if typ = t then some off
        else offsetOfType fuel (rest.drop (st + sl + len)) (off + st + sl + len) t

structure Ptrs where
  sigCovered : List Bytes
  sigValue : Option Bytes
  digestCovered : List Bytes
  digestValue : Option Bytes
  deriving Repr

def markerOff : Option Value → Option Nat
  | some (.uint n) => some n
  | _ => none

def bytesOf : Option Value → Option Bytes
  | some (.bytes b) => some b
  | _ => none

def compValue (c : Bytes) : Bytes :=
  match parseTlNum c 0 with
  | .ok (_, st) => match parseTlNum c st with
    | .ok (_, sl) => c.drop (st + sl)
    | .error _ => []
  | .error _ => []

/-- `parse_data(wire)`: fields and SignaturePtrs (`value` is the Data Value, offsets are relative to it) -/
def parseData (wire : Bytes) : Except PyErr (List Value × Ptrs) := do
  let vs ← decodePacket dataFs 6 false true [] wire
  let value ← parseAndCheckTl wire 6
  let sv := bytesOf vs[9]?
  let covered := match sv, markerOff vs[4]?, offsetOfType (value.length + 1) value 0 23 with
    | some _, some a, some b => [pySlice value a b]
    | _, _, _ => []
  pure (vs, { sigCovered := covered, sigValue := sv, digestCovered := [], digestValue := none })

def lastDigest : List Bytes → Option Bytes
  | [] => none
  | c :: r => match lastDigest r with
    | some d => some d
    | none => if isDigestComp c then some (compValue c) else none

/-- `parse_interest(wire)` -/
def parseInterest (wire : Bytes) : Except PyErr (List Value × Ptrs) := do
  let vs ← decodePacket interestFs 5 false true [] wire
  let value ← parseAndCheckTl wire 5
  let comps : List Bytes := match vs[7]? with | some (Value.name cs) => cs | _ => []
  let sv := bytesOf vs[18]?
  let nameCov := comps.filter (fun c => !isDigestComp c)
  let cov := match sv, markerOff vs[14]?, offsetOfType (value.length + 1) value 0 46 with
    | some _, some a, some b => [pySlice value a b]
    | _, _, _ => []
  let dstart := (markerOff vs[15]?).getD 0
  pure (vs, { sigCovered := nameCov ++ cov, sigValue := sv,
              digestCovered := [pySlice value dstart value.length], digestValue := lastDigest comps })

end Ndn.Packet

namespace Ndn.Packet
open Ndn Ndn.Codec

/-- `params_sha256_checker`: the digest component equals `H` of the digest-covered bytes -/
def paramsCheck (H : Bytes → Bytes) (p : Ptrs) : Bool :=
  match p.digestValue with
  | none => false
  | some d => !p.digestCovered.isEmpty && !d.isEmpty && H (concatB p.digestCovered) == d

/-- a signature scheme as the verifiers use it: they hash / verify the concatenation of the covered parts -/
structure Scheme where
  sign : Bytes → Bytes
  verify : Bytes → Bytes → Bool

/-- `verify_*(key, sig_ptrs)` -/
def verifyPtrs (S : Scheme) (p : Ptrs) : Bool :=
  match p.sigValue with
  | none => false
  | some s => S.verify (concatB p.sigCovered) s

end Ndn.Packet
