import NdnModel.Basic
/-
  Pending-Interest bookkeeping of both application front-ends
  (`appv2.py` NDNApp._pit / `app.py` NDNApp._int_tree, `name_tree.py` InterestTreeNode).

  What is mirrored
  * `express_raw_interest`: `setdefault(node_name)` (a fresh node object only when the name has none),
    `append_interest`, deadline = now + lifetime, the node *captured* by `_wait_for_data`;
  * `InterestTreeNode.satisfy`: CanBePrefix / implicit-digest test per entry, passed entries are handed to
    the validator (v2: `create_task(entry.satisfy)`, legacy: `future.set_result` and the validator runs in
    the express task), the list is replaced by the unsatisfied entries only when there are some, and the
    node is unlinked from the trie when there are none (its list is then left untouched);
  * `_on_data` walk over all prefixes of the Data name, then `del trie[prefix]` for the emptied nodes;
  * `_on_nack` / `nack_interest` (entries named by the Nack, incl. the implicit digest);
  * `_wait_for_data`: `wait_for` timeout at the deadline and cancellation by the caller, both followed by
    `_remove_pending` = `node.timeout(future)` on the *captured* node and `del trie[name]` only if that
    node is still the one linked under the name;
  * `_clean_up`.
  Node objects live in a heap (`nodeId ↦ pending_list`); the trie maps names to node ids, so an unlinked
  node that a waiting coroutine still holds is representable (that is the situation of finding F6b).

  Time: `tick t` moves the virtual clock and fires every timer due (`wait_for` deadlines, validator
  completions).  Timers of different Interests commute, so they are fired Interest by Interest; for one
  Interest the earlier of (validator completion, deadline) wins (v2), a tie goes to the deadline.
  All other events happen at the current clock value and run to quiescence.
-/
namespace Ndn.Pit

inductive FrontEnd where
  | v1 | v2
  deriving DecidableEq, Repr, Inhabited

/-- name = list of components (the model only compares components, so they are numbers) -/
abbrev Name := List Nat

/-- scripted behaviour of a validator: the five `ValidResult` values, or raising -/
inductive Verdict where
  | fail | timeout | silence | pass | allowBypass | raiseTimeout | raiseOther
  deriving DecidableEq, Repr, Inhabited

inductive Outcome where
  | data (d : Nat)                       -- the awaitable returned the content of Data `d`
  | nack (reason : Nat)                  -- InterestNack(reason)
  | timeout                              -- InterestTimeout
  | cancelled                            -- InterestCanceled / CancelledError
  | valFail (d : Nat) (v : Verdict)      -- ValidationFailure carrying Data `d` and the verdict
  | validatorError (d : Nat)             -- legacy: the validator's own exception reaches the caller
  deriving DecidableEq, Repr, Inhabited

inductive IState where
  | waiting                              -- future pending, entry in the PIT
  | validating (d : Nat) (fin : Nat)     -- Data `d` taken, validator finishes at `fin`
  | done (o : Outcome) (t : Nat)         -- the awaitable finished with `o` at time `t`
  deriving DecidableEq, Repr, Inhabited

/-- what the application asked for (immutable) -/
structure Req where
  name : Name                -- node name (without an implicit digest component)
  implicit : Option Nat      -- implicit digest (digests are numbered by the harness)
  cbp : Bool                 -- CanBePrefix
  deadline : Nat
  verdict : Verdict          -- what the validator supplied with this Interest will say
  lat : Nat                  -- ... and how long it takes
  deriving Repr, Inhabited

/-- an expressed Interest: the request plus the node object captured at express time -/
structure Interest extends Req where
  node : Nat
  deriving Repr, Inhabited

structure State where
  clock : Nat := 0
  ints : List Interest := []           -- index = Interest id
  sts : List IState := []              -- same length
  heap : List (List Nat) := []         -- node id ↦ pending_list (Interest ids)
  trie : List (Name × Nat) := []       -- name ↦ node id
  vcalls : List (Nat × Nat × Nat) := []  -- validator invocations (Interest, Data, time)
  errs : List PyErr := []              -- exceptions escaping a callback / reaching the awaitable
  deriving Repr, Inhabited

inductive Ev where
  | express (name : Name) (implicit : Option Nat) (cbp : Bool) (lifetime : Nat) (verdict : Verdict) (lat : Nat)
  | data (name : Name) (digest : Nat) (d : Nat)
  | nack (name : Name) (implicit : Option Nat) (reason : Nat)
  | tick (t : Nat)
  | cancel (i : Nat)
  | shutdown
  deriving Repr, Inhabited

/-- what the awaitable finishes with once the validator has answered; `none` = it does not finish
    (v2: the validation task died with the validator's exception, the future stays pending). -/
def validatorOutcome (fe : FrontEnd) (v : Verdict) (d : Nat) : Option Outcome :=
  match fe, v with
  | _, .pass => some (.data d)
  | .v2, .allowBypass => some (.data d)
  | .v2, .raiseOther => none
  | .v2, .raiseTimeout => some (.valFail d .timeout)
  | .v2, v => some (.valFail d v)
  -- legacy: truthiness of the returned value; the harness scripts `pass` / `fail` and the raising ones
  | .v1, .allowBypass => some (.data d)
  | .v1, .raiseOther => some (.validatorError d)
  | .v1, .raiseTimeout => some (.validatorError d)
  | .v1, _ => some (.valFail d .fail)

def setSt (σ : State) (i : Nat) (s : IState) : State := { σ with sts := σ.sts.set i s }

def trieGet (tr : List (Name × Nat)) (n : Name) : Option Nat := tr.lookup n

/-- `del trie[n]` -/
def trieDel (tr : List (Name × Nat)) (n : Name) : Except PyErr (List (Name × Nat)) :=
  if (tr.lookup n).isSome then .ok (tr.filter (fun b => b.1 != n)) else .error .keyError

def delName (σ : State) (n : Name) : State :=
  match trieDel σ.trie n with
  | .ok tr => { σ with trie := tr }
  | .error e => { σ with errs := σ.errs ++ [e] }

/-- `for prefix in clean_list: del trie[prefix]` (an exception ends the loop) -/
def delNames : List Name → State → State
  | [], σ => σ
  | n :: r, σ =>
    match trieDel σ.trie n with
    | .ok tr => delNames r { σ with trie := tr }
    | .error e => { σ with errs := σ.errs ++ [e] }

def pend (σ : State) (nid : Nat) : List Nat := σ.heap.getD nid []

/-- `_remove_pending(future, node_name, node)`:
    `if node.timeout(future) and trie.get(node_name) is node: del trie[node_name]` -/
def removePending (σ : State) (i : Nat) (I : Interest) : State :=
  let l := (pend σ I.node).filter (· != i)
  let σ1 := { σ with heap := σ.heap.set I.node l }
  if l.isEmpty && (trieGet σ.trie I.name == some I.node) then delName σ1 I.name else σ1

/-- the timers of Interest `i` that are due at time `t` -/
def fireOne (fe : FrontEnd) (t : Nat) (σ : State) (i : Nat) : State :=
  match σ.ints[i]?, σ.sts[i]? with
  | some I, some .waiting =>
    if I.deadline ≤ t then removePending (setSt σ i (.done .timeout I.deadline)) i I else σ
  | some I, some (.validating d fin) =>
    match fe with
    | .v1 =>
      -- the future already has its result, the timer is disarmed; the validator runs in the express task
      if fin ≤ t then
        match validatorOutcome .v1 I.verdict d with
        | some o => setSt σ i (.done o fin)
        | none => σ
      else σ
    | .v2 =>
      match validatorOutcome .v2 I.verdict d with
      | some o =>
        if fin ≤ t ∧ fin < I.deadline then setSt σ i (.done o fin)
        else if I.deadline ≤ t then removePending (setSt σ i (.done .timeout I.deadline)) i I
        else σ
      | none =>
        if I.deadline ≤ t then removePending (setSt σ i (.done .timeout I.deadline)) i I else σ
  | _, _ => σ

def tick (fe : FrontEnd) (σ : State) (t : Nat) : State :=
  let t' := max σ.clock t
  (List.range σ.ints.length).foldl (fireOne fe t') { σ with clock := t' }

/-- a passed entry: v2 `create_task(entry.satisfy(data))`, legacy `future.set_result(data)` followed by the
    validator call in the express task.  A validator without latency answers in the same instant. -/
def deliver (fe : FrontEnd) (d : Nat) (σ : State) (e : Nat) : State :=
  match σ.ints[e]?, σ.sts[e]? with
  | some I, some .waiting =>
    let σ1 := { σ with vcalls := σ.vcalls ++ [(e, d, σ.clock)] }
    match (if I.lat = 0 then validatorOutcome fe I.verdict d else none) with
    | some o => setSt σ1 e (.done o σ.clock)
    | none => setSt σ1 e (.validating d (σ.clock + I.lat))
  | some _, some _ =>
    -- the future is not pending any more (only possible when timer and packet share a loop turn):
    -- v2 still starts the validation task, whose result is then discarded by the done-guard
    match fe with
    | .v2 => { σ with vcalls := σ.vcalls ++ [(e, d, σ.clock)] }
    | .v1 => σ
  | _, _ => σ

/-- the per-entry test of `InterestTreeNode.satisfy` -/
def passes (ints : List Interest) (isPrefix : Bool) (dg : Nat) (e : Nat) : Bool :=
  match ints[e]? with
  | some I => (I.cbp || !isPrefix) && (match I.implicit with | none => true | some x => x == dg)
  | none => false

/-- `node.satisfy(data, is_prefix)`; the Bool is its return value ("node can be removed") -/
def satisfyNode (fe : FrontEnd) (dg d : Nat) (isPrefix : Bool) (σ : State) (nid : Nat) : State × Bool :=
  let l := pend σ nid
  let σ1 := (l.filter (passes σ.ints isPrefix dg)).foldl (deliver fe d) σ
  let uns := l.filter (fun e => !passes σ.ints isPrefix dg e)
  if uns.isEmpty then (σ1, true) else ({ σ1 with heap := σ1.heap.set nid uns }, false)

def walkStep (fe : FrontEnd) (nm : Name) (dg d : Nat) (acc : State × List Name) (b : Name × Nat) :
    State × List Name :=
  if b.1.isPrefixOf nm then
    let r := satisfyNode fe dg d (b.1 != nm) acc.1 b.2
    if r.2 then (r.1, acc.2 ++ [b.1]) else (r.1, acc.2)
  else acc

/-- `_on_data` -/
def onData (fe : FrontEnd) (σ : State) (nm : Name) (dg d : Nat) : State :=
  let r := σ.trie.foldl (walkStep fe nm dg d) (σ, [])
  delNames r.2 r.1

/-- does the Nack (whose Interest carried implicit digest `dg`) name entry `e`? -/
def named (ints : List Interest) (dg : Option Nat) (e : Nat) : Bool :=
  match ints[e]? with
  | some I => I.implicit == dg
  | none => false

def nackEntry (r : Nat) (σ : State) (e : Nat) : State :=
  if σ.sts[e]? = some .waiting then setSt σ e (.done (.nack r) σ.clock) else σ

/-- `_on_nack` -/
def onNack (σ : State) (nm : Name) (dg : Option Nat) (r : Nat) : State :=
  match trieGet σ.trie nm with
  | none => σ
  | some nid =>
    let l := pend σ nid
    let σ1 := (l.filter (named σ.ints dg)).foldl (nackEntry r) σ
    let rest := l.filter (fun e => !named σ.ints dg e)
    let σ2 := { σ1 with heap := σ1.heap.set nid rest }
    if rest.isEmpty then delName σ2 nm else σ2

/-- `future.cancel()` of a pending entry, and what its coroutine then does -/
def cancelEntry (σ : State) (e : Nat) : State :=
  match σ.ints[e]?, σ.sts[e]? with
  | some I, some .waiting => removePending (setSt σ e (.done .cancelled σ.clock)) e I
  | _, _ => σ

/-- `_clean_up` -/
def onShutdown (σ : State) : State :=
  let es := σ.trie.flatMap (fun b => pend σ b.2)
  es.foldl cancelEntry { σ with trie := [] }

/-- the caller cancels the awaitable -/
def onCancel (fe : FrontEnd) (σ : State) (i : Nat) : State :=
  match σ.ints[i]?, σ.sts[i]? with
  | some I, some .waiting => removePending (setSt σ i (.done .cancelled σ.clock)) i I
  | some I, some (.validating _ _) =>
    match fe with
    | .v2 => removePending (setSt σ i (.done .cancelled σ.clock)) i I
    | .v1 => setSt σ i (.done .cancelled σ.clock)
  | _, _ => σ

/-- `express_raw_interest` -/
def onExpress (σ : State) (nm : Name) (imp : Option Nat) (cbp : Bool) (life : Nat) (v : Verdict) (lat : Nat) :
    State :=
  let i := σ.ints.length
  match trieGet σ.trie nm with
  | some nid =>
    { σ with ints := σ.ints ++ [⟨⟨nm, imp, cbp, σ.clock + life, v, lat⟩, nid⟩], sts := σ.sts ++ [.waiting],
             heap := σ.heap.set nid (pend σ nid ++ [i]) }
  | none =>
    let nid := σ.heap.length
    { σ with ints := σ.ints ++ [⟨⟨nm, imp, cbp, σ.clock + life, v, lat⟩, nid⟩], sts := σ.sts ++ [.waiting],
             heap := σ.heap ++ [[i]], trie := σ.trie ++ [(nm, nid)] }

def step (fe : FrontEnd) (σ : State) : Ev → State
  | .express nm imp cbp life v lat => onExpress σ nm imp cbp life v lat
  | .data nm dg d => onData fe σ nm dg d
  | .nack nm dg r => onNack σ nm dg r
  | .tick t => tick fe σ t
  | .cancel i => onCancel fe σ i
  | .shutdown => onShutdown σ

def init : State := {}

def run (fe : FrontEnd) (evs : List Ev) : State := evs.foldl (step fe) init

/-- number of linked nodes and of entries in them (what the harness reads off the real trie) -/
def pitSize (σ : State) : Nat × Nat :=
  (σ.trie.length, (σ.trie.map (fun b => (pend σ b.2).length)).sum)

end Ndn.Pit
