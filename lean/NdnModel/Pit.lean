import NdnModel.Basic
/-
  Pending-Interest bookkeeping of both application front-ends
  (`appv2.py` NDNApp._pit / `app.py` NDNApp._int_tree, `name_tree.py` InterestTreeNode).

  What is mirrored
  * `express_raw_interest`: `setdefault(node_name)` (a fresh node object only when the name has none),
    `append_interest`, the node *captured* by `_wait_for_data`; v2 `no_response=True`: the packet is sent, `None` is
    returned, nothing is recorded (the legacy front-end has no such switch: the keyword is ignored);
  * `_wait_for_data` is a coroutine: its body runs when the caller first awaits it (`awaitAt` = express time + `defer`).
    Until then the future sits in the table without any timer: Data / Nack / shutdown resolve it, the caller
    learns the result when it awaits (state `held`).  At the await
      - v2: `lifetime = deadline - now; if lifetime <= 0: lifetime = 100` - the timer runs to the original deadline
        when that is still ahead, otherwise 100 ms (`grace`) from the await; in particular lifetime 0 means 100 ms;
      - legacy: `wait_for(future, lifetime)` with the full lifetime from the await; lifetime 0 is `wait_for(.., 0)`:
        an unresolved future times out in that very instant.
    `Req.deadline` is that effective deadline (`expiry`).
  * `InterestTreeNode.satisfy`: CanBePrefix / implicit-digest test per entry, passed entries are handed to
    the validator (v2: `create_task(entry.satisfy)` at once, legacy: `future.set_result` and the validator runs in
    the express task, i.e. not before the await), the list is replaced by the unsatisfied entries only when there are
    some, and the node is unlinked from the trie when there are none (its list is then left untouched);
  * `_on_data` walk over all prefixes of the Data name, then `del trie[prefix]` for the emptied nodes;
  * `_on_nack` / `nack_interest` (entries named by the Nack, incl. the implicit digest);
  * `wait_for` timeout at the deadline and cancellation by the caller, both followed by
    `_remove_pending` = `node.timeout(future)` on the *captured* node and `del trie[name]` only if that
    node is still the one linked under the name; a caller can only cancel what it awaits (before the await there is
    no task to cancel: no-op);
  * `_clean_up`.
  Node objects live in a heap (`nodeId ↦ pending_list`); the trie maps names to node ids, so an unlinked
  node that a waiting coroutine still holds is representable (that is the situation of finding F6b).

  Time: `tick t` moves the virtual clock and fires every timer due (`wait_for` deadlines, validator
  completions, first awaits).  Timers of different Interests commute, so they are fired Interest by Interest; for one
  Interest the earlier of (validator completion, deadline) wins (v2), a tie goes to the deadline.
  `reach t` moves the clock to `t` firing only the timers due *before* `t`: what the loop has done when a packet that
  arrives at the very instant `t` is handled before the timers of that instant (`Turn`, `lins` below).
  All other events happen at the current clock value and run to quiescence.
-/
namespace Ndn.Pit

inductive FrontEnd where
  | v1 | v2
  deriving DecidableEq, Repr, Inhabited

/-- name = list of components (the model only compares components, so they are numbers) -/
abbrev Name := List Nat

/-- scripted behaviour of a validator: the five `ValidResult` values, raising, or (`other`) handing back a value that
    is not a `ValidResult` member at all (`False`, `None`, `0`, `True`, the string `'PASS'` ...; in the legacy
    front-end, where truthiness decides, the harness maps every value to `pass` / `fail` and `other` reads as false) -/
inductive Verdict where
  | fail | timeout | silence | pass | allowBypass | raiseTimeout | raiseOther | other
  deriving DecidableEq, Repr, Inhabited

inductive Outcome where
  | data (d : Nat)                       -- the awaitable returned the content of Data `d`
  | nack (reason : Nat)                  -- InterestNack(reason)
  | timeout                              -- InterestTimeout
  | cancelled                            -- InterestCanceled / CancelledError
  | valFail (d : Nat) (v : Verdict)      -- ValidationFailure carrying Data `d` and the verdict
  | validatorError (d : Nat)             -- legacy: the validator's own exception reaches the caller
  | noResponse                           -- v2 `no_response=True`: express returned `None`
  deriving DecidableEq, Repr, Inhabited

inductive IState where
  | waiting                              -- future pending, entry in the PIT
  | validating (d : Nat) (fin : Nat)     -- Data `d` taken, validator finishes at `fin`
  | done (o : Outcome) (t : Nat)         -- the awaitable finished with `o` at time `t`
  | held (o : Outcome)                   -- the future is resolved with `o`, the caller has not awaited it yet
  deriving DecidableEq, Repr, Inhabited

/-- what the application asked for (immutable) -/
structure Req where
  name : Name                -- node name (without an implicit digest component)
  implicit : Option Nat      -- implicit digest (digests are numbered by the harness)
  cbp : Bool                 -- CanBePrefix
  deadline : Nat             -- when `wait_for` gives up (`expiry`)
  verdict : Verdict          -- what the validator supplied with this Interest will say
  lat : Nat                  -- ... and how long it takes
  awaitAt : Nat              -- when the caller first awaits what express returned
  deriving DecidableEq, Repr, Inhabited

/-- an expressed Interest: the request plus the node object captured at express time -/
structure Interest extends Req where
  node : Nat
  deriving DecidableEq, Repr, Inhabited

structure State where
  clock : Nat := 0
  ints : List Interest := []           -- index = Interest id
  sts : List IState := []              -- same length
  heap : List (List Nat) := []         -- node id ↦ pending_list (Interest ids)
  trie : List (Name × Nat) := []       -- name ↦ node id
  vcalls : List (Nat × Nat × Nat) := []  -- validator invocations (Interest, Data, time)
  errs : List PyErr := []              -- exceptions escaping a callback / reaching the awaitable
  deriving DecidableEq, Repr, Inhabited

inductive Ev where
  | express (name : Name) (implicit : Option Nat) (cbp : Bool) (lifetime : Nat) (verdict : Verdict) (lat : Nat)
      (defer : Nat) (noResponse : Bool)
  | data (name : Name) (digest : Nat) (d : Nat)
  | nack (name : Name) (implicit : Option Nat) (reason : Nat)
  | tick (t : Nat)
  | cancel (i : Nat)
  | shutdown
  | reach (t : Nat)
  deriving DecidableEq, Repr, Inhabited

/-- v2: `if lifetime <= 0: lifetime = 100` -/
def grace : Nat := 100

/-- when `wait_for` gives up, for an Interest expressed at `now` and awaited `defer` later -/
def expiry (fe : FrontEnd) (now life defer : Nat) : Nat :=
  match fe with
  | .v1 => now + defer + life
  | .v2 => if now + defer < now + life then now + life else now + defer + grace

def mkReq (fe : FrontEnd) (now : Nat) (nm : Name) (imp : Option Nat) (cbp : Bool) (life : Nat) (v : Verdict)
    (lat defer : Nat) : Req :=
  ⟨nm, imp, cbp, expiry fe now life defer, v, lat, now + defer⟩

/-- what the awaitable finishes with once the validator has answered; `none` = it does not finish
    (v2: the validation task died with the validator's exception, the future stays pending). -/
def validatorOutcome (fe : FrontEnd) (v : Verdict) (d : Nat) : Option Outcome :=
  match fe, v with
  | _, .pass => some (.data d)
  | .v2, .allowBypass => some (.data d)
  | .v2, .raiseOther => none
  | .v2, .raiseTimeout => some (.valFail d .timeout)
  | .v2, v => some (.valFail d v)
  -- legacy: truthiness of the returned value; the harness scripts `pass` / `fail` and the raising ones
  | .v1, .allowBypass => some (.data d)
  | .v1, .raiseOther => some (.validatorError d)
  | .v1, .raiseTimeout => some (.validatorError d)
  | .v1, _ => some (.valFail d .fail)

/-- the future is resolved with `o` now: the caller sees it now if it is awaiting, at its first await otherwise -/
def resolve (now : Nat) (r : Req) (o : Outcome) : IState :=
  if r.awaitAt ≤ now then .done o now else .held o

/-- when the validator is started for a Data taken at `now`: v2 at once (its own task), legacy in the express
    task, i.e. not before the await -/
def vstart (fe : FrontEnd) (now : Nat) (r : Req) : Nat :=
  match fe with
  | .v1 => max now r.awaitAt
  | .v2 => now

/-- state of a request right after the first matching Data `d` was taken at time `now`
    (a validator without latency that is started now answers in the same instant) -/
def taken (fe : FrontEnd) (now : Nat) (r : Req) (d : Nat) : IState :=
  match (if r.lat = 0 ∧ vstart fe now r ≤ now then validatorOutcome fe r.verdict d else none) with
  | some o => resolve now r o
  | none => .validating d (vstart fe now r + r.lat)

def setSt (σ : State) (i : Nat) (s : IState) : State := { σ with sts := σ.sts.set i s }

def trieGet (tr : List (Name × Nat)) (n : Name) : Option Nat := tr.lookup n

/-- `del trie[n]` -/
def trieDel (tr : List (Name × Nat)) (n : Name) : Except PyErr (List (Name × Nat)) :=
  if (tr.lookup n).isSome then .ok (tr.filter (fun b => b.1 != n)) else .error .keyError

def delName (σ : State) (n : Name) : State :=
  match trieDel σ.trie n with
  | .ok tr => { σ with trie := tr }
  | .error e => { σ with errs := σ.errs ++ [e] }

/-- `for prefix in clean_list: del trie[prefix]` (an exception ends the loop) -/
def delNames : List Name → State → State
  | [], σ => σ
  | n :: r, σ =>
    match trieDel σ.trie n with
    | .ok tr => delNames r { σ with trie := tr }
    | .error e => { σ with errs := σ.errs ++ [e] }

def pend (σ : State) (nid : Nat) : List Nat := σ.heap.getD nid []

/-- `_remove_pending(future, node_name, node)`:
    `if node.timeout(future) and trie.get(node_name) is node: del trie[node_name]` -/
def removePending (σ : State) (i : Nat) (I : Interest) : State :=
  let l := (pend σ I.node).filter (· != i)
  let σ1 := { σ with heap := σ.heap.set I.node l }
  if l.isEmpty && (trieGet σ.trie I.name == some I.node) then delName σ1 I.name else σ1

/-- the timers of Interest `i` that are due at time `t` -/
def fireOne (fe : FrontEnd) (t : Nat) (σ : State) (i : Nat) : State :=
  match σ.ints[i]?, σ.sts[i]? with
  | some I, some .waiting =>
    if I.deadline ≤ t then removePending (setSt σ i (.done .timeout I.deadline)) i I else σ
  | some I, some (.held o) =>
    -- the first await of a resolved future returns / raises at once
    if I.awaitAt ≤ t then setSt σ i (.done o I.awaitAt) else σ
  | some I, some (.validating d fin) =>
    match fe with
    | .v1 =>
      -- the future already has its result, the timer is disarmed; the validator runs in the express task
      if fin ≤ t then
        match validatorOutcome .v1 I.verdict d with
        | some o => setSt σ i (.done o fin)
        | none => σ
      else σ
    | .v2 =>
      match validatorOutcome .v2 I.verdict d with
      | some o =>
        if fin ≤ t ∧ fin < I.deadline then
          (if I.awaitAt ≤ t then setSt σ i (.done o (max fin I.awaitAt)) else setSt σ i (.held o))
        else if I.deadline ≤ t then removePending (setSt σ i (.done .timeout I.deadline)) i I
        else σ
      | none =>
        if I.deadline ≤ t then removePending (setSt σ i (.done .timeout I.deadline)) i I else σ
  | _, _ => σ

/-- every timer due at or before `b` -/
def fireAll (fe : FrontEnd) (b : Nat) (σ : State) : State :=
  (List.range σ.ints.length).foldl (fireOne fe b) σ

def tick (fe : FrontEnd) (σ : State) (t : Nat) : State :=
  let t' := max σ.clock t
  fireAll fe t' { σ with clock := t' }

/-- the clock reads `t`, the timers due before `t` have run, those due at `t` have not (yet) -/
def reach (fe : FrontEnd) (σ : State) (t : Nat) : State :=
  let t' := max σ.clock t
  if t' = 0 then { σ with clock := t' } else fireAll fe (t' - 1) { σ with clock := t' }

/-- a passed entry: v2 `create_task(entry.satisfy(data))`, legacy `future.set_result(data)` followed by the
    validator call in the express task. -/
def deliver (fe : FrontEnd) (d : Nat) (σ : State) (e : Nat) : State :=
  match σ.ints[e]?, σ.sts[e]? with
  | some I, some .waiting =>
    setSt { σ with vcalls := σ.vcalls ++ [(e, d, vstart fe σ.clock I.toReq)] } e (taken fe σ.clock I.toReq d)
  | some _, some _ =>
    -- the future is not pending any more (only possible when timer and packet share a loop turn):
    -- v2 still starts the validation task, whose result is then discarded by the done-guard
    match fe with
    | .v2 => { σ with vcalls := σ.vcalls ++ [(e, d, σ.clock)] }
    | .v1 => σ
  | _, _ => σ

/-- the per-entry test of `InterestTreeNode.satisfy` -/
def passes (ints : List Interest) (isPrefix : Bool) (dg : Nat) (e : Nat) : Bool :=
  match ints[e]? with
  | some I => (I.cbp || !isPrefix) && (match I.implicit with | none => true | some x => x == dg)
  | none => false

/-- `node.satisfy(data, is_prefix)`; the Bool is its return value ("node can be removed") -/
def satisfyNode (fe : FrontEnd) (dg d : Nat) (isPrefix : Bool) (σ : State) (nid : Nat) : State × Bool :=
  let l := pend σ nid
  let σ1 := (l.filter (passes σ.ints isPrefix dg)).foldl (deliver fe d) σ
  let uns := l.filter (fun e => !passes σ.ints isPrefix dg e)
  if uns.isEmpty then (σ1, true) else ({ σ1 with heap := σ1.heap.set nid uns }, false)

def walkStep (fe : FrontEnd) (nm : Name) (dg d : Nat) (acc : State × List Name) (b : Name × Nat) :
    State × List Name :=
  if b.1.isPrefixOf nm then
    let r := satisfyNode fe dg d (b.1 != nm) acc.1 b.2
    if r.2 then (r.1, acc.2 ++ [b.1]) else (r.1, acc.2)
  else acc

/-- `_on_data` -/
def onData (fe : FrontEnd) (σ : State) (nm : Name) (dg d : Nat) : State :=
  let r := σ.trie.foldl (walkStep fe nm dg d) (σ, [])
  delNames r.2 r.1

/-- does the Nack (whose Interest carried implicit digest `dg`) name entry `e`? -/
def named (ints : List Interest) (dg : Option Nat) (e : Nat) : Bool :=
  match ints[e]? with
  | some I => I.implicit == dg
  | none => false

def nackEntry (r : Nat) (σ : State) (e : Nat) : State :=
  match σ.ints[e]? with
  | some I => if σ.sts[e]? = some .waiting then setSt σ e (resolve σ.clock I.toReq (.nack r)) else σ
  | none => σ

/-- `_on_nack` -/
def onNack (σ : State) (nm : Name) (dg : Option Nat) (r : Nat) : State :=
  match trieGet σ.trie nm with
  | none => σ
  | some nid =>
    let l := pend σ nid
    let σ1 := (l.filter (named σ.ints dg)).foldl (nackEntry r) σ
    let rest := l.filter (fun e => !named σ.ints dg e)
    let σ2 := { σ1 with heap := σ1.heap.set nid rest }
    if rest.isEmpty then delName σ2 nm else σ2

/-- `future.cancel()` of a pending entry, and what its coroutine then does (for a future nobody awaits yet the
    coroutine does it at the await: the node is unlinked by then, so doing it now is unobservable) -/
def cancelEntry (σ : State) (e : Nat) : State :=
  match σ.ints[e]?, σ.sts[e]? with
  | some I, some .waiting => removePending (setSt σ e (resolve σ.clock I.toReq .cancelled)) e I
  | _, _ => σ

/-- `_clean_up` -/
def onShutdown (σ : State) : State :=
  let es := σ.trie.flatMap (fun b => pend σ b.2)
  es.foldl cancelEntry { σ with trie := [] }

/-- the caller cancels the awaitable (the task awaiting it: before the first await there is none) -/
def onCancel (fe : FrontEnd) (σ : State) (i : Nat) : State :=
  match σ.ints[i]?, σ.sts[i]? with
  | some I, some .waiting =>
    if σ.clock < I.awaitAt then σ else removePending (setSt σ i (.done .cancelled σ.clock)) i I
  | some I, some (.validating _ _) =>
    if σ.clock < I.awaitAt then σ else
    match fe with
    | .v2 => removePending (setSt σ i (.done .cancelled σ.clock)) i I
    | .v1 => setSt σ i (.done .cancelled σ.clock)
  | _, _ => σ

/-- does this front-end honour `no_response`? -/
def silent (fe : FrontEnd) (nr : Bool) : Bool :=
  match fe with
  | .v2 => nr
  | .v1 => false

/-- `express_raw_interest`, and the timers of the new Interest that are due in this very instant
    (legacy, lifetime 0, awaited at once: `wait_for(future, 0)`) -/
def onExpress (fe : FrontEnd) (σ : State) (nm : Name) (imp : Option Nat) (cbp : Bool) (life : Nat) (v : Verdict)
    (lat defer : Nat) (nr : Bool) : State :=
  let i := σ.ints.length
  let r := mkReq fe σ.clock nm imp cbp life v lat defer
  if silent fe nr then
    { σ with ints := σ.ints ++ [⟨r, 0⟩], sts := σ.sts ++ [.done .noResponse σ.clock] }
  else
    match trieGet σ.trie nm with
    | some nid =>
      fireOne fe σ.clock
        { σ with ints := σ.ints ++ [⟨r, nid⟩], sts := σ.sts ++ [.waiting],
                 heap := σ.heap.set nid (pend σ nid ++ [i]) } i
    | none =>
      let nid := σ.heap.length
      fireOne fe σ.clock
        { σ with ints := σ.ints ++ [⟨r, nid⟩], sts := σ.sts ++ [.waiting],
                 heap := σ.heap ++ [[i]], trie := σ.trie ++ [(nm, nid)] } i

def step (fe : FrontEnd) (σ : State) : Ev → State
  | .express nm imp cbp life v lat defer nr => onExpress fe σ nm imp cbp life v lat defer nr
  | .data nm dg d => onData fe σ nm dg d
  | .nack nm dg r => onNack σ nm dg r
  | .tick t => tick fe σ t
  | .cancel i => onCancel fe σ i
  | .shutdown => onShutdown σ
  | .reach t => reach fe σ t

def init : State := {}

def run (fe : FrontEnd) (evs : List Ev) : State := evs.foldl (step fe) init

/-- number of linked nodes and of entries in them (what the harness reads off the real trie) -/
def pitSize (σ : State) : Nat × Nat :=
  (σ.trie.length, (σ.trie.map (fun b => (pend σ b.2).length)).sum)

/-! ### events that share an event-loop turn

A `Turn` is what happens at one instant `t`: the timers due at `t` and the events (packets, a caller's
cancellation, ...) that arrive in that same turn of the loop.  The loop may run them in any order: each event
before or after the timers of the instant, the events among themselves in any order.  A linearisation
(`Turn.lins`) is one such order written as a plain history: `tick t` first (the plain reading), or `reach t`, some of
the events, `tick t`, the other events. -/

structure Turn where
  t : Nat
  evs : List Ev
  deriving Repr, Inhabited

/-- all ways of inserting `a` into a list -/
def inserts {α} (a : α) : List α → List (List α)
  | [] => [[a]]
  | b :: l => (a :: b :: l) :: (inserts a l).map (b :: ·)

/-- all orders of a list -/
def perms {α} : List α → List (List α)
  | [] => [[]]
  | a :: l => (perms l).flatMap (inserts a)

/-- one order `p` of the events, the timers of the instant after the first `k` of them -/
def Turn.lin (t : Nat) (p : List Ev) (k : Nat) : List Ev :=
  if k = 0 then .tick t :: p else .reach t :: (p.take k ++ .tick t :: p.drop k)

def Turn.lins (u : Turn) : List (List Ev) :=
  (perms u.evs).flatMap fun p => (List.range (p.length + 1)).map (Turn.lin u.t p)

/-- the linearisations of a history of turns -/
def lins : List Turn → List (List Ev)
  | [] => [[]]
  | u :: r => u.lins.flatMap fun a => (lins r).map fun b => a ++ b

/-- the per-Interest states a history of turns may end in: those of its linearisations -/
def allowed (fe : FrontEnd) (h : List Turn) : List (List IState) :=
  (lins h).map fun l => (run fe l).sts

/-- insertion without duplicates -/
def addNew {α} [DecidableEq α] (acc : List α) (x : α) : List α := if x ∈ acc then acc else acc ++ [x]

def dedup {α} [DecidableEq α] (l : List α) : List α := l.foldl addNew []

/-- the states reachable over one turn from a set of states -/
def stepTurn (fe : FrontEnd) (S : List State) (u : Turn) : List State :=
  dedup (S.flatMap fun σ => u.lins.map fun l => l.foldl (step fe) σ)

/-- the set of states a history of turns can lead to (what the driver computes, turn by turn, without
    enumerating whole linearisations) -/
def reachable (fe : FrontEnd) (h : List Turn) : List State := h.foldl (stepTurn fe) [init]

/-- the plain reading of a history of turns: timers first, then the events in the order given -/
def plain (h : List Turn) : List Ev := h.flatMap fun u => .tick u.t :: u.evs

end Ndn.Pit
