import NdnModel.TlNum
/-
  Model of src/ndn/transport/stream_face.py : StreamFace.run  and
  src/ndn/encoding/tlv_var.py : read_tl_num_from_stream,
  over an abstract `StreamReader.readexactly`.

  The stream is the concatenation of everything the peer wrote before EOF.  How the bytes were cut
  into reads does not appear: `readexactly(n)` returns the next `n` bytes or raises
  IncompleteReadError (hypothesis H of C06; validated by the harness with a real StreamReader
  and every cut position).
-/
namespace Ndn.Framing
open Ndn

/-- `await reader.readexactly(n)`: the next `n` bytes and the rest of the stream,
    or `none` = IncompleteReadError (EOF before `n` bytes arrived). -/
def readExactly (s : Bytes) (n : Nat) : Option (Bytes × Bytes) :=
  if n ≤ s.length then some (s.take n, s.drop n) else none

/-- `read_tl_num_from_stream(reader, bio)`: (value, bytes written to `bio`, rest of stream). -/
def readTlNum (s : Bytes) : Option (Nat × Bytes × Bytes) :=
  match readExactly s 1 with
  | none => none
  | some (b, r) =>
    let x := (b.headD 0).toNat
    if x ≤ 0xFC then some (x, b, r)
    else
      let w := if x = 0xFD then 2 else if x = 0xFE then 4 else 8
      match readExactly r w with
      | none => none
      | some (v, r') => some (beVal v, b ++ v, r')

/-- one iteration of the `while self.running` loop: the `(typ, buf)` handed to the callback and the
    rest of the stream; `none` = IncompleteReadError → `shutdown()`, nothing handed over. -/
def readPacket (s : Bytes) : Option ((Nat × Bytes) × Bytes) :=
  match readTlNum s with
  | none => none
  | some (typ, b1, r1) =>
    match readTlNum r1 with
    | none => none
    | some (siz, b2, r2) =>
      match readExactly r2 siz with
      | none => none
      | some (body, r3) => some ((typ, b1 ++ b2 ++ body), r3)

/-- the loop; `fuel` bounds the number of iterations (every iteration consumes ≥ 2 bytes). -/
def framesFuel : Nat → Bytes → List (Nat × Bytes) × Bytes
  | 0, s => ([], s)
  | fuel + 1, s =>
    match readPacket s with
    | none => ([], s)
    | some (p, r) => let (ps, rem) := framesFuel fuel r; (p :: ps, rem)

/-- `StreamFace.run` on the whole stream: the packets handed to the callback, in order, and the
    bytes that were never handed over when the face shut down at EOF. -/
def frames (s : Bytes) : List (Nat × Bytes) × Bytes := framesFuel (s.length + 1) s

end Ndn.Framing
