import NdnModel.Svs
import NdnModel.CodecWF
import NdnGen.C08
import NdnGen.C18
/-
  Byte-level half of the state-vector-sync model (src/ndn/app_support/svs/sync.py):

  * `sync_handler` calls `StateVecWrapper.parse(name[-2])` on the *bytes of the name component* (the whole
    component TLV, Type 0xc9) — here `Ndn.Codec.parse` over the schema regenerated from the live class
    (`Ndn.Gen.C08.tlv_StateVecWrapper`), followed by reading `.val`, `.entries`, `.node_id`, `.seq_no` and
    `Name.to_bytes(node_id)`;
  * the `except (...)` clause around it is the generated table `Ndn.Gen.C18.caught`: a caught class is logged
    and the Interest is dropped (`Ev.undecodable`), every other class propagates out of the handler;
  * `express_sync_interest` builds a StateVecWrapper from `local_sv` (`Name.from_bytes` on every key) and
    `encode()`s it into the last name component — here `Ndn.Codec.encFields` over the same schema.
-/
namespace Ndn.Svs
open Ndn Ndn.Codec

/-- the model class `StateVecWrapper` (regenerated from the source on every run) -/
abbrev wrapperSchema : List Schema := Ndn.Gen.C08.tlv_StateVecWrapper

/-- `rsv.node_id` as the model's entry id: an empty name is falsy (`if not rsv.node_id: continue`, the model's
    empty id); otherwise `enc.Name.to_bytes(rsv.node_id)` -/
def nodeIdBytes (cs : List Bytes) : Bytes := if cs.isEmpty then [] else tlv 7 (concatB cs)

/-- one parsed `StateVecEntry` → (node_id, seq_no) -/
def entryOfValue : Value → Entry
  | .model [n, q] =>
    ((match n with | .name cs => some (nodeIdBytes cs) | _ => none),
     (match q with | .uint v => some v | _ => none))
  | _ => (none, none)

/-- `pkt.val` / `pkt.val.entries` of the parsed wrapper (`None` or empty → no entries) -/
def entriesOfParsed : List Value → List Entry
  | [.model [.list es]] => es.map entryOfValue
  | _ => []

/-- `StateVecWrapper.parse(comp).val.entries`, with the exception class when `parse` raises -/
def decodeVectorE (comp : Bytes) : Except PyErr (List Entry) := do
  let vs ← parse wrapperSchema false comp
  pure (entriesOfParsed vs)

/-- the decoded entries, `none` when `parse` raises -/
def decodeVector (comp : Bytes) : Option (List Entry) :=
  match decodeVectorE comp with
  | .ok es => some es
  | .error _ => none

/-- is this class caught by the `except` clause of `sync_handler`? -/
def caught (e : PyErr) : Bool := Ndn.Gen.C18.catchAll || Ndn.Gen.C18.caught.contains e

/-- `sync_handler` on the bytes of `name[-2]` (the name has the right number of components):
    the new state and what happened, or the exception that propagates out of the handler -/
def stepBytes (s : State) (comp : Bytes) : Except PyErr (State × List Out) :=
  match decodeVectorE comp with
  | .ok es => .ok (step s (.recv es))
  | .error e => if caught e then .ok (step s .undecodable) else .error e

/-- the entries `express_sync_interest` builds: `Name.from_bytes(lsv_id)`, `lsv_seq` -/
def vecValues : Vec → Except PyErr (List Value)
  | [] => .ok []
  | (i, q) :: r => do
    let cs ← decodeName i 0
    let rest ← vecValues r
    pure (Value.model [.name cs, .uint q] :: rest)

/-- the last component of the sync Interest's name: `sv_pkt.encode()` -/
def encodeVector (v : Vec) : Except PyErr Bytes := do
  let es ← vecValues v
  encFields wrapperSchema [.model [.list es]]

/-- events with received vectors given as bytes -/
inductive EvB where
  | raw (comp : Bytes)          -- a sync Interest (right name length) whose name[-2] is `comp`
  | ev (e : Ev)                 -- any event of the decoded model
  deriving Repr

/-- one observable step: `Except.error` = the handler raised (state unchanged) -/
def stepB (s : State) : EvB → State × Except PyErr (List Out)
  | .ev e => let r := step s e; (r.1, .ok r.2)
  | .raw comp =>
    match stepBytes s comp with
    | .ok r => (r.1, .ok r.2)
    | .error e => (s, .error e)

/-! ### the statement-level model (timer state, callbacks that publish) on bytes -/

/-- events of the statement-level model with received vectors given as bytes -/
inductive EvXB where
  | raw (comp : Bytes) (cb : Cb)   -- a sync Interest whose name[-2] is `comp`; the callback, if it fires, does `cb`
  | ev (e : EvX)
  deriving Repr

/-- `sync_handler` + timer task on the bytes of `name[-2]`: `Except.error` = the *decoder's* exception propagated
    (nothing happened); an exception of the application's callback is `ObsX.raised` (everything happened) -/
def stepXB (t : TState) : EvXB → TState × Except PyErr ObsX
  | .ev e => let r := stepX t e; (r.1, .ok r.2)
  | .raw comp cb =>
    match decodeVectorE comp with
    | .ok es => let r := stepX t (.recvCb es cb); (r.1, .ok r.2)
    | .error e => if caught e then (t, .ok ⟨[], false⟩) else (t, .error e)

end Ndn.Svs
