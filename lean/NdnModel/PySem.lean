import NdnModel.Basic
import NdnModel.Utf8
/-
  The Python vocabulary the translator `harness/py2lean.py` maps source constructs to (and nothing else): integers
  are `Int` (Python ints are unbounded and may be negative), byte strings / buffers are `List UInt8`, a raised
  exception is `Except.error` of its class.  Each definition says which CPython behaviour it stands for; these
  definitions are the trusted reading of `struct`, indexing and slicing - the translated functions themselves
  (lean/NdnGen/TlvVar.lean) are produced from the source text on every run and are NOT written by hand.

  This file does not import any hand-written model of python-ndn (only `Bytes` and `PyErr`), so an equality
  `translated = model` is not circular.
-/
namespace Ndn.Py

/-- the low `8*w` bits of `n`, big-endian, exactly `w` bytes -/
def beBytes : Nat → Nat → Bytes
  | 0, _ => []
  | w + 1, n => beBytes w (n / 256) ++ [UInt8.ofNat n]

/-- big-endian value of a byte string -/
def beVal (bs : Bytes) : Nat := bs.foldl (fun a b => a * 256 + b.toNat) 0

/-- one unsigned field of `w` bytes of a `struct` format in network order (`B`=1, `H`=2, `I`=4, `Q`=8):
    `struct.error` unless `0 <= v < 256^w` -/
def packField (w : Nat) (v : Int) : Except PyErr Bytes :=
  if 0 ≤ v ∧ v < (256 : Int) ^ w then .ok (beBytes w v.toNat) else .error .structError

/-- `struct.pack('!…', v₁, …)`, the format given as its field widths; a wrong number of values is `struct.error` -/
def pack : List Nat → List Int → Except PyErr Bytes
  | [], [] => .ok []
  | w :: ws, v :: vs =>
    match packField w v with
    | .error e => .error e
    | .ok a => match pack ws vs with
      | .error e => .error e
      | .ok r => .ok (a ++ r)
  | _, _ => .error .structError

/-- `struct.pack_into('!…', buf, off, v₁, …)` on a writable buffer: the buffer afterwards.
    CPython (`Struct.pack_into`): an offset that does not fit `Py_ssize_t` is `IndexError`; a negative offset counts
    from the end and must leave room for the whole record; a record that does not fit, and a value out of range,
    are `struct.error`.  (What a failed call leaves in the buffer is not modelled: the exception is the result.) -/
def packInto (ws : List Nat) (vs : List Int) (buf : Bytes) (off : Int) : Except PyErr Bytes :=
  if off < -9223372036854775808 ∨ 9223372036854775807 < off then .error .indexError
  else
    let size : Int := (ws.sum : Nat)
    let len : Int := (buf.length : Nat)
    if off < 0 ∧ (0 < off + size ∨ off + len < 0) then .error .structError
    else
      let o : Int := if off < 0 then off + len else off
      if len - o < size then .error .structError
      else match pack ws vs with
        | .error e => .error e
        | .ok bs => .ok (buf.take o.toNat ++ bs ++ buf.drop (o.toNat + bs.length))

def unpackFields : List Nat → Bytes → List Int
  | [], _ => []
  | w :: ws, bs => ((beVal (bs.take w) : Nat) : Int) :: unpackFields ws (bs.drop w)

/-- `struct.unpack('!…', bs)`: `struct.error` unless `bs` has exactly the size of the format -/
def unpack (ws : List Nat) (bs : Bytes) : Except PyErr (List Int) :=
  if bs.length = ws.sum then .ok (unpackFields ws bs) else .error .structError

/-- `struct.unpack_from('!…', buf, off)` (negative offsets count from the end; an offset that does not fit
    `Py_ssize_t` is `OverflowError` here, unlike `pack_into`) -/
def unpackFrom (ws : List Nat) (buf : Bytes) (off : Int) : Except PyErr (List Int) :=
  if off < -9223372036854775808 ∨ 9223372036854775807 < off then .error .overflowError
  else
    let len : Int := (buf.length : Nat)
    if off < 0 ∧ off + len < 0 then .error .structError
    else
      let o : Int := if off < 0 then off + len else off
      if len - o < ((ws.sum : Nat) : Int) then .error .structError
      else .ok (unpackFields ws (buf.drop o.toNat))

/-- `seq[i]` on a sequence (negative `i` counts from the end; `IndexError` outside) -/
def getItem {α} (l : List α) (i : Int) : Except PyErr α :=
  let j : Int := if i < 0 then i + (l.length : Nat) else i
  if j < 0 then .error .indexError
  else match l[j.toNat]? with
    | some x => .ok x
    | none => .error .indexError

/-- `buf[i]` on bytes / bytearray / memoryview of bytes: an int -/
def bytesGet (buf : Bytes) (i : Int) : Except PyErr Int :=
  match getItem buf i with
  | .ok b => .ok ((b.toNat : Nat) : Int)
  | .error e => .error e

/-- a slice bound as Python normalises it against the length -/
def normIdx (len : Nat) (i : Int) : Nat :=
  if i < 0 then (i + (len : Int)).toNat else min i.toNat len

/-- `seq[a:b]` (step 1; negative bounds count from the end, everything is clamped, never raises) -/
def slice {α} (l : List α) (a b : Int) : List α :=
  (l.take (normIdx l.length b)).drop (normIdx l.length a)

/-- `seq[a:]` -/
def sliceFrom {α} (l : List α) (a : Int) : List α := l.drop (normIdx l.length a)

/-- `b[a:] = v` on a bytearray (the tail from `a` on is replaced; the size may change) -/
def setSliceFrom {α} (l : List α) (a : Int) (v : List α) : List α := l.take (normIdx l.length a) ++ v

/-- `b[a:b] = v` on a bytearray (step 1: a splice; an upper bound below the lower one counts as the lower one) -/
def setSlice {α} (l : List α) (a b : Int) (v : List α) : List α :=
  l.take (normIdx l.length a) ++ v ++ l.drop (max (normIdx l.length a) (normIdx l.length b))

/-- `bytearray(n)` for an int `n`: `n` zero bytes; `ValueError` for a negative count, `OverflowError` when `n` does
    not fit `Py_ssize_t` (a `MemoryError` for a count the machine cannot allocate is not modelled) -/
def bytearrayOfSize (n : Int) : Except PyErr Bytes :=
  if n < 0 then .error .valueError
  else if 9223372036854775807 < n then .error .overflowError
  else .ok (List.replicate n.toNat 0)

/-- `int.from_bytes(x, 'big')` (unsigned) -/
def intFromBytesBig (x : Bytes) : Int := ((beVal x : Nat) : Int)

/-- `b[i] = v` for a literal `0 ≤ v ≤ 255` on a bytearray / memoryview of bytes (`IndexError` outside; a negative
    index counts from the end) -/
def setItem (buf : Bytes) (i : Int) (v : Nat) : Except PyErr Bytes :=
  let j : Int := if i < 0 then i + (buf.length : Nat) else i
  if j < 0 ∨ (buf.length : Int) ≤ j then .error .indexError
  else .ok (buf.set j.toNat (UInt8.ofNat v))

/-- `b[a:b] = v` on a buffer PARAMETER, which may be a bytearray or a memoryview: when the slice has exactly the size
    of `v` both overwrite it in place.  Otherwise a bytearray changes its size and a memoryview raises `ValueError`:
    that depends on the caller and is NOT modelled - the result is `PyErr.other`, which no model function returns, so
    every equality theorem has to stay inside the same-size case. -/
def setSliceSameSize (buf : Bytes) (a b : Int) (v : Bytes) : Except PyErr Bytes :=
  let lo := normIdx buf.length a
  let hi := max lo (normIdx buf.length b)
  if hi - lo = v.length then .ok (buf.take lo ++ v ++ buf.drop hi) else .error .other

/-- `k ** e` for a positive int literal `k`: an int for `e ≥ 0`.  (A negative exponent gives a float, which is outside
    the model: `PyErr.other`, as above.) -/
def powLit (k : Nat) (e : Int) : Except PyErr Int :=
  if 0 ≤ e then .ok ((k ^ e.toNat : Nat) : Int) else .error .other

/-- a Python `str` used as text, seen through its UTF-8 encoding (so: no lone surrogates).  `str.encode('utf-8')` and
    `bytes.decode('utf-8')` are the two directions; the only law about them that is used is that decoding succeeds
    exactly on valid UTF-8 (`Ndn.utf8Valid`, the strict CPython decoder) and gives back the same bytes. -/
structure Str where
  utf8 : Bytes
  valid : utf8Valid utf8 = true
  deriving DecidableEq

/-- `s.encode('utf-8')` -/
def strEncodeUtf8 (s : Str) : Bytes := s.utf8

/-- `b.decode('utf-8')`: `UnicodeDecodeError` (a `ValueError`) on invalid UTF-8 -/
def bytesDecodeUtf8 (b : Bytes) : Except PyErr Str :=
  if h : utf8Valid b = true then .ok ⟨b, h⟩ else .error .unicodeError

/-- the `markers` scratch dict of tlv_model.py restricted to its int entries: name string -> int, insertion-ordered -/
abbrev Dict := List (String × Int)

/-- `d[k]` (`KeyError` when absent) -/
def dictGet (d : Dict) (k : String) : Except PyErr Int :=
  match d.find? (fun p => p.1 == k) with
  | some p => .ok p.2
  | none => .error .keyError

/-- `d[k] = v` (an existing key keeps its place) -/
def dictSet : Dict → String → Int → Dict
  | [], k, v => [(k, v)]
  | (k', v') :: r, k, v => if k' == k then (k', v) :: r else (k', v') :: dictSet r k v

/-- `len(x)` -/
def len {α} (l : List α) : Int := (l.length : Nat)

/-- `functools.reduce(f, l, init)` for a pure `f` -/
def reduce {α β} (f : β → α → β) (l : List α) (init : β) : β := l.foldl f init

/-- `for x in l: <body>` where the body is a function of `x` and of the variables it assigns (`σ`: their values before
    an iteration, handed on after it); an exception raised in the body ends the loop.  The list is not changed by the
    body (the translator checks that). -/
def forEach {α σ} : List α → σ → (α → σ → Except PyErr σ) → Except PyErr σ
  | [], s, _ => .ok s
  | x :: r, s, f =>
    match f x s with
    | .error e => .error e
    | .ok s' => forEach r s' f

@[simp] theorem reduce_nil {α β} (f : β → α → β) (init : β) : reduce f [] init = init := rfl
@[simp] theorem reduce_cons {α β} (f : β → α → β) (x : α) (l : List α) (init : β) :
    reduce f (x :: l) init = reduce f l (f init x) := rfl
@[simp] theorem forEach_nil {α σ} (s : σ) (f : α → σ → Except PyErr σ) : forEach [] s f = .ok s := rfl
theorem forEach_cons {α σ} (x : α) (r : List α) (s : σ) (f : α → σ → Except PyErr σ) :
    forEach (x :: r) s f = (f x s >>= fun s' => forEach r s' f) := by
  simp only [forEach]; cases f x s <;> rfl
theorem forEach_cons_ok {α σ} (x : α) (r : List α) (s s' : σ) (f : α → σ → Except PyErr σ) (h : f x s = .ok s') :
    forEach (x :: r) s f = forEach r s' f := by simp only [forEach, h]
theorem forEach_cons_error {α σ} (x : α) (r : List α) (s : σ) (e : PyErr) (f : α → σ → Except PyErr σ)
    (h : f x s = .error e) : forEach (x :: r) s f = .error e := by simp only [forEach, h]
/-- a loop whose body never raises is a fold -/
theorem forEach_pure {α σ} (l : List α) (s : σ) (g : α → σ → σ) :
    forEach l s (fun x s => .ok (g x s)) = .ok (l.foldl (fun s x => g x s) s) := by
  induction l generalizing s with
  | nil => rfl
  | cons x r ih => simp only [forEach, List.foldl_cons, ih]
/-- a loop is the same as the loop over a prefix followed by the loop over the rest -/
theorem forEach_append {α σ} (a b : List α) (s : σ) (f : α → σ → Except PyErr σ) :
    forEach (a ++ b) s f = (forEach a s f >>= fun s' => forEach b s' f) := by
  induction a generalizing s with
  | nil => rfl
  | cons x r ih =>
    simp only [List.cons_append, forEach]
    cases f x s with
    | error e => rfl
    | ok s' => exact ih s'

/-- `a & b` on Python ints (two's complement of unbounded width) -/
def band (a b : Int) : Int :=
  match a, b with
  | .ofNat x, .ofNat y => .ofNat (x &&& y)
  | .ofNat x, .negSucc y => .ofNat (x - (x &&& y))
  | .negSucc x, .ofNat y => .ofNat (y - (y &&& x))
  | .negSucc x, .negSucc y => .negSucc (x ||| y)

/-- `a | b` on Python ints -/
def bor (a b : Int) : Int :=
  match a, b with
  | .ofNat x, .ofNat y => .ofNat (x ||| y)
  | .ofNat x, .negSucc y => .negSucc (y - (y &&& x))
  | .negSucc x, .ofNat y => .negSucc (x - (x &&& y))
  | .negSucc x, .negSucc y => .negSucc (x &&& y)

/-- `a << k` for a literal `k ≥ 0` -/
def shl (a : Int) (k : Nat) : Int := a * (2 : Int) ^ k

/-- `a >> k` for a literal `k ≥ 0` (rounds towards minus infinity) -/
def shr (a : Int) (k : Nat) : Int := a / (2 : Int) ^ k

end Ndn.Py
