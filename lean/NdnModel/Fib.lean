import NdnModel.TlNum
import NdnModel.PyDict
/-
  Model of the Interest-handler table ("FIB") of both application front-ends and of the Dispatcher:

    src/ndn/appv2.py                   NDNApp.attach_handler / detach_handler / _on_interest (+ `reply` closure)
    src/ndn/app.py                     NDNApp.set_interest_filter / unset_interest_filter / _on_interest / put_raw_packet
    src/ndn/app_support/dispatcher.py  Dispatcher.register / unregister / dispatch
    src/ndn/name_tree.py               NameTrie._path_from_key, PrefixTreeNode

  `pygtrie.Trie` is trusted: it is modelled as an insertion-ordered association list
  `Name ↦ PrefixTreeNode` in which `setdefault`, `__delitem__` and `longest_prefix` have their
  documented map semantics (`longest_prefix` = the longest key that is a prefix of the argument and
  carries a value).  Names are lists of encoded components (what `Name.normalize` returns); the
  equivalence of the three accepted representations of a name is property C09.
-/
namespace Ndn.Fib
open Ndn

abbrev Name := List Bytes
/-- identity of a handler callable -/
abbrev Hid := Nat

/-! ### NameTrie key normalisation (`_path_from_key`) -/

/-- the Python buffer classes a name component may have -/
inductive BufKind where
  | bytes | bytearray | roView | rwView
  deriving DecidableEq, Repr

structure Buf where
  kind : BufKind
  data : Bytes
  deriving DecidableEq, Repr

/-- `NameTrie._path_from_key`: read-only memoryviews are kept, everything else is copied to `bytes`. -/
def pathFromKey (key : List Buf) : List Buf :=
  key.map fun x => if x.kind = .roView then x else ⟨.bytes, x.data⟩

/-- what pygtrie's per-node `dict` sees of a path step: `bytes` and read-only memoryviews hash and
    compare by content. -/
def trieKey (key : List Buf) : Name := (pathFromKey key).map (·.data)

/-- every step of a normalised path is hashable and immutable -/
def stepHashable (b : Buf) : Bool := b.kind = .bytes || b.kind = .roView

/-! ### the table -/

/-- `PrefixTreeNode`, restricted to the field the unsigned-Interest path reads. -/
structure Node where
  callback : Option Hid
  deriving DecidableEq, Repr

abbrev Fib := PyDict Name Node

/-- `attach_handler` / `set_interest_filter` / `Dispatcher.register`:
    `node = trie.setdefault(name, PrefixTreeNode()); if node.callback: raise ValueError; node.callback = h`.
    When it raises, the trie is as before (a node is only created when none existed, and a fresh node
    never makes it raise). -/
def attach (f : Fib) (p : Name) (h : Option Hid) : Except PyErr Fib :=
  match PyDict.get? f p with
  | some nd => if nd.callback.isSome then .error .valueError else .ok (PyDict.set f p ⟨h⟩)
  | none => .ok (PyDict.set (PyDict.set f p ⟨none⟩) p ⟨h⟩)

/-- `detach_handler` / `unset_interest_filter` / `Dispatcher.unregister`: `del trie[name]`. -/
def detach (f : Fib) (p : Name) : Except PyErr Fib :=
  if PyDict.contains f p then .ok (PyDict.erase f p) else .error .keyError

/-- legacy `NDNApp.unregister(name)` (the coroutine): `try: del trie[name] except KeyError: pass` - a prefix
    registered without a callback has no entry; the command is sent all the same (property C17) -/
def unregisterV1 (f : Fib) (p : Name) : Fib :=
  match detach f p with
  | .ok f' => f'
  | .error _ => f

/-- `trie.longest_prefix(n)`: prefixes of `n` from length `k` downwards, first one with a value. -/
def scan (f : Fib) (n : Name) : Nat → Option (Name × Node)
  | 0 => (PyDict.get? f []).map fun nd => ([], nd)
  | k + 1 =>
    match PyDict.get? f (n.take (k + 1)) with
    | some nd => some (n.take (k + 1), nd)
    | none => scan f n k

def longestPrefix (f : Fib) (n : Name) : Option (Name × Node) := scan f n n.length

/-- outcome of `_on_interest` for an Interest without ApplicationParameters / signature -/
inductive Dispatch where
  | noRoute                         -- `if not trie_step: return`
  | noCallback (p : Name)           -- `if node.callback is None: return`
  | deliver (p : Name) (h : Hid)    -- `node.callback(name, …)`
  deriving DecidableEq, Repr

def onInterest (f : Fib) (n : Name) : Dispatch :=
  match longestPrefix f n with
  | none => .noRoute
  | some (p, nd) =>
    match nd.callback with
    | none => .noCallback p
    | some h => .deliver p h

/-- `Dispatcher.dispatch`: returns False without a route, calls `value.callback` otherwise
    (a `None` callback is called: TypeError). -/
def dispatcherDispatch (f : Fib) (n : Name) : Except PyErr (Option Hid) :=
  match onInterest f n with
  | .noRoute => .ok none
  | .noCallback _ => .error .typeError
  | .deliver _ h => .ok (some h)

/-! ### histories -/

inductive Op where
  | attach (p : Name) (h : Option Hid)
  | detach (p : Name)
  deriving DecidableEq, Repr

inductive Res where
  | ok
  | err (e : PyErr)
  deriving DecidableEq, Repr

/-- one operation; a raising operation leaves the table as it was -/
def step (f : Fib) : Op → Fib × Res
  | .attach p h => match attach f p h with
    | .ok f' => (f', .ok)
    | .error e => (f, .err e)
  | .detach p => match detach f p with
    | .ok f' => (f', .ok)
    | .error e => (f, .err e)

def run (f : Fib) : List Op → Fib × List Res
  | [] => (f, [])
  | op :: r =>
    let s := step f op
    let t := run s.1 r
    (t.1, s.2 :: t.2)

/-- the table after a history, starting from the empty application -/
def fibAfter (ops : List Op) : Fib := (run [] ops).1

/-! ### the reply closure of appv2 `_on_interest` (REPAIRED behaviour: returns True after sending;
    the unchanged tree returns None there - finding F7, candidate_fixes/C04-reply-returns-true.diff) -/

def defaultLifetime : Nat := 4000

structure Pending where
  deadline : Nat
  pitToken : Option Bytes
  deriving Repr

/-- `deadline = utils.timestamp() + (param.lifetime if not None else DEFAULT_LIFETIME)` -/
def mkPending (arrival : Nat) (lifetime : Option Nat) (tok : Option Bytes) : Pending :=
  match lifetime with
  | some l => ⟨arrival + l, tok⟩
  | none => ⟨arrival + defaultLifetime, tok⟩

/-- `_put_raw_packet_with_pit_token`: LpPacket{ PitToken, Fragment } -/
def lpWrap (tok data : Bytes) : Bytes := tlv 0x64 (tlv 0x62 tok ++ tlv 0x50 data)

/-- `reply(data)` at clock reading `now`: (return value, packets written to the face).
    `running = false`: `_put_raw_packet*` raises NetworkError (`.other`). -/
def reply (running : Bool) (pd : Pending) (now : Nat) (data : Bytes) : Except PyErr (Bool × List Bytes) :=
  if now > pd.deadline then .ok (false, [])
  else if !running then .error .other
  else match pd.pitToken with
    | none => .ok (true, [data])
    | some t => .ok (true, [lpWrap t data])

/-- legacy `put_raw_packet(data)` -/
def putRawPacket (running : Bool) (data : Bytes) : Except PyErr (List Bytes) :=
  if !running then .error .other else .ok [data]

end Ndn.Fib
