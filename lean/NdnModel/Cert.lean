import NdnModel.PacketEnc
/-
  security_v2.new_cert: certificate = Data named key-name / issuer-id / version, MetaInfo(KEY, 3600000 ms),
  Content = public key, SignatureInfo with ValidityPeriod, assembled by hand (outer Type/Length written around
  the Value with the unused reserved signature bytes cut off) — no shrink_length here.
-/
namespace Ndn.Cert
open Ndn Ndn.Codec Ndn.Packet

def validityS : Schema := .model 253 [.bytes 254 false, .bytes 255 false] false
def descEntryS : Schema := .model 512 [.bytes 513 false, .bytes 514 false] false
def addDescS : Schema := .model 258 [.repeated descEntryS] false
def certSigInfoS : Schema := .model 22 (sigInfoFields ++ [validityS, addDescS]) true
def certFs : List Schema :=
  [.marker, .marker, .marker, .marker, .marker, nameS, metaS, contentS, certSigInfoS, .bytes 23 false]

def digit (n : Nat) : UInt8 := UInt8.ofNat (48 + n % 10)
def fmt2 (n : Nat) : Bytes := [digit (n / 10), digit n]
def fmt4 (n : Nat) : Bytes := [digit (n / 1000), digit (n / 100), digit (n / 10), digit n]

/-- `'%04d' % year + strftime('%m%dT%H%M%S')`: `YYYYMMDDThhmmss` for the years 0..9999 -/
def formatTime (y mo d h mi s : Nat) : Bytes :=
  fmt4 y ++ fmt2 mo ++ fmt2 d ++ [84] ++ fmt2 h ++ fmt2 mi ++ fmt2 s

/-- the SignatureInfo of a certificate: what the signer wrote, plus the validity period -/
def certSigInfo (signerInfo : List Value) (notBefore notAfter : Bytes) : Value :=
  .model (signerInfo ++ [.model [.bytes notBefore, .bytes notAfter], .none])

def certMeta : Value := .model [.uint 2, .uint 3600000, .none]

/-- `new_cert(key_name, issuer_id_component, pub_key, signer, start_time, end_time)`;
    `version` is `Component.from_version(timestamp())`, `signerInfo` the five SignatureInfo fields the
    signer filled in -/
def newCert (keyName : List Bytes) (issuer version pubKey : Bytes) (signerInfo : List Value)
    (notBefore notAfter : Bytes) (s : SignerOut) : Except PyErr Made := do
  let name := keyName ++ [issuer, version]
  let p ← encFields [nameS, metaS, contentS, certSigInfoS]
    [.name name, certMeta, .bytes pubKey, certSigInfo signerInfo notBefore notAfter]
  let (sv, shrink) ← sigValueElem 23 s
  let value := p ++ sv
  let keep := value.take (value.length - shrink)
  if keep.length ≥ 2 ^ 64 then .error .structError
  else pure { wire := writeTlNum 6 ++ writeTlNum keep.length ++ keep, covered := [p], finalName := name }

/-- `parse_certificate(wire)` (fields) -/
def parseCert (wire : Bytes) : Except PyErr (List Value) := decodePacket certFs 6 false true [] wire

end Ndn.Cert
