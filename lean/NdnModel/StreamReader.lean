import NdnModel.Framing
/-
  Model of `asyncio.StreamReader` as `StreamFace.run` uses it (CPython Lib/asyncio/streams.py:
  feed_data / feed_eof / set_exception / readexactly / _wait_for_data) and of
  src/ndn/transport/stream_face.py : StreamFace.run + src/ndn/encoding/tlv_var.py :
  read_tl_num_from_stream as a RESUMABLE state machine over the transport's events.

  Unlike NdnModel/Framing.lean (which works on the concatenated stream), the cut of the stream into
  reads is explicit here: the transport `feed`s chunks (any sizes, also empty), then `feedEof` or
  `setException`; after every event the face's task runs until its pending `readexactly` has to wait
  again (asyncio wakes the waiting task before the transport's next callback runs).
-/
namespace Ndn.StreamReader
open Ndn

/-- exception classes that can come out of `await reader.readexactly(n)`:
    `asyncio.IncompleteReadError` (raised by readexactly itself at EOF), `ConnectionResetError`
    (set by the transport) and any other class the transport may set (ConnectionAbortedError,
    TimeoutError, OSError ...). -/
inductive RdErr where
  | incompleteRead | connectionReset | other
  deriving DecidableEq, Repr, Inhabited

def RdErr.name : RdErr → String
  | .incompleteRead => "IncompleteReadError" | .connectionReset => "ConnectionResetError" | .other => "Other"

/-- `StreamReader` state: `_buffer`, `_eof`, `_exception`. -/
structure Reader where
  buf : Bytes := []
  eof : Bool := false
  exc : Option RdErr := none
  deriving Repr

/-- what the transport does to the reader -/
inductive Event where
  | feed (chunk : Bytes)          -- `feed_data(chunk)`   (an empty chunk is a no-op that wakes nobody)
  | feedEof                        -- `feed_eof()`
  | setException (e : RdErr)       -- `set_exception(e)`
  deriving Repr

def Reader.apply (r : Reader) : Event → Reader
  | .feed c => { r with buf := r.buf ++ c }
  | .feedEof => { r with eof := true }
  | .setException e => { r with exc := some e }

/-- outcome of (re-)entering `readexactly(n)` -/
inductive Read where
  | done (data : Bytes) (r : Reader)     -- returned `data`; the reader afterwards
  | blocked                                -- `await self._wait_for_data(...)`: nothing consumed
  | raised (e : RdErr) (r : Reader)      -- raised `e`; IncompleteReadError empties the buffer into `.partial`

/-- `await reader.readexactly(n)` up to its first suspension:
    `if self._exception is not None: raise`; `if n == 0: return b''`;
    `while len(buffer) < n: if eof: raise IncompleteReadError(partial); await wait`; take `n` bytes. -/
def readexactly (r : Reader) (n : Nat) : Read :=
  match r.exc with
  | some e => .raised e r
  | none =>
    if n = 0 then .done [] r
    else if n ≤ r.buf.length then .done (r.buf.take n) { r with buf := r.buf.drop n }
    else if r.eof then .raised .incompleteRead { r with buf := [] }
    else .blocked

/-- width of the rest of a multi-byte TL number whose first byte is `x > 0xFC` -/
def width (x : Nat) : Nat := if x = 0xFD then 2 else if x = 0xFE then 4 else 8

/-- where `StreamFace.run` is suspended (which `readexactly` is pending) and what it holds in its
    locals: `bio` = the bytes of the current packet read so far, `typ`, `siz`. -/
inductive Phase where
  | typ0                                          -- first byte of Type (`bio` empty)
  | typN (w : Nat) (bio : Bytes)                  -- the `w` remaining bytes of a multi-byte Type
  | len0 (typ : Nat) (bio : Bytes)                -- first byte of Length
  | lenN (typ : Nat) (w : Nat) (bio : Bytes)      -- the `w` remaining bytes of a multi-byte Length
  | value (typ : Nat) (siz : Nat) (bio : Bytes)   -- `readexactly(siz)`: the Value
  deriving Repr

/-- the argument of the pending `readexactly` -/
def Phase.need : Phase → Nat
  | .typ0 => 1 | .typN w _ => w | .len0 _ _ => 1 | .lenN _ w _ => w | .value _ n _ => n

/-- `bio.getvalue()` so far -/
def Phase.bio : Phase → Bytes
  | .typ0 => [] | .typN _ b => b | .len0 _ b => b | .lenN _ _ b => b | .value _ _ b => b

def Phase.rank : Phase → Nat
  | .typ0 => 0 | .typN _ _ => 4 | .len0 _ _ => 3 | .lenN _ _ _ => 2 | .value _ _ _ => 1

abbrev Pkt := Nat × Bytes

/-- the code between the pending `readexactly` returning `d` and the next `readexactly`:
    the next suspension point, or a complete `(typ, buf)` for `aio.create_task(self.callback(typ, buf))`
    (after which the loop starts over at `typ0`). -/
def Phase.next : Phase → Bytes → Sum Phase Pkt
  | .typ0, d =>
    let x := (d.headD 0).toNat
    if x ≤ 0xFC then .inl (.len0 x d) else .inl (.typN (width x) d)
  | .typN _ bio, d => .inl (.len0 (beVal d) (bio ++ d))
  | .len0 typ bio, d =>
    let x := (d.headD 0).toNat
    if x ≤ 0xFC then .inl (.value typ x (bio ++ d)) else .inl (.lenN typ (width x) (bio ++ d))
  | .lenN typ _ bio, d => .inl (.value typ (beVal d) (bio ++ d))
  | .value typ _ bio, d => .inr (typ, bio ++ d)

/-- the face's task: suspended in a read (`running`), ended through the `except` clause →
    `self.shutdown()` → `while self.running` false (`shutdown`), or ended with an exception class the
    `except` clause does not name (`crashed`). -/
inductive Status where
  | running | shutdown | crashed (e : RdErr)
  deriving DecidableEq, Repr

structure Face where
  reader : Reader
  phase : Phase
  status : Status
  deriving Repr

/-- `except (<caught>): self.shutdown()` -/
def handled (caught : List RdErr) (e : RdErr) : Status :=
  if caught.contains e then .shutdown else .crashed e

theorem readexactly_done {r r' : Reader} {n : Nat} {d : Bytes} (h : readexactly r n = .done d r') :
    r'.buf.length + n = r.buf.length := by
  unfold readexactly at h
  split at h
  · cases h
  · split at h
    · cases h; omega
    · split at h
      · cases h; simp; omega
      · split at h <;> cases h

set_option linter.unusedVariables false in
/-- run the task from suspension point `ph` until it has to wait again (or ends): the resulting face
    and the packets handed to the callback on the way, in order. -/
def pump (caught : List RdErr) (r : Reader) (ph : Phase) : Face × List Pkt :=
  match h : readexactly r ph.need with
  | .blocked => (⟨r, ph, .running⟩, [])
  | .raised e r' => (⟨r', ph, handled caught e⟩, [])
  | .done d r' =>
    match hn : ph.next d with
    | .inl ph' => pump caught r' ph'
    | .inr p => let res := pump caught r' .typ0; (res.1, p :: res.2)
termination_by 5 * r.buf.length + ph.rank
decreasing_by
  · have := readexactly_done h
    cases ph <;> simp only [Phase.next] at hn <;> (try split at hn) <;> cases hn <;>
      simp only [Phase.rank, Phase.need] at * <;> omega
  · have := readexactly_done h
    cases ph <;> simp only [Phase.next] at hn <;> (try split at hn) <;> cases hn
    simp only [Phase.rank, Phase.need] at *; omega

/-- one transport event, then the task runs as far as it can.  While `running` the task is suspended
    inside `_wait_for_data`: `set_exception` makes that await raise `e`; `feed_data` / `feed_eof` wake it
    and the `while len(buffer) < n` test of the pending `readexactly` is made again. -/
def Face.step (caught : List RdErr) (f : Face) (ev : Event) : Face × List Pkt :=
  match f.status with
  | .running =>
    match ev with
    | .setException e => ({ f with reader := f.reader.apply ev, status := handled caught e }, [])
    | _ => pump caught (f.reader.apply ev) f.phase
  | _ => ({ f with reader := f.reader.apply ev }, [])

/-- `face.run()` started on a reader -/
def start (caught : List RdErr) (r : Reader) : Face × List Pkt := pump caught r .typ0

def stepAcc (caught : List RdErr) (acc : Face × List Pkt) (ev : Event) : Face × List Pkt :=
  let res := acc.1.step caught ev
  (res.1, acc.2 ++ res.2)

/-- the events one after the other; second component = everything handed over so far -/
def runFrom (caught : List RdErr) : Face × List Pkt → List Event → Face × List Pkt
  | acc, [] => acc
  | acc, ev :: evs => runFrom caught (stepAcc caught acc ev) evs

/-- `face.run()` on a fresh reader, then the events -/
def run (caught : List RdErr) (evs : List Event) : Face × List Pkt :=
  runFrom caught (start caught {}) evs

/-- the same, recording the situation after every event (what the harness observes) -/
def traceFrom (caught : List RdErr) : Face × List Pkt → List Event → List (Face × List Pkt)
  | _, [] => []
  | acc, ev :: evs => stepAcc caught acc ev :: traceFrom caught (stepAcc caught acc ev) evs

def trace (caught : List RdErr) (evs : List Event) : List (Face × List Pkt) :=
  traceFrom caught (start caught {}) evs

end Ndn.StreamReader
