import NdnModel.Lvs.Match
/-!
  Line protocol shared by the drivers of C11, C12, C13.

  request  ::= `sanity <model>` | `match <model> <env> <name>` | `check <model> <env> <pkt> <key>`
             | `tree <model> <env> <name>`      (the recursive `matchTree`, for cross-checking)
             | `mmatch <model> <env> <name>/<name>/…`   answers `ok <r>/<r>/…`, r ::= `H~outs~err` | `E~err`
             | `mtree  <model> <env> <name>/<name>/…`   the same through `matchTree`
             | `mcheck <model> <env> <name>/<name>/…`   all ordered pairs (packet, key), row-major, `,`-separated
             | `full   <model> <env> <name>/<name>/…`   `ok <Error>` if the loader rejects, else
                                                        `ok accepted <mmatch answer> <mcheck answer>`
  model    ::= `<version|~>!<start>!<namedCnt>!<node>|<node>|…`   (`.` = no nodes)
  node     ::= `<id|~>;<parent|~>;<ruleNames>;<vEdges>;<pEdges>;<signers>`     lists: `,`-separated, `.` = empty
  vEdge    ::= `<dest|~>:<valueHex|~>`            (`-` = empty bytes)
  pEdge    ::= `<dest|~>:<tag|~>:<cons>`          cons ::= `.` | clause (`&` clause)*
  clause   ::= `_` | option (`+` option)*         option ::= `<valueHex|~>/<tag|~>/<fn|~>`
  fn       ::= `<id|~>=<args>`                    args ::= `.` | arg (`*` arg)*     arg ::= `<valueHex|~>^<tag|~>`
  env      ::= `.` | `,`-separated subset of `$eq`, `$eq_type`, `$odd` (the user functions that are defined)
  name     ::= `,`-separated hex components (`.` = empty name)
-/
namespace Ndn.Lvs.Proto
open Ndn Ndn.Lvs

def optNat (s : String) : Option (Option Nat) :=
  if s == "~" then some none else s.toNat?.map some

def optHex (s : String) : Option (Option Bytes) :=
  if s == "~" then some none else (fromHex s).map some

def listOf (sep : String) (s : String) (f : String → Option α) : Option (List α) :=
  if s == "." then some [] else (s.splitOn sep).mapM f

def parseArg (s : String) : Option FnArg :=
  match s.splitOn "^" with
  | [v, t] => do pure { value := ← optHex v, tag := ← optNat t }
  | _ => none

def parseFn (s : String) : Option (Option FnCall) :=
  if s == "~" then some none else
  match s.splitOn "=" with
  | [i, a] => do
    let args ← listOf "*" a parseArg
    let fid := if i == "~" then none else if i == "-" then some "" else some i
    pure (some { fnId := fid, args := args })
  | _ => none

def parseOpt (s : String) : Option ConsOption :=
  match s.splitOn "/" with
  | [v, t, f] => do pure { value := ← optHex v, tag := ← optNat t, fn := ← parseFn f }
  | _ => none

def parseClause (s : String) : Option Constraint :=
  if s == "_" then some [] else (s.splitOn "+").mapM parseOpt

def parsePEdge (s : String) : Option PEdge :=
  match s.splitOn ":" with
  | [d, t, c] => do
    pure { dest := ← optNat d, tag := ← optNat t, cons := ← listOf "&" c parseClause }
  | _ => none

def parseVEdge (s : String) : Option VEdge :=
  match s.splitOn ":" with
  | [d, v] => do pure { dest := ← optNat d, value := ← optHex v }
  | _ => none

def parseNode (s : String) : Option Node :=
  match s.splitOn ";" with
  | [i, p, rn, ve, pe, sg] => do
    pure { id := ← optNat i, parent := ← optNat p, ruleNames := ← listOf "," rn some,
           vEdges := ← listOf "," ve parseVEdge, pEdges := ← listOf "," pe parsePEdge,
           signCons := ← listOf "," sg String.toNat? }
  | _ => none

def parseModel (s : String) : Option Model :=
  match s.splitOn "!" with
  | [v, st, cnt, ns] => do
    pure { version := ← optNat v, startId := ← st.toNat?, namedCnt := ← cnt.toNat?,
           nodes := ← listOf "|" ns parseNode }
  | _ => none

/-! the user functions the harness hands to the real `Checker` -/

def compType (c : Bytes) : Except LvsErr Nat :=
  match parseTlNum c 0 with
  | .ok (t, _) => .ok t
  | .error _ => .error .typeError

/-- `DEFAULT_USER_FNS['$eq']` -/
def fnEq : UserFn := fun c args => .ok (args.all (fun a => a == some c))

/-- `DEFAULT_USER_FNS['$eq_type']`: `Component.get_type(None)` raises `TypeError` -/
def fnEqType : UserFn := fun c args =>
  let rec go : List (Option Bytes) → Except LvsErr Bool
    | [] => .ok true
    | none :: _ => .error .typeError
    | some x :: r =>
      match compType x, compType c with
      | .ok a, .ok b => if a = b then go r else .ok false
      | .error e, _ => .error e
      | _, .error e => .error e
  go args

/-- the scripted function of the harness: parity of the last bytes -/
def fnOdd : UserFn := fun c args =>
  let lastB (b : Bytes) : Nat := match b.getLast? with | some x => x.toNat | none => 0
  .ok ((lastB c + (args.map (fun a => match a with | some x => lastB x | none => 1)).sum) % 2 == 1)

def parseEnv (s : String) : Option FnEnv :=
  let names := if s == "." then [] else s.splitOn ","
  if names.all (fun n => n == "$eq" || n == "$eq_type" || n == "$odd") then
    some (fun id =>
      if !names.contains id then none
      else if id == "$eq" then some fnEq
      else if id == "$eq_type" then some fnEqType
      else some fnOdd)
  else none

def showCtx (c : Ctx) : String :=
  if c.isEmpty then "." else ",".intercalate (c.map fun p => toString p.1 ++ "=" ++ toHex p.2)

def showErr : Option LvsErr → String
  | none => "-"
  | some e => e.name

def showBool (b : Bool) : String := if b then "true" else "false"

def showOuts (m : Model) (outs : List (Nat × Ctx)) : String :=
  let l := outs.map (fun o => ",".intercalate (ruleNamesOf m o.1) ++ "@" ++ toString o.1 ++ "@" ++ showCtx o.2)
  if l.isEmpty then "." else ";".intercalate l

def matchOne (m : Model) (env : FnEnv) (tree : Bool) (name : List Bytes) : String :=
  match stripDigest name with
  | .error e => "E~" ++ e.name
  | .ok nm =>
    if tree then "H~" ++ showOuts m (matchTree m env nm m.startId []) ++ "~-"
    else
      let S := matchIter m env nm []
      (if S.cur.isNone then "H" else "NH") ++ "~" ++ showOuts m S.outs ++ "~" ++ showErr S.err

def checkOne (m : Model) (env : FnEnv) (p k : List Bytes) : String :=
  match check m env p k with
  | .ok b => if b then "1" else "0"
  | .error e => e.name

def handle (args : List String) : String :=
  match args with
  | [op, ms, es, nss] =>
    match parseModel ms, parseEnv es, (nss.splitOn "/").mapM fromHexList with
    | some m, some env, some names =>
      if op == "mmatch" then "ok " ++ "/".intercalate (names.map (matchOne m env false))
      else if op == "mtree" then "ok " ++ "/".intercalate (names.map (matchOne m env true))
      else if op == "mcheck" then
        "ok " ++ ",".intercalate (names.flatMap fun p => names.map fun k => checkOne m env p k)
      else if op == "full" then
        match sanityCheck m with
        | .error e => "ok " ++ e.name
        | .ok _ =>
          "ok accepted " ++ "/".intercalate (names.map (matchOne m env false)) ++ " " ++
            ",".intercalate (names.flatMap fun p => names.map fun k => checkOne m env p k)
      else "bad-op"
    | _, _, _ => "bad-op"
  | ["sanity", ms] =>
    match parseModel ms with
    | some m => (match sanityCheck m with | .ok _ => "ok" | .error e => "err " ++ e.name)
    | none => "bad-op"
  | ["check", ms, es, ps, ks] =>
    match parseModel ms, parseEnv es, fromHexList ps, fromHexList ks with
    | some m, some env, some p, some k =>
      (match check m env p k with
        | .ok b => "ok " ++ showBool b
        | .error e => "err " ++ e.name)
    | _, _, _, _ => "bad-op"
  | _ => "bad-op"

end Ndn.Lvs.Proto
