import NdnModel.Lvs.Proto
import NdnModel.Lvs.Compile
import NdnModel.Lvs.SrcSem
/-!
  Line protocol for the compiler model (drivers of C11 and C13); every other request is passed on to
  `Proto.handle`.

  request ::= `compile <schema>`                 answers `cerr <Error>` | `ok <model> <symbols>`
            | `keyinj <schema>`                  answers `cerr <Error>` | `ok 1` | `ok 0`: is the merge key of
                                                 `pattern_movement` injective on the chains of the schema (`keyInjB`)
            | `csanity <schema>`                 answers `cerr <Error>` | `ok <model> <symbols> <k> <ok|Error>`
                                                 (the last field: the loader's verdict on the compiled model;
                                                 `<k>` = `1` iff the merge key is injective on the chains, `keyInjB`)
            | `cfull <schema> <env> <names>`     answers `cerr <Error>` | `ok <model> <symbols> <k> <Error>`
                                                 | `ok <model> <symbols> <k> accepted <mmatch answer>`
            | `csrc <schema> <env> <names>`      as `cfull`; an accepted answer is followed by ` <src answer>`
            | `src-match <schema> <env> <names>` answers `cerr <Error>` (pass 1 refuses the schema: undefined / temporary /
                                                 cyclic rule references) | `ok <src answer>`: the SOURCE-LEVEL semantics
                                                 (`NdnModel/Lvs/SrcSem.lean`, `srcMatch` on the rules with temporary rules
                                                 renamed as pass 1 does; no compiled model involved)
  src answer ::= r (`/` r)*, one per name        r ::= `E~<Error>` (no readable last component) | `S~` (`.` | m (`;` m)*)
  m       ::= `<ruleId>@` (`.` | `<ident>=<hex>` (`,` `<ident>=<hex>`)*)     one per (definition, expansion) that matches
  schema  ::= `.` | rule (`|` rule)*
  rule    ::= `<id>;<comps>;<cons>;<sign>`       comps ::= comp (`,` comp)*     sign ::= `.` | id (`,` id)*
  comp    ::= `L<hex>` | `P<ident>` | `R<ruleId>`
  cons    ::= `.` | set (`!` set)*               set ::= term (`&` term)*       term ::= `<ident>:` opt (`+` opt)*
  opt     ::= `L<hex>` | `P<ident>` | `F<fn>=<args>`      args ::= `.` | arg (`*` arg)*    arg ::= `L<hex>` | `P<ident>`
  model   ::= as in `Proto` (what the harness prints for the object `compile_lvs` returns)
  symbols ::= `.` | `,`-separated identifiers of the named patterns by tag, from tag 1
-/
namespace Ndn.Lvs.CProto
open Ndn Ndn.Lvs Ndn.Lvs.Proto

def tagged (s : String) : Option (Char × String) :=
  match s.toList with
  | [] => none
  | c :: r => some (c, String.ofList r)

def parseSArg (s : String) : Option (Arg String) :=
  match tagged s with
  | some ('L', r) => (fromHex r).map .lit
  | some ('P', r) => if r == "" then none else some (.pat r)
  | _ => none

def parseSOpt (s : String) : Option (Opt String) :=
  match tagged s with
  | some ('L', r) => (fromHex r).map .lit
  | some ('P', r) => if r == "" then none else some (.pat r)
  | some ('F', r) =>
    match r.splitOn "=" with
    | [f, a] => if f == "" then none else (listOf "*" a parseSArg).map (.fn f)
    | _ => none
  | _ => none

def parseComp (s : String) : Option (Comp String) :=
  match tagged s with
  | some ('L', r) => (fromHex r).map .lit
  | some ('P', r) => if r == "" then none else some (.pat r)
  | some ('R', r) => if r.length < 2 then none else some (.ref r)
  | _ => none

def parseTerm (s : String) : Option (Term String String) :=
  match s.splitOn ":" with
  | [p, os] => if p == "" then none else do pure { pat := p, opts := ← (os.splitOn "+").mapM parseSOpt }
  | _ => none

def parseRuleId (s : String) : Option String := if s.length < 2 then none else some s

def parseRule (s : String) : Option SRule :=
  match s.splitOn ";" with
  | [i, nm, cs, sg] => do
    pure { id := ← parseRuleId i, name := ← (nm.splitOn ",").mapM parseComp,
           cons := ← listOf "!" cs (fun t => (t.splitOn "&").mapM parseTerm),
           sign := ← listOf "," sg parseRuleId }
  | _ => none

def parseSchema (s : String) : Option Schema := (listOf "|" s parseRule).map (fun rs => { rules := rs })

/-! printing a model in the format `Proto.parseModel` reads -/

def sOptNat : Option Nat → String
  | none => "~"
  | some n => toString n

def sOptHex : Option Bytes → String
  | none => "~"
  | some b => toHex b

def sList (sep : String) (l : List String) : String := if l.isEmpty then "." else sep.intercalate l

def showArg (a : FnArg) : String := sOptHex a.value ++ "^" ++ sOptNat a.tag

def showFn : Option FnCall → String
  | none => "~"
  | some f =>
    (match f.fnId with | none => "~" | some s => if s == "" then "-" else s) ++ "=" ++ sList "*" (f.args.map showArg)

def showOpt (o : ConsOption) : String := sOptHex o.value ++ "/" ++ sOptNat o.tag ++ "/" ++ showFn o.fn

def showClause (cl : Constraint) : String := if cl.isEmpty then "_" else "+".intercalate (cl.map showOpt)

def showPEdge (pe : PEdge) : String :=
  sOptNat pe.dest ++ ":" ++ sOptNat pe.tag ++ ":" ++ sList "&" (pe.cons.map showClause)

def showVEdge (ve : VEdge) : String := sOptNat ve.dest ++ ":" ++ sOptHex ve.value

def showNode (n : Node) : String :=
  ";".intercalate [sOptNat n.id, sOptNat n.parent, sList "," n.ruleNames, sList "," (n.vEdges.map showVEdge),
    sList "," (n.pEdges.map showPEdge), sList "," (n.signCons.map toString)]

def showModel (m : Model) : String :=
  "!".intercalate [sOptNat m.version, toString m.startId, toString m.namedCnt, sList "|" (m.nodes.map showNode)]

/-- `1` iff the merge key is injective on the chains of the schema (the hypothesis of `tree_eq_chains`) -/
def keyFlag (S : Schema) : String :=
  match chainsOf S with
  | .ok (chains, _) => if keyInjB chains then "1" else "0"
  | .error _ => "0"

def showSCtx (c : SCtx) : String :=
  if c.isEmpty then "." else ",".intercalate (c.map fun p => p.1 ++ "=" ++ toHex p.2)

/-- the source-level matches of one name (after dropping a trailing implicit digest, as `Checker.match` does) -/
def srcOne (S' : Schema) (fns : PureEnv) (name : List Bytes) : String :=
  match stripDigest name with
  | .error e => "E~" ++ e.name
  | .ok nm => "S~" ++ sList ";" ((srcMatch S' fns [] nm).map fun o => o.1 ++ "@" ++ showSCtx o.2)

def srcAnswer (S : Schema) (env : FnEnv) (names : List (List Bytes)) : String :=
  "/".intercalate (names.map (srcOne ⟨renameTemps S.rules 1⟩ (pureOf env)))

def handle (args : List String) : String :=
  match args with
  | ["src-match", ss, es, nss] =>
    match parseSchema ss, parseEnv es, (nss.splitOn "/").mapM fromHexList with
    | some S, some env, some names =>
      match sortRuleReferences S with
      | .error e => "cerr " ++ e.name
      | .ok _ => "ok " ++ srcAnswer S env names
    | _, _, _ => "bad-op"
  | ["csrc", ss, es, nss] =>
    match parseSchema ss, parseEnv es, (nss.splitOn "/").mapM fromHexList with
    | some S, some env, some names =>
      match compile S with
      | .error e => "cerr " ++ e.name
      | .ok (m, syms) =>
        "ok " ++ showModel m ++ " " ++ sList "," syms ++ " " ++ keyFlag S ++ " " ++
          (match sanityCheck m with
            | .error e => e.name
            | .ok _ => "accepted " ++ "/".intercalate (names.map (matchOne m env false)) ++ " " ++ srcAnswer S env names)
    | _, _, _ => "bad-op"
  | ["compile", ss] =>
    match parseSchema ss with
    | none => "bad-op"
    | some S =>
      match compile S with
      | .error e => "cerr " ++ e.name
      | .ok (m, syms) => "ok " ++ showModel m ++ " " ++ sList "," syms
  | ["keyinj", ss] =>
    match parseSchema ss with
    | none => "bad-op"
    | some S =>
      match chainsOf S with
      | .error e => "cerr " ++ e.name
      | .ok (chains, _) => if keyInjB chains then "ok 1" else "ok 0"
  | ["csanity", ss] =>
    match parseSchema ss with
    | none => "bad-op"
    | some S =>
      match compile S with
      | .error e => "cerr " ++ e.name
      | .ok (m, syms) =>
        "ok " ++ showModel m ++ " " ++ sList "," syms ++ " " ++ keyFlag S ++ " " ++
          (match sanityCheck m with | .ok _ => "ok" | .error e => e.name)
  | ["cfull", ss, es, nss] =>
    match parseSchema ss, parseEnv es, (nss.splitOn "/").mapM fromHexList with
    | some S, some env, some names =>
      match compile S with
      | .error e => "cerr " ++ e.name
      | .ok (m, syms) =>
        "ok " ++ showModel m ++ " " ++ sList "," syms ++ " " ++ keyFlag S ++ " " ++
          (match sanityCheck m with
            | .error e => e.name
            | .ok _ => "accepted " ++ "/".intercalate (names.map (matchOne m env false)))
    | _, _, _ => "bad-op"
  | _ => Proto.handle args

end Ndn.Lvs.CProto
