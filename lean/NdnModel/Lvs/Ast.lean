import NdnModel.Lvs.Model
/-!
  The Light VerSec schema AST (`src/ndn/app_support/light_versec/parser.py`: `LvsFile`, `Rule`, `NamePat`,
  `ComponentValue | Pattern | RuleId`, `TagConstraint`, `FnCall`), as the lark transformer produces it.

  The types are parametrised by the representation of a pattern identifier, because
  `Compiler._gen_pattern_numbers` rewrites `Pattern.id` in place from an identifier to a number
  (`"3"`, `"-2"`) and the `pat` of a constraint to a list of numbers (`"-1 -4"`):

  * source text:  `π = String` (identifier),        `τ = String`
  * numbered:     `π = Int` (named > 0, temporary < 0), `τ = List Int`

  Domain (what the grammar guarantees, `grammar.py`): a rule identifier is `#` followed by a C name (so it
  has at least two characters), a pattern identifier is a C name (non-empty); a name has at least one
  component; a constraint set has at least one term and a term at least one option.  Literal components
  are the bytes `Component.from_str` produced.
-/
namespace Ndn.Lvs

/-- a component of a name pattern: `ComponentValue` / `Pattern` / `RuleId` -/
inductive Comp (π : Type) where
  | lit (v : Bytes)
  | pat (id : π)
  | ref (id : String)
  deriving DecidableEq, Repr, Inhabited

/-- an argument of a user-function call: `ComponentValue | Pattern` -/
inductive Arg (π : Type) where
  | lit (v : Bytes)
  | pat (id : π)
  deriving DecidableEq, Repr, Inhabited

/-- an option of a constraint: `ComponentValue | Pattern | FnCall` -/
inductive Opt (π : Type) where
  | lit (v : Bytes)
  | pat (id : π)
  | fn (name : String) (args : List (Arg π))
  deriving DecidableEq, Repr, Inhabited

/-- `TagConstraint`: the constrained pattern and the options (a disjunction) -/
structure Term (τ π : Type) where
  pat : τ
  opts : List (Opt π)
  deriving DecidableEq, Repr, Inhabited

/-- `Rule`: `cons` is in disjunctive normal form (a list of constraint sets, each a conjunction);
    `sign` lists the rules whose keys may sign -/
structure Rule (τ π : Type) where
  id : String
  name : List (Comp π)
  cons : List (List (Term τ π))
  sign : List String
  deriving DecidableEq, Repr, Inhabited

/-- the source AST (`LvsFile.rules`) -/
abbrev SRule := Rule String String
/-- the AST after `_gen_pattern_numbers` -/
abbrev NRule := Rule (List Int) Int
abbrev NTerm := Term (List Int) Int

structure Schema where
  rules : List SRule
  deriving DecidableEq, Repr, Inhabited

/-- `id[1] == '_'` on a rule identifier (`#_name`) -/
def isTempRule (id : String) : Bool := (id.toList.drop 1).head? == some '_'

/-- `id[0] == '_'` on a pattern identifier -/
def isTempPat (id : String) : Bool := id.toList.head? == some '_'

/-- the rule identifiers a name pattern refers to, in order -/
def refsOf {π : Type} (name : List (Comp π)) : List String :=
  name.filterMap fun c => match c with | .ref i => some i | _ => none

/-- the pattern identifiers written in a name pattern, in order -/
def patsOf {π : Type} (name : List (Comp π)) : List π :=
  name.filterMap fun c => match c with | .pat p => some p | _ => none

/-- the pattern identifiers on the right-hand side of a constraint term (options and user-function arguments) -/
def Opt.pats {π : Type} : Opt π → List π
  | .lit _ => []
  | .pat p => [p]
  | .fn _ args => args.filterMap fun a => match a with | .pat p => some p | _ => none

end Ndn.Lvs
