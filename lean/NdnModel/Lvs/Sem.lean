import NdnModel.Lvs.Model
/-!
  Specification vocabulary for the LVS properties, **independent of the checker's code**:

  * `Sane m` — the sanity rules of docs/src/lvs/binary-format.rst ("Sanity Check") as a
    declarative predicate (the node-id rule over the whole node array, the other rules over the part of
    the model reachable from the start node);
  * `Path m fns cnt n σ name n' σ'` — the denotation of the compiled tree (binary-format.rst,
    "Node" / "Constraint"): `name` leads from node `n` with bindings `σ` to node `n'` with bindings
    `σ'` through edges that accept its components one by one: a value edge accepts the equal component;
    a pattern edge accepts a component iff its tag is unbound or bound to that very component, and
    every constraint (CNF) has an option satisfied under the bindings made so far; a named tag that
    was unbound becomes bound;
  * `Signs m fns pkt key` — the signing relation: some node matched by the packet name lists as signer
    a node matched by the key name under the packet's bindings.
-/
namespace Ndn.Lvs

/-- user functions as total predicates (the parameter of the specification) -/
abbrev PureEnv := String → Bytes → List (Option Bytes) → Bool

/-- the value a user-function argument denotes: a bound pattern's component, else the literal -/
def ArgDen (σ : Ctx) (a : FnArg) : Option Bytes :=
  match a.tag with
  | none => a.value
  | some t => match σ.get? t with
    | some v => some v
    | none => a.value

/-- one constraint option holds for component `c` under bindings `σ`.  (Exactly one of the three
    fields is set in a sane model; a present value takes precedence, then a tag.) -/
def OptSat (fns : PureEnv) (σ : Ctx) (c : Bytes) (o : ConsOption) : Prop :=
  match o.value, o.tag, o.fn with
  | some v, _, _ => c = v
  | none, some t, _ => σ.get? t = some c
  | none, none, some f => ∃ id, f.fnId = some id ∧ fns id c (f.args.map (ArgDen σ)) = true
  | none, none, none => False

/-- CNF: every constraint has a satisfied option -/
def ConsSat (fns : PureEnv) (σ : Ctx) (c : Bytes) (cons : List Constraint) : Prop :=
  ∀ cl ∈ cons, ∃ o ∈ cl, OptSat fns σ c o

/-- pattern edge `pe` accepts component `c` under `σ`, giving `σ'` -/
def Accepts (fns : PureEnv) (cnt : Nat) (pe : PEdge) (c : Bytes) (σ σ' : Ctx) : Prop :=
  ∃ t, pe.tag = some t ∧ ConsSat fns σ c pe.cons ∧
    ((σ.get? t = some c ∧ σ' = σ) ∨
     (σ.get? t = none ∧ σ' = if t ≤ cnt then σ.set t c else σ))

/-- `name` leads from `(n, σ)` to `(n', σ')` -/
inductive Path (m : Model) (fns : PureEnv) : Nat → Ctx → List Bytes → Nat → Ctx → Prop
  | nil (n σ) : Path m fns n σ [] n σ
  | value {n σ c rest n' σ' node ve d} :
      m.nodes[n]? = some node → ve ∈ node.vEdges → ve.value = some c → ve.dest = some d →
      Path m fns d σ rest n' σ' → Path m fns n σ (c :: rest) n' σ'
  | pattern {n σ c rest n' σ' node pe d σ₁} :
      m.nodes[n]? = some node → pe ∈ node.pEdges → pe.dest = some d →
      Accepts fns m.namedCnt pe c σ σ₁ →
      Path m fns d σ₁ rest n' σ' → Path m fns n σ (c :: rest) n' σ'

/-- node `n'` is matched by `name` with bindings `σ'` (starting from bindings `σ`) -/
def Matches (m : Model) (fns : PureEnv) (σ : Ctx) (name : List Bytes) (n' : Nat) (σ' : Ctx) : Prop :=
  Path m fns m.startId σ name n' σ'

/-- the schema lets `key` sign `pkt` -/
def Signs (m : Model) (fns : PureEnv) (pkt key : List Bytes) : Prop :=
  ∃ pn σ pnode kn σ', Matches m fns [] pkt pn σ ∧ m.nodes[pn]? = some pnode ∧
    Matches m fns σ key kn σ' ∧ kn ∈ pnode.signCons

/-- the user functions of a `user_fns` dictionary as total predicates: an undefined function or one
    that raises is read as `false` -/
def pureOf (env : FnEnv) : PureEnv := fun id c args =>
  match env id with
  | some f => (match f c args with | .ok b => b | .error _ => false)
  | none => false

/-- every user function is defined and returns a truth value (what `validate_user_fns()` checks, plus:
    the functions themselves do not raise) -/
def EnvTotal (env : FnEnv) : Prop :=
  ∀ id, ∃ f, env id = some f ∧ ∀ c args, ∃ b, f c args = .ok b

/-- value edges of a node are deterministic: equal values lead to the same destination
    (the compiler emits one value edge per distinct component) -/
def VDet (m : Model) : Prop :=
  ∀ (n : Nat) (node : Node), m.nodes[n]? = some node →
    ∀ (ve₁ ve₂ : VEdge), ve₁ ∈ node.vEdges → ve₂ ∈ node.vEdges → ∀ c : Bytes,
      ve₁.value = some c → ve₂.value = some c → ve₁.dest = ve₂.dest

/-- the name without a trailing implicit-digest component (`none`: the name is empty or its last
    component has no readable type) -/
def dropDigest (name : List Bytes) : Option (List Bytes) :=
  match name.getLast? with
  | none => none
  | some c =>
    match parseTlNum c 0 with
    | .ok (t, _) => some (if t = 1 then name.dropLast else name)
    | .error _ => none

/-! ### the documented sanity rules -/

/-- reachable from the start node along edges -/
inductive Reach (m : Model) : Nat → Prop
  | start : Reach m m.startId
  | edge {n d node} : Reach m n → m.nodes[n]? = some node → some d ∈ node.dests → Reach m d

/-- "exactly one of Value, Tag and UserFn is set" (an empty value counts as not set, as in Python's
    truth test) and a user function has an identifier -/
def OptionShape (o : ConsOption) : Prop :=
  (((∃ v, o.value = some v ∧ v ≠ []) ∧ o.tag = none ∧ o.fn = none) ∨
   ((o.value = none ∨ o.value = some []) ∧ (∃ t, o.tag = some t) ∧ o.fn = none) ∨
   ((o.value = none ∨ o.value = some []) ∧ o.tag = none ∧
      ∃ f id, o.fn = some f ∧ f.fnId = some id ∧ id ≠ ""))

/-- the rules of binary-format.rst, "Sanity Check": node ids for every node, the rest for the nodes reachable
    from the start node -/
structure Sane (m : Model) : Prop where
  /-- `Version` is supported -/
  version : ∃ v, m.version = some v ∧ minVersion ≤ v ∧ v ≤ maxVersion
  /-- the start node exists and has no parent -/
  root : ∃ node, m.nodes[m.startId]? = some node ∧ node.parent = none
  /-- every node's `NodeId` equals its index in the array (reachable from the start node or not) -/
  ids : ∀ (n : Nat) (node : Node), m.nodes[n]? = some node → node.id = some n
  /-- all edges refer to an existing destination node, whose parent is the source of the edge;
      edges carry their value / tag -/
  edges : ∀ n node, Reach m n → m.nodes[n]? = some node →
    (∀ ve ∈ node.vEdges, ∃ v, ve.value = some v ∧ v ≠ []) ∧
    (∀ pe ∈ node.pEdges, ∃ t, pe.tag = some t) ∧
    (∀ d ∈ node.dests, ∃ k dn, d = some k ∧ m.nodes[k]? = some dn ∧ dn.parent = some n)
  /-- every `SignConstraint` refers to an existing node -/
  signers : ∀ n node, Reach m n → m.nodes[n]? = some node → ∀ k ∈ node.signCons, k < m.nodes.length
  /-- for each `ConstraintOption` exactly one of Value, Tag, UserFn is set -/
  options : ∀ n node, Reach m n → m.nodes[n]? = some node →
    ∀ pe ∈ node.pEdges, ∀ cl ∈ pe.cons, ∀ o ∈ cl, OptionShape o

end Ndn.Lvs
