import NdnModel.Codec
import NdnModel.Lvs.Match
import NdnGen.C08
/-!
  `Checker.load(binary_model, user_fns)` on **bytes**: `LvsModel.parse` (the generic TLV decoder `Ndn.Codec.parse` over the
  schema `Gen.C08.binary_LvsModel`, regenerated from binary.py on every run) followed by `Checker.__init__` →
  `_sanity_check`.

  `toRaw` reads the decoded field values into the structures of `Model.lean` (an absent element is `none`, a repeated
  field a list).  `LvsModel.start_id` and `named_pattern_cnt` may be absent in the bytes:

  * without `StartId`, `_sanity_check` passes the version test and the node-id loop (or raises `LvsModelError` there) and
    then evaluates `None >= len(nodes)` in `dfs`: `TypeError`;
  * without `NamedPatternCnt` the loader succeeds (`Loaded.cntPresent = false`; `_match` raises `TypeError` the first
    time it compares a tag with it — the search is that of any count, cut at that point).
-/
namespace Ndn.Lvs
open Ndn Ndn.Codec

def vNat : Value → Option Nat
  | .uint v => some v
  | _ => none

def vBytes : Value → Option Bytes
  | .bytes b => some b
  | _ => none

/-- a decoded text field (`parse` has checked that it is UTF-8) -/
def vStr (v : Value) : Option String :=
  (vBytes v).map fun b => (String.fromUTF8? (ByteArray.mk b.toArray)).getD ""

def vList : Value → List Value
  | .list l => l
  | _ => []

def vFields : Value → List Value
  | .model fs => fs
  | _ => []

def fld (fs : List Value) (i : Nat) : Value := fs.getD i .none

def toFnArg (v : Value) : FnArg :=
  { value := vBytes (fld (vFields v) 0), tag := vNat (fld (vFields v) 1) }

def toFnCall (v : Value) : FnCall :=
  { fnId := vStr (fld (vFields v) 0), args := (vList (fld (vFields v) 1)).map toFnArg }

def toConsOption (v : Value) : ConsOption :=
  { value := vBytes (fld (vFields v) 0), tag := vNat (fld (vFields v) 1),
    fn := match fld (vFields v) 2 with
      | .model gs => some (toFnCall (.model gs))
      | _ => none }

def toConstraint (v : Value) : Constraint := (vList (fld (vFields v) 0)).map toConsOption

def toPEdge (v : Value) : PEdge :=
  { dest := vNat (fld (vFields v) 0), tag := vNat (fld (vFields v) 1),
    cons := (vList (fld (vFields v) 2)).map toConstraint }

def toVEdge (v : Value) : VEdge :=
  { dest := vNat (fld (vFields v) 0), value := vBytes (fld (vFields v) 1) }

def toNode (v : Value) : Node :=
  { id := vNat (fld (vFields v) 0), parent := vNat (fld (vFields v) 1),
    ruleNames := (vList (fld (vFields v) 2)).filterMap vStr,
    vEdges := (vList (fld (vFields v) 3)).map toVEdge,
    pEdges := (vList (fld (vFields v) 4)).map toPEdge,
    signCons := (vList (fld (vFields v) 5)).filterMap vNat }

/-- `LvsModel` as `LvsModel.parse` leaves it -/
structure RawModel where
  version : Option Nat
  startId : Option Nat
  namedCnt : Option Nat
  nodes : List Node
  deriving Repr, Inhabited

def toRaw (vs : List Value) : RawModel :=
  { version := vNat (fld vs 0), startId := vNat (fld vs 1), namedCnt := vNat (fld vs 2),
    nodes := (vList (fld vs 3)).map toNode }

/-- what `Checker.load` returns -/
structure Loaded where
  model : Model
  /-- `NamedPatternCnt` was present in the bytes (`model.namedCnt` is 0 otherwise) -/
  cntPresent : Bool
  deriving Repr, Inhabited

/-- `Checker(model, user_fns)` → `_sanity_check` on a parsed model -/
def loadRaw (r : RawModel) : Except LvsErr Loaded :=
  match r.startId with
  | some s =>
    let m : Model := { version := r.version, startId := s, namedCnt := r.namedCnt.getD 0, nodes := r.nodes }
    match sanityCheck m with
    | .error e => .error e
    | .ok _ => .ok { model := m, cntPresent := r.namedCnt.isSome }
  | none =>
    let m : Model := { version := r.version, startId := 0, namedCnt := 0, nodes := r.nodes }
    if versionOK m && idsOK m then .error .typeError else .error .modelError

/-- exceptions leaving `Checker.load` -/
inductive LoadErr where
  | decode (e : PyErr)     -- from `LvsModel.parse`
  | lvs (e : LvsErr)       -- from `_sanity_check`
  deriving DecidableEq, Repr, Inhabited

def LoadErr.name : LoadErr → String
  | .decode e => e.name
  | .lvs e => e.name

/-- `Checker.load(wire, user_fns)` -/
def loadBytes (wire : Bytes) : Except LoadErr Loaded :=
  match Codec.parse Gen.C08.binary_LvsModel false wire with
  | .error e => .error (.decode e)
  | .ok vs =>
    match loadRaw (toRaw vs) with
    | .error e => .error (.lvs e)
    | .ok l => .ok l

end Ndn.Lvs
