import NdnModel.Lvs.Model
/-!
  Model of `src/ndn/app_support/light_versec/checker.py`:
  `Checker._sanity_check` (`dfs`, `top_order`), `_check_cons`, `_match` (the iterative back-tracking
  search as an explicit step function run with fuel, and a structurally recursive `matchTree`),
  `match`, `check`.

  The model follows the tree **with the candidate repairs applied**
  (`/verif/candidate_fixes/C13-sanity-parent.diff`: `if node.parent != par`,
  `/verif/candidate_fixes/C12-bound-tag-constraints.diff`: constraints of a pattern edge are checked
  also when the tag is already bound, and `/verif/candidate_fixes/C13-node-id-every-node.diff`: the node-id
  rule is checked for every node of the array, `idsOK`).
-/
namespace Ndn.Lvs

/-! ## `_sanity_check` -/

def versionOK (m : Model) : Bool :=
  match m.version with
  | none => false
  | some v => decide (minVersion ≤ v) && decide (v ≤ maxVersion)

/-- `ve.dest is None or not ve.value` does not hold -/
def vEdgeOK (ve : VEdge) : Bool :=
  ve.dest.isSome && (match ve.value with | some v => !v.isEmpty | none => false)

/-- `[not not op.value, op.tag is not None, op.fn is not None].count(True) == 1`, and a user
    function has a non-empty id -/
def optOK (o : ConsOption) : Bool :=
  ((if (match o.value with | some v => !v.isEmpty | none => false) then 1 else 0)
    + (if o.tag.isSome then 1 else 0) + (if o.fn.isSome then 1 else 0) == (1 : Nat))
  && (match o.fn with
      | none => true
      | some f => match f.fnId with | some s => s != "" | none => false)

def pEdgeOK (pe : PEdge) : Bool :=
  pe.dest.isSome && pe.tag.isSome && pe.cons.all (fun cl => cl.all optOK)

/-- every check `dfs(cur, par)` makes on the node itself -/
def nodeLocalOK (m : Model) (cur : Nat) (par : Option Nat) (node : Node) : Bool :=
  (node.id == some cur) && (node.parent == par) && node.vEdges.all vEdgeOK && node.pEdges.all pEdgeOK
  && node.signCons.all (fun k => decide (k < m.nodes.length))

/-- `dfs(cur, par)` of `_sanity_check`: `true` iff no `LvsModelError` is raised.  Every failure inside
    `dfs` raises the same class, so the order of the checks is not observable.  Fuel bounds the
    recursion depth (Python: the interpreter's recursion limit, not modelled); with fuel
    `nodes.length + 1` it is never exhausted on a model that passes the parent check on each step. -/
def dfs (m : Model) : Nat → Nat → Option Nat → Bool
  | 0, _, _ => false
  | fuel + 1, cur, par =>
    match m.nodes[cur]? with
    | none => false
    | some node =>
      nodeLocalOK m cur par node &&
      node.dests.all (fun d => match d with
        | some d => dfs m fuel d (some cur)
        | none => false)

/-- the nodes `dfs` visits (pre-order, with repetitions), i.e. the keys of `adj_lst` that get signers -/
def collect (m : Model) : Nat → Nat → List Nat
  | 0, _ => []
  | fuel + 1, cur =>
    match m.nodes[cur]? with
    | none => []
    | some node => cur :: node.dests.flatMap (fun d => match d with
        | some d => collect m fuel d
        | none => [])

/-- Kahn's algorithm as in `compiler.top_order`: `true` iff no "Loop detected" -/
def kahn : Nat → List Nat → List (Nat × Nat) → Bool
  | _, [], _ => true
  | 0, _ :: _, _ => false
  | f + 1, rem, edges =>
    let ready := rem.filter (fun n => !(edges.any (fun e => e.2 == n && rem.contains e.1)))
    if ready.isEmpty then false else kahn f (rem.filter (fun n => !ready.contains n)) edges

/-- `top_order(nodes_id_lst, adj_lst)` does not raise `SemanticError` -/
def signOK (m : Model) : Bool :=
  let ids := (m.nodes.filterMap (·.id)).eraseDups
  let visited := (collect m (m.nodes.length + 1) m.startId).eraseDups
  let edges := visited.flatMap (fun n => match m.nodes[n]? with
    | some node => node.signCons.map (fun k => (n, k))
    | none => [])
  edges.all (fun e => ids.contains e.1 && ids.contains e.2) && kahn ids.length ids edges

/-- `for idx, node in enumerate(self.model.nodes): if node.id != idx: raise LvsModelError` — every node of the
    array, reachable or not, carries its index as `NodeId` -/
def idsOK (m : Model) : Bool :=
  (List.range m.nodes.length).all fun i => match m.nodes[i]? with
    | some node => node.id == some i
    | none => true

/-- the structural part of `_sanity_check` (version + node ids + `dfs`) -/
def structCheck (m : Model) : Bool :=
  versionOK m && idsOK m && dfs m (m.nodes.length + 1) m.startId none

/-- `Checker.__init__` → `_sanity_check` -/
def sanityCheck (m : Model) : Except LvsErr Unit :=
  if !structCheck m then .error .modelError
  else if !signOK m then .error .semanticError
  else .ok ()

/-! ## `_check_cons` -/

/-- `context.get(arg.tag, arg.value)` -/
def argVal (ctx : Ctx) (a : FnArg) : Option Bytes :=
  match a.tag with
  | none => a.value
  | some t => match ctx.get? t with
    | some v => some v
    | none => a.value

def evalOpt (env : FnEnv) (c : Bytes) (ctx : Ctx) (o : ConsOption) : Except LvsErr Bool :=
  match o.value with
  | some v => .ok (c == v)
  | none =>
    match o.tag with
    | some t => .ok (ctx.get? t == some c)
    | none =>
      match o.fn with
      | none => .error .attributeError
      | some f =>
        match f.fnId with
        | none => .error .modelError
        | some id =>
          match env id with
          | none => .error .modelError
          | some g => g c (f.args.map (argVal ctx))

/-- one constraint: the first satisfied option wins -/
def evalClause (env : FnEnv) (c : Bytes) (ctx : Ctx) : List ConsOption → Except LvsErr Bool
  | [] => .ok false
  | o :: r =>
    match evalOpt env c ctx o with
    | .error e => .error e
    | .ok true => .ok true
    | .ok false => evalClause env c ctx r

/-- `_check_cons(value, context, cons_set)` -/
def checkCons (env : FnEnv) (c : Bytes) (ctx : Ctx) : List Constraint → Except LvsErr Bool
  | [] => .ok true
  | cl :: r =>
    match evalClause env c ctx cl with
    | .error e => .error e
    | .ok false => .ok false
    | .ok true => checkCons env c ctx r

/-! ## `_match` -/

/-- the move along one pattern edge: `none` = the edge refuses (`continue`); otherwise the new context
    and the entry pushed on `matches` -/
def tryEdge (env : FnEnv) (cnt : Nat) (pe : PEdge) (c : Bytes) (ctx : Ctx) :
    Except LvsErr (Option (Ctx × Option Nat)) :=
  match pe.tag with
  | none =>
    match checkCons env c ctx pe.cons with
    | .error e => .error e
    | .ok false => .ok none
    | .ok true => .error .typeError          -- `None <= named_pattern_cnt`
  | some t =>
    match ctx.get? t with
    | some v =>
      if v ≠ c then .ok none
      else match checkCons env c ctx pe.cons with
        | .error e => .error e
        | .ok false => .ok none
        | .ok true => .ok (some (ctx, none))
    | none =>
      match checkCons env c ctx pe.cons with
      | .error e => .error e
      | .ok false => .ok none
      | .ok true => if t ≤ cnt then .ok (some (ctx.set t c, some t)) else .ok (some (ctx, none))

/-- the first value edge whose value equals the component (its destination may be absent) -/
def firstV : List VEdge → Bytes → Option (Option Nat)
  | [], _ => none
  | ve :: r, c => if ve.value = some c then some ve.dest else firstV r c

/-- the local variables of `_match` -/
structure St where
  cur : Option Nat
  ei : Option Nat              -- `edge_index`; `none` is -1
  stk : List Nat               -- `edge_indices`, top first
  ctx : Ctx
  ms : List (Option Nat)       -- `matches`, top first; `none` is -1
  outs : List (Nat × Ctx)      -- what has been yielded so far
  err : Option LvsErr          -- an exception left the generator
  deriving Repr

def St.fail (S : St) (e : LvsErr) : St := { S with cur := none, err := some e }

/-- the `if backtrack:` block -/
def backtrack (node : Node) (S : St) : St :=
  { S with
    cur := node.parent
    ei := match S.stk with | [] => S.ei | i :: _ => some i
    stk := S.stk.tail
    ctx := match S.ms with | some t :: _ => PyDict.erase S.ctx t | _ => S.ctx
    ms := S.ms.tail }

/-- what the loop body does with one pattern edge (`tryEdge` in the checker; a parameter so that the
    search itself can be reasoned about separately from constraint evaluation) -/
abbrev EdgeFn := PEdge → Bytes → Ctx → Except LvsErr (Option (Ctx × Option Nat))

/-- one iteration of `while cur is not None:` -/
def stepG (m : Model) (g : EdgeFn) (name : List Bytes) (S : St) : St :=
  match S.cur with
  | none => S
  | some cur =>
    match m.nodes[cur]? with
    | none => S.fail .indexError
    | some node =>
      if S.stk.length = name.length then
        backtrack node { S with outs := S.outs ++ [(cur, S.ctx)] }
      else
        match name[S.stk.length]? with
        | none => S.fail .indexError
        | some c =>
          match S.ei with
          | none =>
            match firstV node.vEdges c with
            | some d => { S with cur := d, ei := none, stk := 0 :: S.stk, ms := none :: S.ms }
            | none => { S with ei := some 0 }
          | some i =>
            match node.pEdges[i]? with
            | none => backtrack node S
            | some pe =>
              match g pe c S.ctx with
              | .error e => S.fail e
              | .ok none => { S with ei := some (i + 1) }
              | .ok (some (ctx', mt)) =>
                { S with cur := pe.dest, ei := none, stk := (i + 1) :: S.stk, ctx := ctx', ms := mt :: S.ms }

/-- `k` iterations (the loop has ended when `cur` is `None`) -/
def runG (m : Model) (g : EdgeFn) (name : List Bytes) : Nat → St → St
  | 0, S => S
  | k + 1, S => if S.cur.isNone then S else runG m g name k (stepG m g name S)

def initSt (m : Model) (ctx : Ctx) : St :=
  { cur := some m.startId, ei := none, stk := [], ctx := ctx, ms := [], outs := [], err := none }

/-- the largest number of pattern edges of a node -/
def maxPE (m : Model) : Nat := m.nodes.foldr (fun n acc => max n.pEdges.length acc) 0

/-- an explicit bound on the number of loop iterations for a name of `k` components when no node has
    more than `e` pattern edges -/
def stepBound (e : Nat) : Nat → Nat
  | 0 => 1
  | k + 1 => e + 2 + (e + 1) * stepBound e k

/-- the same search, by structural recursion on the name (an edge whose evaluation raises is treated
    as refusing; the iterative search stops there instead, see `St.err`) -/
def matchTreeG (m : Model) (g : EdgeFn) : List Bytes → Nat → Ctx → List (Nat × Ctx)
  | [], n, ctx => [(n, ctx)]
  | c :: rest, n, ctx =>
    match m.nodes[n]? with
    | none => []
    | some node =>
      (match firstV node.vEdges c with
        | some (some d) => matchTreeG m g rest d ctx
        | _ => [])
      ++ node.pEdges.flatMap (fun pe =>
          match g pe c ctx with
          | .ok (some (ctx', _)) =>
            (match pe.dest with
              | some d => matchTreeG m g rest d ctx'
              | none => [])
          | _ => [])

/-- the checker's edge function -/
def edgeFn (m : Model) (env : FnEnv) : EdgeFn := tryEdge env m.namedCnt

/-- `_match(name, context)` run for `stepBound` iterations (enough on every sane model:
    theorem `match_terminates`) -/
def matchIter (m : Model) (env : FnEnv) (name : List Bytes) (ctx : Ctx) : St :=
  runG m (edgeFn m env) name (stepBound (maxPE m) name.length) (initSt m ctx)

/-- `_match` as a recursive function -/
def matchTree (m : Model) (env : FnEnv) (name : List Bytes) (n : Nat) (ctx : Ctx) : List (Nat × Ctx) :=
  matchTreeG m (edgeFn m env) name n ctx

/-! ## `match`, `check` -/

/-- `if Component.get_type(name[-1]) == TYPE_IMPLICIT_SHA256: name = name[:-1]` -/
def stripDigest (name : List Bytes) : Except LvsErr (List Bytes) :=
  match name.getLast? with
  | none => .error .indexError
  | some c =>
    match parseTlNum c 0 with
    | .ok (1, _) => .ok name.dropLast
    | .ok _ => .ok name
    | .error _ => .error .indexError

def ruleNamesOf (m : Model) (n : Nat) : List String :=
  match m.nodes[n]? with
  | some node => if node.ruleNames.isEmpty then ["#_" ++ toString n] else node.ruleNames
  | none => []

/-- `list(Checker.match(name))` with tag numbers instead of identifiers; an exception ends the list -/
def matchNames (m : Model) (env : FnEnv) (name : List Bytes) :
    Except LvsErr (List (List String × Ctx) × Option LvsErr) :=
  match stripDigest name with
  | .error e => .error e
  | .ok nm =>
    let S := matchIter m env nm []
    .ok (S.outs.map (fun o => (ruleNamesOf m o.1, o.2)), S.err)

/-- the inner loop of `check`: is one of the key's matches a listed signer? -/
def keyHit (signers : List Nat) (S : St) : Except LvsErr Bool :=
  if S.outs.any (fun o => signers.contains o.1) then .ok true
  else match S.err with
    | some e => .error e
    | none => .ok false

def signersOf (m : Model) (n : Nat) : List Nat :=
  match m.nodes[n]? with
  | some node => node.signCons
  | none => []

/-- the outer loop of `check` over the packet's matches, in the order they are yielded -/
def checkLoop (m : Model) (env : FnEnv) (key : List Bytes) :
    List (Nat × Ctx) → Option LvsErr → Except LvsErr Bool
  | [], none => .ok false
  | [], some e => .error e
  | (pn, ctx) :: r, oe =>
    match keyHit (signersOf m pn) (matchIter m env key ctx) with
    | .error e => .error e
    | .ok true => .ok true
    | .ok false => checkLoop m env key r oe

/-- `check` on names whose implicit digest has been stripped -/
def checkCore (m : Model) (env : FnEnv) (pkt key : List Bytes) : Except LvsErr Bool :=
  let P := matchIter m env pkt []
  checkLoop m env key P.outs P.err

/-- `Checker.check(pkt_name, key_name)` -/
def check (m : Model) (env : FnEnv) (pkt key : List Bytes) : Except LvsErr Bool :=
  match stripDigest pkt with
  | .error e => .error e
  | .ok p =>
    match stripDigest key with
    | .error e => .error e
    | .ok k => checkCore m env p k

end Ndn.Lvs
