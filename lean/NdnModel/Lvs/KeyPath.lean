import NdnModel.Lvs.Compile
import NdnModel.Lvs.SrcSem
/-!
  **Which name patterns share a node of the compiled tree** (property C13: "no name pattern is its own signer").

  `_generate_node` groups the rule chains of a context by component value / by the merge key that
  `RuleChain.pattern_movement` returns, so a chain ends at the node that its *merge-key path* leads to:

  * `keyPath rc` — the merge-key path of a rule chain as the compiler computes it (component values, and for a pattern
    the string `pattern_movement` returns given the tags met before): two chains end at the same node of the compiled
    tree iff their key paths are equal (`NdnProofs/Lemmas/Lvs/KeyPath.lean`).
  * `KeySelfSigning chains` — a signing cycle among key paths: the exact criterion for the loader's `SemanticError`.

  The same read at the level of the source text (`SrcSem.lean`: `Flat`, `Expands`):

  * `Flat.keys f` — what the key path of an expansion records without the compiler's numbering: component values;
    for a named pattern its identifier and, where it is met first, the constraints on it (each a list of options, in
    the order of the text: own constraint set first, then the inherited ones; where it is met again: none - constraints
    are evaluated once); for a temporary pattern its constraints.
    (A temporary pattern also has an identity — the number the compiler gave to that occurrence — which the source
    semantics deliberately does not have: "temporary patterns … won't interfere each other".)
  * `SrcKeySelfSigning S` — a signing cycle among the `Flat.keys` of the name patterns of the text.
-/
namespace Ndn.Lvs

/-! ### chains -/

/-- one step of a merge-key path: a component value, or the key of `pattern_movement` -/
inductive MKey where
  | lit (v : Bytes)
  | pat (key : String)
  deriving DecidableEq, Repr, Inhabited

/-- the merge keys of the components `atoms` of chain `rc`, the tags `prev` having been met before -/
def keyFrom (rc : Chain) : List Atom → List Int → List MKey
  | [], _ => []
  | .lit v :: r, prev => .lit v :: keyFrom rc r prev
  | .pat t :: r, prev => .pat (pmove rc t prev).2 :: keyFrom rc r (prev ++ [t])

/-- **the merge-key path of a rule chain** -/
def keyPath (rc : Chain) : List MKey := keyFrom rc rc.name []

/-- a chain with key path `p` lists as signer the identifier of a chain with key path `s` -/
def ChainKeySigns (chains : List Chain) (p s : List MKey) : Prop :=
  ∃ cp ∈ chains, ∃ ck ∈ chains, keyPath cp = p ∧ keyPath ck = s ∧ ck.id ∈ cp.sign

/-- a signing cycle among the key paths of the chains: a non-empty set of key paths, each the key path of a signer of a
    member -/
def KeySelfSigning (chains : List Chain) : Prop :=
  ∃ P : List MKey → Prop, (∃ s, P s) ∧ ∀ s, P s → ∃ p, P p ∧ ChainKeySigns chains p s

/-! ### the source text -/

/-- one position of the key of an expanded name pattern -/
inductive SKey where
  | lit (v : Bytes)
  /-- a named pattern with the constraints on it that are evaluated at this position: all of them where the pattern is
      met for the first time, none where it is met again -/
  | named (x : String) (cons : List (List (Opt String)))
  /-- a temporary pattern with its constraints -/
  | temp (cons : List (List (Opt String)))
  deriving DecidableEq, Repr, Inhabited

/-- the keys of the items, `seen` being the named patterns met before -/
def skeysFrom (ncons : List (String × List (Opt String))) : List SItem → List String → List SKey
  | [], _ => []
  | .lit v :: r, seen => .lit v :: skeysFrom ncons r seen
  | .temp tc :: r, seen => .temp tc :: skeysFrom ncons r seen
  | .named x :: r, seen =>
    .named x (if seen.contains x then [] else (ncons.filter (fun t => t.1 == x)).map (·.2)) ::
      skeysFrom ncons r (x :: seen)

/-- **the key of an expanded name pattern** -/
def Flat.keys (f : Flat) : List SKey := skeysFrom f.ncons f.items []

/-- a definition with a name pattern of key `p` lists as signer a rule that has a name pattern of key `s` -/
def SrcKeySigns (S : Schema) (p s : List SKey) : Prop :=
  ∃ r ∈ S.rules, ∃ f, ExpandsDef S r f ∧ f.keys = p ∧ ∃ q ∈ r.sign, ∃ g, Expands S q g ∧ g.keys = s

/-- "some name pattern is, directly or transitively, its own signer", name patterns being told apart by their keys -/
def SrcKeySelfSigning (S : Schema) : Prop :=
  ∃ P : List SKey → Prop, (∃ s, P s) ∧ ∀ s, P s → ∃ p, P p ∧ SrcKeySigns S p s

/-- no temporary pattern is written in a name pattern of the schema -/
def TempFree (S : Schema) : Prop := ∀ r ∈ S.rules, ∀ p, Comp.pat p ∈ r.name → isTempPat p = false

end Ndn.Lvs
