import NdnModel.Basic
import NdnModel.PyDict
import NdnModel.TlNum
/-!
  The binary Light VerSec model (`src/ndn/app_support/light_versec/binary.py`, class `LvsModel`)
  as it is after `LvsModel.parse` / as it leaves `compile_lvs`: plain structures, every TLV field that
  Python represents as `None` when absent is an `Option`.

  Not represented: `symbols` (tag -> identifier, used only to print bindings; the harness maps the
  tag numbers back), and a model whose `start_id` / `named_pattern_cnt` is absent (Python raises
  `TypeError` on first use; such models are outside the model's domain and are skipped by the harness).
-/
namespace Ndn.Lvs

/-- exception classes observable from `Checker(...)`, `Checker.match`, `Checker.check` -/
inductive LvsErr where
  | modelError      -- LvsModelError
  | semanticError   -- SemanticError (raised by `top_order` from inside `_sanity_check`)
  | indexError | typeError | attributeError
  | recursion       -- the dfs ran out of fuel (Python: RecursionError); unreachable on the fixed tree
  deriving DecidableEq, Repr, Inhabited

def LvsErr.name : LvsErr → String
  | .modelError => "LvsModelError" | .semanticError => "SemanticError" | .indexError => "IndexError"
  | .typeError => "TypeError" | .attributeError => "AttributeError" | .recursion => "RecursionError"

/-- `UserFnArg` -/
structure FnArg where
  value : Option Bytes
  tag : Option Nat
  deriving DecidableEq, Repr, Inhabited

/-- `UserFnCall` -/
structure FnCall where
  fnId : Option String
  args : List FnArg
  deriving DecidableEq, Repr, Inhabited

/-- `ConstraintOption`: value / tag / user function (each may be absent in a malformed model) -/
structure ConsOption where
  value : Option Bytes
  tag : Option Nat
  fn : Option FnCall
  deriving DecidableEq, Repr, Inhabited

/-- `PatternConstraint.options`: a disjunction -/
abbrev Constraint := List ConsOption

/-- `PatternEdge`; `cons` is a conjunction of disjunctions (CNF) -/
structure PEdge where
  dest : Option Nat
  tag : Option Nat
  cons : List Constraint
  deriving DecidableEq, Repr, Inhabited

/-- `ValueEdge` -/
structure VEdge where
  dest : Option Nat
  value : Option Bytes
  deriving DecidableEq, Repr, Inhabited

/-- `Node` -/
structure Node where
  id : Option Nat
  parent : Option Nat
  ruleNames : List String
  vEdges : List VEdge
  pEdges : List PEdge
  signCons : List Nat
  deriving DecidableEq, Repr, Inhabited

/-- `LvsModel` -/
structure Model where
  version : Option Nat
  startId : Nat
  namedCnt : Nat
  nodes : List Node
  deriving DecidableEq, Repr, Inhabited

/-- `binary.MIN_SUPPORTED_VERSION`, `binary.VERSION` -/
def minVersion : Nat := 0x00011000
def maxVersion : Nat := 0x00011000

/-- the match context: pattern tag -> component (a Python dict) -/
abbrev Ctx := PyDict Nat Bytes

/-- a user function as the checker calls it: `(value, args) -> bool`, or an exception -/
abbrev UserFn := Bytes → List (Option Bytes) → Except LvsErr Bool

/-- the `user_fns` dictionary -/
abbrev FnEnv := String → Option UserFn

/-- all destinations of the edges of a node, value edges first (the order `dfs` follows) -/
def Node.dests (n : Node) : List (Option Nat) := n.vEdges.map (·.dest) ++ n.pEdges.map (·.dest)

end Ndn.Lvs
