import NdnModel.Lvs.Ast
import NdnModel.Lvs.Sem
/-!
  **Source-level semantics of a Light VerSec schema** — what docs/src/lvs/lvs.rst says a schema means,
  written against the parsed text (`Ast.lean`: `Schema`, `SRule`) and nothing else: no pattern numbers, no
  rule chains, no tree, no sorting of the rules.

  * A *name pattern* is a sequence of component values, component patterns and embedded rules ("In LVS, you can
    embed a rule in a name pattern … `#ndn/user/#key` for short").  `Expands S rid f`: replacing every embedded rule
    by (any) one of its definitions, recursively, turns a definition of `rid` into the *flat* pattern `f` —
    a list of items
      - `lit v`      a component value: matches exactly that component,
      - `named x`    a (named) pattern: "can match only one arbitrary component, even [if] the pattern occurs more
                     than once" — also across embedded rules, whose named patterns are the same variables,
      - `temp tc`    a temporary pattern (`_x`): "not memorized … they won't interfere each other"; it "can be
                     constrained": `tc` are the constraints its own definition puts on `_x` (each a list of options).
                     A temporary identifier is local to one occurrence of the definition that writes it, so the item
                     simply carries its constraints and no identity is needed,
    together with the constraints on named patterns `ncons`: those of the definition's constraint set and, "if a rule's
    name pattern refers to other rules, the component constraints of those rules will be inherited".
    "LVS allows multiple constraint sets to be given to a rule, separated by `|`.  In that case, any constraint set
    holds will lead to a successful matching": every constraint set is an alternative (`altsOf`), and so is every
    definition of a rule identifier that is defined several times.  A temporary rule (`#_x`) "is not allowed to be
    used in a name pattern".
  * `flatRun fns f.ncons f.items [] σ name`: matching left to right.  "The name must have the same length as the name
    pattern, and every valued component must be exactly the same"; a named pattern binds the component, or must repeat
    its binding (bindings `σ` may be carried over from the packet name when a key name is matched); "a name must
    satisfy all constraints required in a constraint set": every constraint on a pattern has an option that holds —
    a component value equals the component; a pattern must be bound to the component ("`/a/b/c & {b: c}` will match
    nothing by itself, because `c` does not have a value when `b` is matched": options are evaluated, once, where the
    pattern is first met, against the bindings made so far); a user function is called with "the value of the pattern
    constrained, and … a list containing all arguments" (an unbound pattern argument is `None`).
  * `SrcMatches S fns rid σ name σ'`: `name` matches rule `rid` of schema `S`, starting from bindings `σ`, ending with `σ'`.

  `flatsOfRule` / `srcMatch` are the same as executable functions (the recursion through embedded rules bounded by the
  number of rules, enough for a schema without cyclic references: `NdnProofs/Lemmas/Lvs/SrcExec.lean`); the model
  drivers answer `src-match` with them, and the harness compares the answer with the real `Checker.match` on every
  generated schema and name.
-/
namespace Ndn.Lvs

/-- source-level bindings: identifier of a named pattern → component -/
abbrev SCtx := PyDict String Bytes

/-- one position of a name pattern after all embedded rules were replaced -/
inductive SItem where
  | lit (v : Bytes)
  | named (p : String)
  | temp (cons : List (List (Opt String)))
  deriving DecidableEq, Repr, Inhabited

/-- a definition with its embedded rules replaced: items, and the constraints on named patterns (own and inherited) -/
structure Flat where
  items : List SItem
  ncons : List (String × List (Opt String))
  deriving DecidableEq, Repr, Inhabited

/-- the alternative constraint sets of a definition (none written: one empty set) -/
def altsOf (r : SRule) : List (List (Term String String)) := if r.cons.isEmpty then [[]] else r.cons

/-- the constraints a constraint set puts on the temporary pattern `p` -/
def tempCons (cs : List (Term String String)) (p : String) : List (List (Opt String)) :=
  (cs.filter (fun t => t.pat == p)).map (·.opts)

/-- the constraints a constraint set puts on named patterns -/
def namedCons (cs : List (Term String String)) : List (String × List (Opt String)) :=
  (cs.filter (fun t => !isTempPat t.pat)).map (fun t => (t.pat, t.opts))

mutual
/-- the name pattern `comps` of a definition with constraint set `cs` expands to `f` -/
inductive ExpandsName (S : Schema) : List (Term String String) → List (Comp String) → Flat → Prop
  | nil {cs} : ExpandsName S cs [] ⟨[], []⟩
  | lit {cs v r f} : ExpandsName S cs r f → ExpandsName S cs (.lit v :: r) ⟨.lit v :: f.items, f.ncons⟩
  | named {cs p r f} : isTempPat p = false → ExpandsName S cs r f →
      ExpandsName S cs (.pat p :: r) ⟨.named p :: f.items, f.ncons⟩
  | temp {cs p r f} : isTempPat p = true → ExpandsName S cs r f →
      ExpandsName S cs (.pat p :: r) ⟨.temp (tempCons cs p) :: f.items, f.ncons⟩
  | ref {cs q r g f} : isTempRule q = false → Expands S q g → ExpandsName S cs r f →
      ExpandsName S cs (.ref q :: r) ⟨g.items ++ f.items, g.ncons ++ f.ncons⟩
/-- rule `rid` expands to `f`: some definition of `rid`, with one of its constraint sets -/
inductive Expands (S : Schema) : String → Flat → Prop
  | mk {r cs f} : r ∈ S.rules → cs ∈ altsOf r → ExpandsName S cs r.name f →
      Expands S r.id ⟨f.items, namedCons cs ++ f.ncons⟩
end

/-- one definition `r` expands to `f` (with one of its constraint sets) -/
def ExpandsDef (S : Schema) (r : SRule) (f : Flat) : Prop :=
  ∃ cs ∈ altsOf r, ∃ f0, ExpandsName S cs r.name f0 ∧ f = ⟨f0.items, namedCons cs ++ f0.ncons⟩

/-- the value a user-function argument denotes -/
def sArg (σ : SCtx) : Arg String → Option Bytes
  | .lit v => some v
  | .pat p => σ.get? p

/-- one constraint option holds for component `c` under the bindings `σ` -/
def sOptSat (fns : PureEnv) (σ : SCtx) (c : Bytes) : Opt String → Bool
  | .lit v => decide (c = v)
  | .pat p => decide (σ.get? p = some c)
  | .fn f args => fns f c (args.map (sArg σ))

/-- every constraint has an option that holds -/
def consHold (fns : PureEnv) (σ : SCtx) (c : Bytes) (tc : List (List (Opt String))) : Bool :=
  tc.all fun os => os.any (sOptSat fns σ c)

/-- matching the items against the components, left to right; `seen`: the named patterns already met -/
def flatRun (fns : PureEnv) (ncons : List (String × List (Opt String))) :
    List SItem → List String → SCtx → List Bytes → Option SCtx
  | [], _, σ, [] => some σ
  | [], _, _, _ :: _ => none
  | _ :: _, _, _, [] => none
  | .lit v :: is, seen, σ, c :: cs => if c = v then flatRun fns ncons is seen σ cs else none
  | .temp tc :: is, seen, σ, c :: cs => if consHold fns σ c tc then flatRun fns ncons is seen σ cs else none
  | .named x :: is, seen, σ, c :: cs =>
    if seen.contains x || consHold fns σ c ((ncons.filter (fun t => t.1 == x)).map (·.2)) then
      match σ.get? x with
      | some v => if v = c then flatRun fns ncons is (x :: seen) σ cs else none
      | none => flatRun fns ncons is (x :: seen) (σ.set x c) cs
    else none

/-- `name` matches the expanded definition `f` from bindings `σ`, ending with `σ'` -/
def Flat.run (fns : PureEnv) (f : Flat) (σ : SCtx) (name : List Bytes) : Option SCtx :=
  flatRun fns f.ncons f.items [] σ name

/-- **the meaning of a schema**: `name` matches rule `rid` as written, from bindings `σ`, ending with bindings `σ'` -/
def SrcMatches (S : Schema) (fns : PureEnv) (rid : String) (σ : SCtx) (name : List Bytes) (σ' : SCtx) : Prop :=
  ∃ f, Expands S rid f ∧ f.run fns σ name = some σ'

/-! ### signing between name patterns (property C13) -/

/-- the shape of an expanded name pattern: its length and where which component values stand (`none`: a pattern) -/
def SItem.shape : SItem → Option Bytes
  | .lit v => some v
  | _ => none

def Flat.shape (f : Flat) : List (Option Bytes) := f.items.map SItem.shape

/-- a definition with a name pattern of shape `p` lists as signer a rule that has a name pattern of shape `s` -/
def ShapeSigns (S : Schema) (p s : List (Option Bytes)) : Prop :=
  ∃ r ∈ S.rules, ∃ f, ExpandsDef S r f ∧ f.shape = p ∧ ∃ q ∈ r.sign, ∃ g, Expands S q g ∧ g.shape = s

/-- "some name pattern is, directly or transitively, its own signer", judged by shapes (two name patterns of one
    shape may be one node of the compiled tree): a non-empty set of shapes, each the shape of a signer of a member -/
def ShapeSelfSigning (S : Schema) : Prop :=
  ∃ P : List (Option Bytes) → Prop, (∃ s, P s) ∧ ∀ s, P s → ∃ p, P p ∧ ShapeSigns S p s

/-! ### the same, executable -/

/-- all expansions of a name pattern; `sub q`: the expansions of rule `q` -/
def flatsOfName (sub : String → List Flat) (cs : List (Term String String)) : List (Comp String) → List Flat
  | [] => [⟨[], []⟩]
  | .lit v :: r => (flatsOfName sub cs r).map fun f => ⟨.lit v :: f.items, f.ncons⟩
  | .pat p :: r =>
    (flatsOfName sub cs r).map fun f =>
      ⟨(if isTempPat p then .temp (tempCons cs p) else .named p) :: f.items, f.ncons⟩
  | .ref q :: r =>
    if isTempRule q then []
    else (sub q).flatMap fun g => (flatsOfName sub cs r).map fun f => ⟨g.items ++ f.items, g.ncons ++ f.ncons⟩

/-- all expansions of one definition -/
def flatsOfDef (sub : String → List Flat) (r : SRule) : List Flat :=
  (altsOf r).flatMap fun cs => (flatsOfName sub cs r.name).map fun f => ⟨f.items, namedCons cs ++ f.ncons⟩

/-- all expansions of rule `rid`, embedded rules nested at most `fuel` deep -/
def flatsOfRule (S : Schema) : Nat → String → List Flat
  | 0, _ => []
  | fuel + 1, rid => (S.rules.filter (fun r => r.id == rid)).flatMap (flatsOfDef (flatsOfRule S fuel))

/-- `[(rule identifier, bindings)]`: every match of `name`, definition by definition in file order -/
def srcMatch (S : Schema) (fns : PureEnv) (σ : SCtx) (name : List Bytes) : List (String × SCtx) :=
  S.rules.flatMap fun r =>
    (flatsOfDef (flatsOfRule S S.rules.length) r).filterMap fun f =>
      match f.run fns σ name with
      | some σ' => some (r.id, σ')
      | none => none

end Ndn.Lvs
