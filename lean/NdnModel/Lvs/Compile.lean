import NdnModel.Lvs.Ast
/-!
  Model of `src/ndn/app_support/light_versec/compiler.py` (`Compiler.compile` and its passes), from the
  parsed AST (`Ast.lean`) to the binary model value (`Model.lean`).

  The passes and their iteration orders are those of the code:

  * `sortRuleReferences`  (`_sort_rule_references`, `top_order`): temporary rules are renamed `#_x#k`,
    references to undefined / temporary rules are refused, the rule identifiers are sorted topologically
    (Kahn rounds, each round sorted as strings, the whole list reversed) and the rules are stably sorted by
    the position of their identifier;
  * `genPatternNumbers`   (`_gen_pattern_numbers`): first every name pattern is numbered (a named pattern
    gets the next positive number the first time it is seen anywhere; every occurrence of a temporary
    pattern gets the next negative number), then the constraints are resolved (`KeyError` → `SemanticError`);
  * `replicateRules`      (`_replicate_rules`, `_fresh_temp_tags`): DNF alternatives × inlined references;
  * `genNode`             (`_generate_node`, `RuleChain.pattern_movement`): the merge of all chains into a tree;
  * `fixSigning`          (`_fix_signing_references`).

  Differences of representation (each is an equality of values, checked on every run by the node-pool
  comparison with the real `compile_lvs`):

  * `named_pats` is the list of identifiers in insertion order; the number of an identifier is its
    position + 1 (Python keeps the counter `next_named = len(named_pats) + 1`);
  * `top_order` keeps in-degree counters; the model recomputes "in-degree 0" from the nodes not yet emitted
    (the counter of a node always equals the number of edges into it from nodes not yet emitted);
  * `_generate_node` appends to `self.node_pool` and recurses; the model returns the nodes of the subtree in
    the order they are appended (the subtree of a node occupies a contiguous block that starts with the
    node itself), and threads `temp_tag_index` the same way.  `rule_node_ids[r]` is then the list of ids of
    the nodes that carry `r`, in pool order with multiplicity, which is the order the code appends them in;
  * Python's recursion is replaced by fuel (`CErr.fuel` when exhausted: never, see `NdnProofs`);
    a `KeyError` that would escape (`rep_rules[comp.id]`) is `CErr.key` (unreachable after pass 1).
-/
namespace Ndn.Lvs

/-- exceptions leaving `Compiler.compile` -/
inductive CErr where
  | semantic     -- SemanticError
  | key          -- an escaping KeyError (unreachable)
  | fuel         -- the model's recursion fuel ran out (unreachable)
  deriving DecidableEq, Repr, Inhabited

def CErr.name : CErr → String
  | .semantic => "SemanticError" | .key => "KeyError" | .fuel => "RecursionError"

/-- `Except`-valued map with explicit matches (easier to reason about than `List.mapM`) -/
def mapE {α β ε : Type} (f : α → Except ε β) : List α → Except ε (List β)
  | [] => .ok []
  | a :: r =>
    match f a with
    | .error e => .error e
    | .ok b =>
      match mapE f r with
      | .error e => .error e
      | .ok bs => .ok (b :: bs)

/-- insertion into a sorted list, before the first element that is not smaller -/
def insertBy {α : Type} (le : α → α → Bool) (a : α) : List α → List α
  | [] => [a]
  | b :: r => if le a b then a :: b :: r else b :: insertBy le a r

/-- `sorted(l, key=...)`: a stable sort (insertion sort, by structural recursion so that the kernel can
    evaluate it; elements with equal keys keep their order, as with Python's `list.sort`) -/
def isort {α : Type} (le : α → α → Bool) : List α → List α
  | [] => []
  | a :: r => insertBy le a (isort le r)

/-- `sorted(set(l))` -/
def sortDedup {α : Type} [BEq α] (le : α → α → Bool) (l : List α) : List α := isort le l.eraseDups

def strLe (a b : String) : Bool := decide (a ≤ b)
def bytesLe (a b : Bytes) : Bool := decide (a ≤ b)

/-! ## pass 1: `_sort_rule_references` -/

/-- `rule.id.id += f'#{temp_rule_number}'` for temporary rules, numbered from `k` in file order -/
def renameTemps : List SRule → Nat → List SRule
  | [], _ => []
  | r :: rs, k =>
    if isTempRule r.id then { r with id := r.id ++ "#" ++ toString k } :: renameTemps rs (k + 1)
    else r :: renameTemps rs k

/-- `rule_id_set` -/
def ruleIds (rules : List SRule) : List String := (rules.map (·.id)).eraseDups

/-- a reference the first loop refuses: not a defined rule, or a temporary one -/
def badRef (ids : List String) (c : String) : Bool := !ids.contains c || isTempRule c

/-- `adj_lst[id]`: the references of every definition of `id`, in file order, with repetitions -/
def adjOf (rules : List SRule) (id : String) : List String :=
  (rules.filter (·.id == id)).flatMap (fun r => refsOf r.name)

/-- the value of `in_degs[n]` while the nodes `rem` have not been emitted -/
def inDeg (rem : List String) (adj : String → List String) (n : String) : Nat := (rem.flatMap adj).count n

/-- the rounds of `top_order`'s `while` loop; the result is `ret` before it is reversed -/
def topRounds : Nat → List String → (String → List String) → Except CErr (List String)
  | _, [], _ => .ok []
  | 0, _ :: _, _ => .error .fuel
  | f + 1, rem, adj =>
    let ready := isort strLe (rem.filter (fun n => inDeg rem adj n == 0))
    if ready.isEmpty then .error .semantic          -- "Loop detected"
    else
      match topRounds f (rem.filter (fun n => !ready.contains n)) adj with
      | .error e => .error e
      | .ok rest => .ok (ready ++ rest)

/-- `top_order(nodes, graph)` for a graph whose edges stay inside `nodes` -/
def topOrder (ids : List String) (adj : String → List String) : Except CErr (List String) :=
  match topRounds ids.length ids adj with
  | .error e => .error e
  | .ok l => .ok l.reverse

/-- `_sort_rule_references`: the sorted rules (temporaries renamed) -/
def sortRuleReferences (S : Schema) : Except CErr (List SRule) :=
  let rules := renameTemps S.rules 1
  let ids := ruleIds rules
  if (rules.flatMap (fun r => refsOf r.name)).any (badRef ids) then .error .semantic
  else
    match topOrder ids (adjOf rules) with
    | .error e => .error e
    | .ok order => .ok (isort (fun a b => decide (order.idxOf a.id ≤ order.idxOf b.id)) rules)

/-! ## pass 2: `_gen_pattern_numbers` -/

/-- `named_pats[p]` -/
def tagOf (named : List String) (p : String) : Option Nat :=
  if named.contains p then some (named.idxOf p + 1) else none

/-- numbering state: `named_pats` (keys in insertion order) and `next_temp` -/
structure NumSt where
  named : List String
  nextTemp : Int
  deriving Repr, Inhabited

/-- the inner loop over `rule.name.p`; the third component is `temp_pats` of the rule -/
def numberName : List (Comp String) → NumSt → PyDict String (List Int) →
    List (Comp Int) × NumSt × PyDict String (List Int)
  | [], st, tp => ([], st, tp)
  | .lit v :: r, st, tp =>
    match numberName r st tp with
    | (r', st', tp') => (.lit v :: r', st', tp')
  | .ref i :: r, st, tp =>
    match numberName r st tp with
    | (r', st', tp') => (.ref i :: r', st', tp')
  | .pat p :: r, st, tp =>
    if isTempPat p then
      let tp1 := PyDict.set tp p ((match PyDict.get? tp p with | some l => l | none => []) ++ [st.nextTemp])
      match numberName r { st with nextTemp := st.nextTemp - 1 } tp1 with
      | (r', st', tp') => (.pat st.nextTemp :: r', st', tp')
    else
      match tagOf st.named p with
      | some k =>
        match numberName r st tp with
        | (r', st', tp') => (.pat (Int.ofNat k) :: r', st', tp')
      | none =>
        match numberName r { st with named := st.named ++ [p] } tp with
        | (r', st', tp') => (.pat (Int.ofNat (st.named.length + 1)) :: r', st', tp')

/-- the first loop over the rules: numbered names with the rule's `temp_pats` -/
def numberNames : List SRule → NumSt → List (SRule × List (Comp Int) × PyDict String (List Int)) × NumSt
  | [], st => ([], st)
  | r :: rs, st =>
    match numberName r.name st [] with
    | (nm, st1, tp) =>
      match numberNames rs st1 with
      | (rest, st2) => ((r, nm, tp) :: rest, st2)

/-- a pattern on the right-hand side of a constraint: named and known, else `SemanticError` -/
def numRhs (named : List String) (p : String) : Except CErr Int :=
  if isTempPat p then .error .semantic
  else match tagOf named p with
    | some k => .ok (Int.ofNat k)
    | none => .error .semantic

def numArg (named : List String) : Arg String → Except CErr (Arg Int)
  | .lit v => .ok (.lit v)
  | .pat p => match numRhs named p with | .ok k => .ok (.pat k) | .error e => .error e

def numOpt (named : List String) : Opt String → Except CErr (Opt Int)
  | .lit v => .ok (.lit v)
  | .pat p => match numRhs named p with | .ok k => .ok (.pat k) | .error e => .error e
  | .fn f args => match mapE (numArg named) args with | .ok as => .ok (.fn f as) | .error e => .error e

/-- the constrained pattern: every occurrence of a temporary of this rule, or the number of a named one -/
def numLhs (named : List String) (tp : PyDict String (List Int)) (p : String) : Except CErr (List Int) :=
  if isTempPat p then
    match PyDict.get? tp p with | some l => .ok l | none => .error .semantic
  else match tagOf named p with
    | some k => .ok [Int.ofNat k]
    | none => .error .semantic

def numTerm (named : List String) (tp : PyDict String (List Int)) (t : Term String String) : Except CErr NTerm :=
  match numLhs named tp t.pat with
  | .error e => .error e
  | .ok ids =>
    match mapE (numOpt named) t.opts with
    | .error e => .error e
    | .ok os => .ok { pat := ids, opts := os }

def numRule (named : List String) (x : SRule × List (Comp Int) × PyDict String (List Int)) : Except CErr NRule :=
  match mapE (mapE (numTerm named x.2.2)) x.1.cons with
  | .error e => .error e
  | .ok cons => .ok { id := x.1.id, name := x.2.1, cons := cons, sign := x.1.sign }

/-- `_gen_pattern_numbers`: the numbered rules and `named_pats` -/
def genPatternNumbers (rules : List SRule) : Except CErr (List NRule × List String) :=
  match numberNames rules { named := [], nextTemp := -1 } with
  | (xs, st) =>
    match mapE (numRule st.named) xs with
    | .error e => .error e
    | .ok nrules => .ok (nrules, st.named)

/-! ## pass 3: `_replicate_rules` -/

/-- a component of a `RuleChain.name` (references are inlined) -/
inductive Atom where
  | lit (v : Bytes)
  | pat (t : Int)
  deriving DecidableEq, Repr, Inhabited

/-- `Compiler.RuleChain` -/
structure Chain where
  id : String
  name : List Atom
  cons : List NTerm
  sign : List String
  deriving DecidableEq, Repr, Inhabited

def Chain.tags (c : Chain) : List Int := c.name.filterMap fun a => match a with | .pat t => some t | _ => none

/-- the loop of `_fresh_temp_tags` over `ref_chain.name`: new name, `self.next_temp`, `mapping` -/
def freshName (used : List Int) : List Atom → Int → PyDict Int Int → List Atom × Int × PyDict Int Int
  | [], nt, mp => ([], nt, mp)
  | .lit v :: r, nt, mp =>
    match freshName used r nt mp with
    | (r', nt', mp') => (.lit v :: r', nt', mp')
  | .pat t :: r, nt, mp =>
    if t < 0 && used.contains t then
      match freshName used r (nt - 1) (PyDict.set mp t nt) with
      | (r', nt', mp') => (.pat nt :: r', nt', mp')
    else
      match freshName used r nt mp with
      | (r', nt', mp') => (.pat t :: r', nt', mp')

def renameTag (mp : PyDict Int Int) (i : Int) : Int := match PyDict.get? mp i with | some j => j | none => i

/-- `_fresh_temp_tags(chain, ref_chain)` (an identifier outside `mapping` is kept, so the code's two
    early exits, "no mapping" and "no id of this constraint mapped", give the same value) -/
def freshTempTags (chain ref : Chain) (nt : Int) : Chain × Int :=
  match freshName chain.tags ref.name nt [] with
  | (name, nt', mp) =>
    ({ id := ref.id, name := name,
       cons := ref.cons.map (fun t => { t with pat := t.pat.map (renameTag mp) }), sign := ref.sign }, nt')

/-- `for chain in cur_chains` (inner loop of the comprehension) -/
def inlineInner (rid : String) (refc : Chain) : List Chain → Int → List Chain × Int
  | [], nt => ([], nt)
  | ch :: r, nt =>
    match freshTempTags ch refc nt with
    | (fr, nt1) =>
      match inlineInner rid refc r nt1 with
      | (rest, nt2) =>
        ({ id := rid, name := ch.name ++ fr.name, cons := ch.cons ++ fr.cons, sign := ch.sign } :: rest, nt2)

/-- `for ref_chain in self.rep_rules[comp.id]` (outer loop) -/
def inlineRef (rid : String) : List Chain → List Chain → Int → List Chain × Int
  | [], _, nt => ([], nt)
  | refc :: rs, cur, nt =>
    match inlineInner rid refc cur nt with
    | (a, nt1) =>
      match inlineRef rid rs cur nt1 with
      | (b, nt2) => (a ++ b, nt2)

def Chain.snoc (ch : Chain) (a : Atom) : Chain := { ch with name := ch.name ++ [a] }

/-- `for comp in rule.name.p` -/
def expandName (rid : String) (rep : PyDict String (List Chain)) :
    List (Comp Int) → List Chain → Int → Except CErr (List Chain × Int)
  | [], cur, nt => .ok (cur, nt)
  | .lit v :: r, cur, nt => expandName rid rep r (cur.map (·.snoc (.lit v))) nt
  | .pat t :: r, cur, nt => expandName rid rep r (cur.map (·.snoc (.pat t))) nt
  | .ref i :: r, cur, nt =>
    match PyDict.get? rep i with
    | none => .error .key
    | some reps =>
      match inlineRef rid reps cur nt with
      | (cur', nt') => expandName rid rep r cur' nt'

/-- the chains a rule starts with: one per constraint set (one without constraints if there is none) -/
def initChains (r : NRule) : List Chain :=
  let sign := isort strLe r.sign
  if r.cons.isEmpty then [{ id := r.id, name := [], cons := [], sign := sign }]
  else r.cons.map (fun cs => { id := r.id, name := [], cons := cs, sign := sign })

/-- `if rule.id.id not in self.rep_rules: self.rep_rules[rule.id.id] = cur_chains else: ... += cur_chains` -/
def repAdd (rep : PyDict String (List Chain)) (id : String) (cur : List Chain) : PyDict String (List Chain) :=
  match PyDict.get? rep id with
  | none => PyDict.set rep id cur
  | some old => PyDict.set rep id (old ++ cur)

/-- the loop of `_replicate_rules` over the (sorted) rules -/
def replicateLoop : List NRule → PyDict String (List Chain) → Int → Except CErr (PyDict String (List Chain))
  | [], rep, _ => .ok rep
  | r :: rs, rep, nt =>
    match expandName r.id rep r.name (initChains r) nt with
    | .error e => .error e
    | .ok (cur, nt') =>
      replicateLoop rs (repAdd rep r.id cur) nt'

/-- `min([int(c.id) ...] + [0]) - 1` -/
def firstFreshTemp (rules : List NRule) : Int :=
  (rules.flatMap (fun r => patsOf r.name)).foldl min 0 - 1

def replicateRules (rules : List NRule) : Except CErr (PyDict String (List Chain)) :=
  replicateLoop rules [] (firstFreshTemp rules)

/-! ## pass 4: `_generate_node` -/

def argStr : Arg Int → String
  | .lit v => "v=" ++ toHex v
  | .pat t => "t=" ++ toString t

def optStr : Opt Int → String
  | .lit v => "v=" ++ toHex v
  | .pat t => "t=" ++ toString t
  | .fn f args => f ++ "(" ++ String.join (args.map argStr) ++ ")"

/-- the text `pattern_movement` appends for one constraint -/
def termStr (t : NTerm) : String := "{" ++ String.join (t.opts.map (fun o => optStr o ++ ",")) ++ "}"

def encArg : Arg Int → FnArg
  | .lit v => { value := some v, tag := none }
  | .pat t => { value := none, tag := some t.toNat }

def encOpt : Opt Int → ConsOption
  | .lit v => { value := some v, tag := none, fn := none }
  | .pat t => { value := none, tag := some t.toNat, fn := none }
  | .fn f args => { value := none, tag := none, fn := some { fnId := some f, args := args.map encArg } }

def encTerm (t : NTerm) : Constraint := t.opts.map encOpt

/-- `RuleChain.pattern_movement(depth, prev_tags)` for a chain whose component at `depth` is the pattern
    `tag`: the constraints of the edge and the merge key -/
def pmove (rc : Chain) (tag : Int) (prev : List Int) : List Constraint × String :=
  if prev.contains tag then ([], toString tag ++ ":")
  else
    let cs := rc.cons.filter (fun t => t.pat.contains tag)
    (cs.map encTerm, toString tag ++ ":" ++ String.join (cs.map termStr))

/-- `pmove` depends on `prev_tags` only through "is the tag already in it" -/
def pmoveB (rc : Chain) (tag : Int) (inPrev : Bool) : List Constraint × String :=
  if inPrev then ([], toString tag ++ ":")
  else
    let cs := rc.cons.filter (fun t => t.pat.contains tag)
    (cs.map encTerm, toString tag ++ ":" ++ String.join (cs.map termStr))

/-- a computable test that the merge key determines tag and constraints on these chains (the hypothesis
    `KeyInj` of the node-merging theorem; the drivers report it for every compiled schema) -/
def keyInjB (chains : List Chain) : Bool :=
  chains.all fun rc₁ => chains.all fun rc₂ => rc₁.tags.all fun t₁ => rc₂.tags.all fun t₂ =>
    [true, false].all fun b₁ => [true, false].all fun b₂ =>
      if t₁ = t₂ ∧ b₁ ≠ b₂ then true
      else if (pmoveB rc₁ t₁ b₁).2 == (pmoveB rc₂ t₂ b₂).2 then
        decide (t₁ = t₂) && (pmoveB rc₁ t₁ b₁).1 == (pmoveB rc₂ t₂ b₂).1
      else true

/-- one edge to generate: a value edge (`value = some v`) or a pattern edge (`tag`, `cons`), the chains that
    follow it and the `previous_tags` of the child -/
structure Move where
  value : Option Bytes
  tag : Int
  cons : List Constraint
  ctx : List Chain
  prev : List Int
  deriving Repr, Inhabited

def litAt (depth : Nat) (rc : Chain) : Option Bytes :=
  match rc.name[depth]? with | some (.lit v) => some v | _ => none

def patAt (depth : Nat) (rc : Chain) : Option Int :=
  match rc.name[depth]? with | some (.pat t) => some t | _ => none

/-- "Value movements": one per distinct component value, sorted -/
def vMoves (depth : Nat) (ctx : List Chain) (prev : List Int) : List Move :=
  (sortDedup bytesLe (ctx.filterMap (litAt depth))).map fun v =>
    { value := some v, tag := 0, cons := [], ctx := ctx.filter (fun rc => litAt depth rc == some v), prev := prev }

/-- `p_moves`: (tag, constraints, key, chain) -/
def pMovesRaw (depth : Nat) (ctx : List Chain) (prev : List Int) : List (Int × List Constraint × String × Chain) :=
  ctx.filterMap fun rc =>
    match patAt depth rc with
    | some t => some (t, (pmove rc t prev).1, (pmove rc t prev).2, rc)
    | none => none

/-- "Pattern movements": one per distinct key, sorted by key; tag and constraints of the first chain with that key -/
def pMoves (depth : Nat) (ctx : List Chain) (prev : List Int) : List Move :=
  let raw := pMovesRaw depth ctx prev
  (sortDedup strLe (raw.map (·.2.2.1))).filterMap fun s =>
    match raw.filter (fun pm => pm.2.2.1 == s) with
    | [] => none
    | pm :: rest =>
      some { value := none, tag := pm.1, cons := pm.2.1, ctx := (pm :: rest).map (·.2.2.2), prev := prev ++ [pm.1] }

/-- a node as `_generate_node` leaves it: signers are still rule identifiers -/
structure PreNode where
  id : Nat
  parent : Option Nat
  ruleNames : List String
  signStr : List String
  vEdges : List VEdge
  pEdges : List PEdge
  deriving Repr, Inhabited

/-- the two `for` loops over the moves of a node.  `child ctx prev base tidx` generates the subtree whose
    root gets id `base`; answers the edges, the nodes appended, and `temp_tag_index` -/
def genMoves (child : List Chain → List Int → Nat → Nat → Except CErr (List PreNode × Nat)) :
    List Move → Nat → Nat → Except CErr (List VEdge × List PEdge × List PreNode × Nat)
  | [], _, tidx => .ok ([], [], [], tidx)
  | mv :: r, base, tidx =>
    -- `self.temp_tag_index += 1` for a temporary pattern, before the child is generated
    let tidx1 := if mv.value.isNone && mv.tag < 0 then tidx + 1 else tidx
    match child mv.ctx mv.prev base tidx1 with
    | .error e => .error e
    | .ok (sub, tidx2) =>
      match genMoves child r (base + sub.length) tidx2 with
      | .error e => .error e
      | .ok (ves, pes, rest, tidx3) =>
        match mv.value with
        | some v => .ok ({ dest := some base, value := some v } :: ves, pes, sub ++ rest, tidx3)
        | none =>
          .ok (ves, { dest := some base, tag := some (if mv.tag < 0 then tidx1 else mv.tag.toNat), cons := mv.cons } :: pes,
               sub ++ rest, tidx3)

/-- `_generate_node(depth, context, parent, previous_tags)` when `len(self.node_pool) = base` and
    `self.temp_tag_index = tidx`: the nodes appended (the first is the node itself) and the new index -/
def genNode : Nat → Nat → List Chain → Option Nat → List Int → Nat → Nat → Except CErr (List PreNode × Nat)
  | fuel, depth, ctx, parent, prev, base, tidx =>
    let ended := ctx.filter (fun rc => rc.name.length == depth)
    let ctx' := ctx.filter (fun rc => !(rc.name.length == depth))
    let mk : List VEdge → List PEdge → PreNode := fun ves pes =>
      { id := base, parent := parent, ruleNames := ended.map (·.id), signStr := ended.flatMap (·.sign),
        vEdges := ves, pEdges := pes }
    match vMoves depth ctx' prev ++ pMoves depth ctx' prev with
    | [] => .ok ([mk [] []], tidx)
    | mv :: mvs =>
      match fuel with
      | 0 => .error .fuel
      | f + 1 =>
        match genMoves (fun c p b t => genNode f (depth + 1) c (some base) p b t) (mv :: mvs) (base + 1) tidx with
        | .error e => .error e
        | .ok (ves, pes, sub, tidx') => .ok (mk ves pes :: sub, tidx')

/-! ## pass 5: `_fix_signing_references` -/

/-- `rule_node_ids[rid]` (empty = the key is absent) -/
def ruleNodeIds (pool : List PreNode) (rid : String) : List Nat :=
  pool.flatMap fun n => (n.ruleNames.filter (· == rid)).map (fun _ => n.id)

def signersOfStr (pool : List PreNode) : List String → Except CErr (List Nat)
  | [] => .ok []
  | rid :: r =>
    match ruleNodeIds pool rid with
    | [] => .error .semantic          -- "Signed by a non-existing key"
    | k :: ks =>
      match signersOfStr pool r with
      | .error e => .error e
      | .ok rest => .ok (k :: ks ++ rest)

def fixNode (pool : List PreNode) (n : PreNode) : Except CErr Node :=
  match signersOfStr pool n.signStr with
  | .error e => .error e
  | .ok ks =>
    .ok { id := some n.id, parent := n.parent, ruleNames := n.ruleNames, vEdges := n.vEdges, pEdges := n.pEdges,
          signCons := isort (fun a b => decide (a ≤ b)) ks }

def fixSigning (pool : List PreNode) : Except CErr (List Node) := mapE (fixNode pool) pool

/-! ## `Compiler.compile` -/

def maxNameLen (chains : List Chain) : Nat := chains.foldr (fun c acc => max c.name.length acc) 0

/-- all chains, by rule identifier (`sorted_rep_rules`) -/
def allChains (rep : PyDict String (List Chain)) : List Chain :=
  (isort (fun a b => strLe a.1 b.1) rep).flatMap (·.2)

/-- passes 1–3: the chains the tree is generated from, and `named_pats` -/
def chainsOf (S : Schema) : Except CErr (List Chain × List String) :=
  match sortRuleReferences S with
  | .error e => .error e
  | .ok rules =>
    match genPatternNumbers rules with
    | .error e => .error e
    | .ok (nrules, named) =>
      match replicateRules nrules with
      | .error e => .error e
      | .ok rep => .ok (allChains rep, named)

/-- passes 4–5 -/
def buildModel (chains : List Chain) (named : List String) : Except CErr Model :=
  match genNode (maxNameLen chains) 0 chains none [] 0 named.length with
  | .error e => .error e
  | .ok (pool, _) =>
    match fixSigning pool with
    | .error e => .error e
    | .ok nodes => .ok { version := some maxVersion, startId := 0, namedCnt := named.length, nodes := nodes }

/-- `Compiler(lvs).compile()`: the model and the symbol table (identifiers by tag, from 1) -/
def compile (S : Schema) : Except CErr (Model × List String) :=
  match chainsOf S with
  | .error e => .error e
  | .ok (chains, named) =>
    match buildModel chains named with
    | .error e => .error e
    | .ok m => .ok (m, named)

end Ndn.Lvs
