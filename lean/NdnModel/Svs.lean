import NdnModel.PyDict
/-
  Model of src/ndn/app_support/svs/sync.py : SvsInst.sync_handler, aggregate, on_timer (the
  decision taken when the timer fires), new_data, express_sync_interest (the vector carried).
  Time is abstracted: `timer` is an event the environment may deliver at any point.
  Input vectors are the *decoded* entries; the byte-level half (the bytes of the name component, decoded with the
  generic TLV decoder of C08 over the regenerated StateVecWrapper schema, and the `except` clause) is
  NdnModel/SvsBytes.lean.
-/
namespace Ndn.Svs
open Ndn

abbrev Vec := PyDict Bytes Nat

/-- `d.get(k, 0)` -/
def vget (d : Vec) (k : Bytes) : Nat := (PyDict.get? d k).getD 0

structure State where
  selfId   : Bytes
  selfSeq  : Nat
  loc      : Vec          -- local_sv
  agg      : Vec          -- agg_sv
  suppress : Bool         -- state == SyncSuppression
  deriving Repr, DecidableEq

/-- one decoded StateVecEntry: node_id (encoded name, `none` when the field is absent),
    seq_no (`none` when absent) -/
abbrev Entry := Option Bytes × Option Nat

inductive Ev where
  | recv (es : List Entry)      -- a sync Interest whose vector decoded to these entries
  | undecodable                 -- wrong name length / DecodeError / IndexError while decoding
  | publish                     -- new_data()
  | timer                       -- the sync timer expires
  deriving Repr

inductive Out where
  | emit (v : Vec)              -- express_sync_interest() with this vector
  | missing                     -- on_missing_data callback
  deriving Repr, DecidableEq

/-- first loop of `sync_handler`: build `rsv_dict`; `none` = "Remote side has more local data" -/
def buildRsv (selfId : Bytes) (selfSeq : Nat) : List Entry → Vec → Option Vec
  | [], acc => some acc
  | (nid, seq) :: r, acc =>
    match nid, seq with
    | none, _ => buildRsv selfId selfSeq r acc
    | some _, none => buildRsv selfId selfSeq r acc            -- `or rsv.seq_no is None: continue`
    | some i, some q =>
      if i = [] then buildRsv selfId selfSeq r acc            -- `if not rsv.node_id: continue`
      else if i = selfId ∧ q > selfSeq then none
      else buildRsv selfId selfSeq r (PyDict.set acc i q)

/-- second loop: merge into local; returns (local', need_fetch, need_notif contribution) -/
def mergeLoop : List (Bytes × Nat) → Vec → Bool → Bool → Vec × Bool × Bool
  | [], loc, nf, nn => (loc, nf, nn)
  | (i, q) :: r, loc, nf, nn =>
    let l := vget loc i
    if l < q then mergeLoop r (PyDict.set loc i q) true nn
    else if l > q then mergeLoop r loc nf true
    else mergeLoop r loc nf nn

/-- `aggregate(rsv_dict)` (as repaired: merges with `agg_sv`) -/
def aggregate : List (Bytes × Nat) → Vec → Vec
  | [], agg => agg
  | (i, q) :: r, agg => aggregate r (PyDict.set agg i (max (vget agg i) q))

def necessary (loc agg : Vec) : Bool := loc.any (fun p => vget agg p.1 < p.2)

/-- the part of `sync_handler` after `rsv_dict` has been built -/
def afterBuild (s : State) (rsv : Vec) : State × List Out :=
  let nn0 := rsv.any (fun p => !(PyDict.contains s.loc p.1))
  let m := mergeLoop rsv s.loc false nn0
  let s1 := { s with loc := m.1 }
  let s2 :=
    if m.2.2 || s.suppress then
      if !s.suppress then { s1 with suppress := true, agg := rsv }
      else { s1 with agg := aggregate rsv s.agg }
    else s1
  (s2, if m.2.1 then [.missing] else [])

def step (s : State) : Ev → State × List Out
  | .undecodable => (s, [])
  | .recv es =>
    if es.isEmpty then (s, []) else
    match buildRsv s.selfId s.selfSeq es [] with
    | none => (s, [])
    | some rsv => afterBuild s rsv
  | .publish =>
    let q := s.selfSeq + 1
    let s' := { s with selfSeq := q, loc := PyDict.set s.loc s.selfId q, suppress := false }
    (s', [.emit s'.loc])
  | .timer =>
    if s.suppress then
      let s' := { s with suppress := false }
      (s', if necessary s.loc s.agg then [.emit s.loc] else [])
    else (s, [.emit s.loc])

/-- state right after `start()` -/
def init (selfId : Bytes) (seq0 : Nat) : State :=
  { selfId := selfId, selfSeq := seq0, loc := [(selfId, seq0)], agg := [], suppress := false }

def run (s : State) : List Ev → State × List (List Out)
  | [] => (s, [])
  | e :: r =>
    let (s', o) := step s e
    let (s'', os) := run s' r
    (s'', o :: os)

end Ndn.Svs
