import NdnModel.PyDict
/-
  Model of src/ndn/app_support/svs/sync.py : SvsInst.sync_handler, aggregate, on_timer (the
  decision taken when the timer fires), new_data, express_sync_interest (the vector carried).
  Time is abstracted: `timer` is an event the environment may deliver at any point.
  Two levels: `step` takes one protocol event as one atomic decision; `stepX` (second half of the file) follows the
  statements of the handler / `new_data` / the timer task in source order, with `next_sync_timing` and
  `timer_rst_event` in the state, so that a callback that re-enters the instance (`new_data()` from inside
  `on_missing_data`) is an event.  The compiled driver runs `stepX`; `Ndn.C18.stepX_refines_step` ties the two.
  Input vectors are the *decoded* entries; the byte-level half (the bytes of the name component, decoded with the
  generic TLV decoder of C08 over the regenerated StateVecWrapper schema, and the `except` clause) is
  NdnModel/SvsBytes.lean.
-/
namespace Ndn.Svs
open Ndn

abbrev Vec := PyDict Bytes Nat

/-- `d.get(k, 0)` -/
def vget (d : Vec) (k : Bytes) : Nat := (PyDict.get? d k).getD 0

structure State where
  selfId   : Bytes
  selfSeq  : Nat
  loc      : Vec          -- local_sv
  agg      : Vec          -- agg_sv
  suppress : Bool         -- state == SyncSuppression
  deriving Repr, DecidableEq

/-- one decoded StateVecEntry: node_id (encoded name, `none` when the field is absent),
    seq_no (`none` when absent) -/
abbrev Entry := Option Bytes × Option Nat

inductive Ev where
  | recv (es : List Entry)      -- a sync Interest whose vector decoded to these entries
  | undecodable                 -- wrong name length / DecodeError / IndexError while decoding
  | publish                     -- new_data()
  | timer                       -- the sync timer expires
  deriving Repr

inductive Out where
  | emit (v : Vec)              -- express_sync_interest() with this vector
  | missing                     -- on_missing_data callback
  deriving Repr, DecidableEq

/-- first loop of `sync_handler`: build `rsv_dict`; `none` = "Remote side has more local data" -/
def buildRsv (selfId : Bytes) (selfSeq : Nat) : List Entry → Vec → Option Vec
  | [], acc => some acc
  | (nid, seq) :: r, acc =>
    match nid, seq with
    | none, _ => buildRsv selfId selfSeq r acc
    | some _, none => buildRsv selfId selfSeq r acc            -- `or rsv.seq_no is None: continue`
    | some i, some q =>
      if i = [] then buildRsv selfId selfSeq r acc            -- `if not rsv.node_id: continue`
      else if i = selfId ∧ q > selfSeq then none
      else buildRsv selfId selfSeq r (PyDict.set acc i q)

/-- second loop: merge into local; returns (local', need_fetch, need_notif contribution) -/
def mergeLoop : List (Bytes × Nat) → Vec → Bool → Bool → Vec × Bool × Bool
  | [], loc, nf, nn => (loc, nf, nn)
  | (i, q) :: r, loc, nf, nn =>
    let l := vget loc i
    if l < q then mergeLoop r (PyDict.set loc i q) true nn
    else if l > q then mergeLoop r loc nf true
    else mergeLoop r loc nf nn

/-- `aggregate(rsv_dict)` (as repaired: merges with `agg_sv`) -/
def aggregate : List (Bytes × Nat) → Vec → Vec
  | [], agg => agg
  | (i, q) :: r, agg => aggregate r (PyDict.set agg i (max (vget agg i) q))

def necessary (loc agg : Vec) : Bool := loc.any (fun p => vget agg p.1 < p.2)

/-- the part of `sync_handler` after `rsv_dict` has been built -/
def afterBuild (s : State) (rsv : Vec) : State × List Out :=
  let nn0 := rsv.any (fun p => !(PyDict.contains s.loc p.1))
  let m := mergeLoop rsv s.loc false nn0
  let s1 := { s with loc := m.1 }
  let s2 :=
    if m.2.2 || s.suppress then
      if !s.suppress then { s1 with suppress := true, agg := rsv }
      else { s1 with agg := aggregate rsv s.agg }
    else s1
  (s2, if m.2.1 then [.missing] else [])

def step (s : State) : Ev → State × List Out
  | .undecodable => (s, [])
  | .recv es =>
    if es.isEmpty then (s, []) else
    match buildRsv s.selfId s.selfSeq es [] with
    | none => (s, [])
    | some rsv => afterBuild s rsv
  | .publish =>
    let q := s.selfSeq + 1
    let s' := { s with selfSeq := q, loc := PyDict.set s.loc s.selfId q, suppress := false }
    (s', [.emit s'.loc])
  | .timer =>
    if s.suppress then
      let s' := { s with suppress := false }
      (s', if necessary s.loc s.agg then [.emit s.loc] else [])
    else (s, [.emit s.loc])

/-- state right after `start()` -/
def init (selfId : Bytes) (seq0 : Nat) : State :=
  { selfId := selfId, selfSeq := seq0, loc := [(selfId, seq0)], agg := [], suppress := false }

def run (s : State) : List Ev → State × List (List Out)
  | [] => (s, [])
  | e :: r =>
    let (s', o) := step s e
    let (s'', os) := run s' r
    (s'', o :: os)

/-! ## The handler statement by statement, with the timer: re-entrancy

`step` above takes one event of the protocol as one atomic decision.  The part below follows the *order of the
statements* of `sync_handler` / `new_data` / `on_timer`, with the two fields the timer task reads
(`next_sync_timing`, `timer_rst_event`) as part of the state, so that an application that calls `new_data()` from
**inside** the missing-data callback (it only has to be non-blocking) is an event of the model, and so that moving
the callback invocation inside the handler changes the model's answer (`handlerEarly`). -/

/-- `next_sync_timing`, abstractly: what the timer task will wait for when it next computes its timeout -/
inductive Due where
  | steady      -- `time.time() + sample_sync_timer()`  : a fresh steady period
  | sup         -- `time.time() + sample_sup_timer()`   : a suppression period
  | now         -- `0`                                   : the timer fires as soon as the task runs
  deriving Repr, DecidableEq

/-- the instance together with what the timer task looks at -/
structure TState where
  st  : State
  due : Due          -- next_sync_timing
  rst : Bool         -- timer_rst_event is set (the timer task has not consumed it yet)
  deriving Repr, DecidableEq

/-- what the application does inside `on_missing_data`: call `new_data()` `pubs` times, then possibly raise -/
structure Cb where
  pubs   : Nat
  raises : Bool
  deriving Repr, DecidableEq

/-- events of the statement-level model -/
inductive EvX where
  | recvCb (es : List Entry) (cb : Cb)   -- a sync Interest; if the callback fires it behaves as `cb`
  | undecodable
  | publish                              -- new_data() called by the application outside the handler
  | timer                                -- the timer task's wait times out
  deriving Repr

/-- `recvPub v k`: receive `v` with a callback that publishes `k` times (and returns) -/
abbrev EvX.recvPub (es : List Entry) (k : Nat) : EvX := .recvCb es ⟨k, false⟩
/-- a received vector whose callback does nothing -/
abbrev EvX.recv (es : List Entry) : EvX := .recvCb es ⟨0, false⟩

def EvX.ofEv : Ev → EvX
  | .recv es => .recv es
  | .undecodable => .undecodable
  | .publish => .publish
  | .timer => .timer

/-- what one step lets the outside see: the emissions / callback invocations in order, and whether the
    exception raised by the application's callback propagated out of `sync_handler` -/
structure ObsX where
  outs   : List Out
  raised : Bool
  deriving Repr, DecidableEq

/-- the statements of `new_data()` on a running instance -/
def newData (t : TState) : TState :=
  let q := t.st.selfSeq + 1
  { st := { t.st with selfSeq := q, loc := PyDict.set t.st.loc t.st.selfId q,
                      suppress := false },     -- self.state = SvsState.SyncSteady
    due := .now,                                -- self.next_sync_timing = 0
    rst := true }                               -- self.timer_rst_event.set()

/-- the application's callback body: `k` calls of `new_data()` -/
def callback : Nat → TState → TState
  | 0, t => t
  | k + 1, t => callback k (newData t)

/-- the block `if need_notif or self.state == SyncSuppression: … else: …` of `sync_handler` -/
def bookkeeping (t : TState) (rsv : Vec) (needNotif : Bool) : TState :=
  if needNotif || t.st.suppress then
    if !t.st.suppress then
      { st := { t.st with suppress := true, agg := rsv }, due := .sup, rst := true }
    else { t with st := { t.st with agg := aggregate rsv t.st.agg } }
  else { t with due := .steady, rst := true }

/-- `sync_handler` after the length test and the decoding, in the order of its statements:
    build `rsv_dict` (return on over-claim) · merge · bookkeeping · **then** the callback -/
def handler (t : TState) (es : List Entry) (cb : Cb) : TState × ObsX :=
  if es.isEmpty then (t, ⟨[], false⟩) else
  match buildRsv t.st.selfId t.st.selfSeq es [] with
  | none => (t, ⟨[], false⟩)
  | some rsv =>
    let nn0 := rsv.any (fun p => !(PyDict.contains t.st.loc p.1))
    let m := mergeLoop rsv t.st.loc false nn0
    let t1 := { t with st := { t.st with loc := m.1 } }
    let t2 := bookkeeping t1 rsv m.2.2
    if m.2.1 then (callback cb.pubs t2, ⟨[.missing], cb.raises⟩) else (t2, ⟨[], false⟩)

/-- the variant with the callback invoked right after the merge loop, **before** the bookkeeping block
    (an exception of the callback then skips the bookkeeping) -/
def handlerEarly (t : TState) (es : List Entry) (cb : Cb) : TState × ObsX :=
  if es.isEmpty then (t, ⟨[], false⟩) else
  match buildRsv t.st.selfId t.st.selfSeq es [] with
  | none => (t, ⟨[], false⟩)
  | some rsv =>
    let nn0 := rsv.any (fun p => !(PyDict.contains t.st.loc p.1))
    let m := mergeLoop rsv t.st.loc false nn0
    let t1 := { t with st := { t.st with loc := m.1 } }
    if m.2.1 then
      let t2 := callback cb.pubs t1
      if cb.raises then (t2, ⟨[.missing], true⟩)
      else (bookkeeping t2 rsv m.2.2, ⟨[.missing], false⟩)
    else (bookkeeping t1 rsv m.2.2, ⟨[], false⟩)

/-- a variant of `new_data()` that, called from inside the handler, leaves `self.state` alone (still rearms the timer) -/
def newDataKeep (t : TState) : TState :=
  let q := t.st.selfSeq + 1
  { st := { t.st with selfSeq := q, loc := PyDict.set t.st.loc t.st.selfId q }, due := .now, rst := true }

def callbackKeep : Nat → TState → TState
  | 0, t => t
  | k + 1, t => callbackKeep k (newDataKeep t)

/-- `handler` with that variant of `new_data()` inside the callback -/
def handlerKeep (t : TState) (es : List Entry) (cb : Cb) : TState × ObsX :=
  if es.isEmpty then (t, ⟨[], false⟩) else
  match buildRsv t.st.selfId t.st.selfSeq es [] with
  | none => (t, ⟨[], false⟩)
  | some rsv =>
    let nn0 := rsv.any (fun p => !(PyDict.contains t.st.loc p.1))
    let m := mergeLoop rsv t.st.loc false nn0
    let t1 := { t with st := { t.st with loc := m.1 } }
    let t2 := bookkeeping t1 rsv m.2.2
    if m.2.1 then (callbackKeep cb.pubs t2, ⟨[.missing], cb.raises⟩) else (t2, ⟨[], false⟩)

/-- the `except TimeoutError` branch of `on_timer`: decide, emit, start a fresh steady period -/
def fire (t : TState) : TState × List Out :=
  let s := t.st
  let r : State × List Out :=
    if s.suppress then
      ({ s with suppress := false }, if necessary s.loc s.agg then [.emit s.loc] else [])
    else (s, [.emit s.loc])
  ({ st := r.1, due := .steady, rst := false }, r.2)

/-- the timer task gets to run (the handler has returned, nothing awaits inside it): if the reset event is set,
    `wait_for` returns, the event is cleared and the timeout is recomputed from `next_sync_timing` — a timeout of 0
    expires at once; otherwise the task stays parked on the deadline it had -/
def settle (t : TState) : TState × List Out :=
  if t.rst then
    if t.due = .now then fire t else ({ t with rst := false }, [])
  else (t, [])

/-- one event, handler statements first, then the timer task -/
def stepWith (h : TState → List Entry → Cb → TState × ObsX) (t : TState) : EvX → TState × ObsX
  | .undecodable => (t, ⟨[], false⟩)
  | .recvCb es cb =>
    let r := h t es cb
    let r' := settle r.1
    (r'.1, ⟨r.2.outs ++ r'.2, r.2.raised⟩)
  | .publish =>
    let r' := settle (newData t)
    (r'.1, ⟨r'.2, false⟩)
  | .timer =>
    let r' := fire t
    (r'.1, ⟨r'.2, false⟩)

/-- the code as it is -/
def stepX : TState → EvX → TState × ObsX := stepWith handler
/-- the variant whose re-entrant `new_data()` does not touch `self.state` -/
def stepXKeep : TState → EvX → TState × ObsX := stepWith handlerKeep
/-- the variant with the callback before the bookkeeping -/
def stepXEarly : TState → EvX → TState × ObsX := stepWith handlerEarly

/-- right after `start()` has let the timer task run once: parked on a steady period -/
def initX (selfId : Bytes) (seq0 : Nat) : TState := { st := init selfId seq0, due := .steady, rst := false }

def runX (t : TState) : List EvX → TState × List ObsX
  | [] => (t, [])
  | e :: r =>
    let (t', o) := stepX t e
    let (t'', os) := runX t' r
    (t'', o :: os)

end Ndn.Svs
