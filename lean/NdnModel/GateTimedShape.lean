import NdnModel.SrcShape
/-
  Vocabulary of the table generated from the SOURCE TEXT of `_on_interest` / `submit_interest` / `attach_handler` /
  `set_interest_filter` for the TIMED model of the incoming-Interest gate (lean/NdnGen/C05T.lean; extractor
  harness/props/c05.py `generate_c05t`, `ast` only): what is captured when the Interest arrives and what is read
  again after the validator has answered.
-/
namespace Ndn.Src

/-- how `attach_handler` / `set_interest_filter` writes the validator into the node:
    `node.validator = validator` or `if validator: node.validator = validator` -/
inductive ValWrite where
  | always | ifTruthy | unknown
  deriving DecidableEq, Repr, Inhabited

def ValWrite.apply : ValWrite → (old new : Option Nat) → Option Nat
  | .always, _, new => new
  | .ifTruthy, old, new => if new.isSome then new else old
  | .unknown, old, _ => old

/-- the part of `_on_interest` the timed model depends on -/
structure SubmitShape where
  /-- calls of `longest_prefix` anywhere in `_on_interest` (the nested `submit_interest` included) -/
  lookups : Nat
  /-- assignments to the name `node` anywhere in `_on_interest`, as text -/
  nodeBinds : List String
  /-- the statement that starts `submit_interest` (a separate task: nobody awaits it) -/
  spawn : String
  /-- the expressions `submit_interest` reads the validator / the handler from -/
  validatorRead : String
  callbackCall : String
  /-- exception classes caught around the validator call inside `submit_interest`, and what `valid` is then -/
  validatorCaught : List Exc
  validatorCaughtAs : VR
  /-- `await` expressions of `_on_interest` itself before the task is spawned (canonical text) -/
  awaitsBefore : List String
  valWrite : ValWrite
  deriving DecidableEq, Repr, Inhabited

end Ndn.Src
