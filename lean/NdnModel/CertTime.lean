import NdnModel.Cert
import NdnModel.Calendar
/-
  The time side of security_v2: `derive_cert` (an aware start_time is converted with `astimezone(UTC)` first, then
  + timedelta(seconds=expire_sec)), `sign_req` (datetime.now(UTC), + timedelta(days=10)), `self_sign`
  (1970-01-01T00:00:00 naive, datetime.now(UTC) with year + 20) and the UTC conversion +
  `_fmt_time` (year zero-padded to four digits + `strftime('%m%dT%H%M%S')`) in `new_cert`, over the calendar model.
  Instants are (ordinal, second of day, microsecond); an aware datetime carries its `fold` and its tzinfo, which
  is any function from wall-clock readings to UTC offsets in seconds (`Calendar.Zone`: fixed or varying).
-/
namespace Ndn.Cert
open Ndn Ndn.Codec Ndn.Packet Ndn.Calendar

/-- `_fmt_time` of an instant: `'%04d' % year + strftime('%m%dT%H%M%S')`, the 15-octet `YYYYMMDDThhmmss` for every
    year 0001..9999 -/
def fmtInstant (t : Instant) : Bytes :=
  let f := fields t
  formatTime f.1 f.2.1 f.2.2.1 f.2.2.2.1 f.2.2.2.2.1 f.2.2.2.2.2

/-- the time inputs of the three issuing functions -/
inductive Issue where
  /-- `derive_cert(…, start_time, expire_sec)`: wall-clock reading and `fold` of start_time, its tzinfo
      (`none` = naive) -/
  | derive (start : Instant) (fold : Bool) (zone : Option Zone) (expire : Int)
  /-- `sign_req`: the two readings of `datetime.now(UTC)` (the first + 10 days is the end, the second the start) -/
  | req (now1 now2 : Instant)
  /-- `self_sign`: the reading of `datetime.now(UTC)` -/
  | self (now : Instant)

/-- `new_cert`: aware start / end times (`so`, `eo`: the offsets their tzinfo reports for them) are converted with
    `astimezone(UTC)`, naive ones are taken as UTC -/
def utcPair (s : Instant) (so : Option Int) (e : Instant) (eo : Option Int) : Except PyErr (Instant × Instant) := do
  let s' ← toUtc s so
  let e' ← toUtc e eo
  pure (s', e')

/-- the two UTC instants whose text goes into the ValidityPeriod -/
def Issue.instants : Issue → Except PyErr (Instant × Instant)
  | .derive start fold zone n => do
      -- `start_time.utcoffset()`: the tzinfo is asked once, about the start reading
      let off := zone.map (fun z => z start fold)
      -- `if start_time.utcoffset() is not None: start_time = start_time.astimezone(UTC)`
      let s ← toUtc start off
      -- `end_time = start_time + timedelta(seconds=expire_sec)`: in UTC (offset 0 for every reading), or naive
      let e ← addSeconds s n
      let uo := off.map (fun _ => (0 : Int))
      utcPair s uo e uo
  | .req now1 now2 => do
      let e ← addSeconds now1 (10 * 86400)
      utcPair now2 (some 0) e (some 0)
  | .self now => do
      let e ← addYears now 20
      utcPair epoch none e (some 0)

/-- (NotBefore, NotAfter) -/
def Issue.validity (i : Issue) : Except PyErr (Bytes × Bytes) := do
  let se ← i.instants
  pure (fmtInstant se.1, fmtInstant se.2)

/-- `self_sign` / `sign_req` / `derive_cert` down to the wire (issuer id, version and signer as in `newCert`) -/
def issueCert (keyName : List Bytes) (issuer version pubKey : Bytes) (signerInfo : List Value)
    (i : Issue) (s : SignerOut) : Except PyErr Made := do
  let v ← i.validity
  newCert keyName issuer version pubKey signerInfo v.1 v.2 s

end Ndn.Cert
