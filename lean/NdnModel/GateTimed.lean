import NdnModel.Gate
import NdnModel.Fib
import NdnGen.C05T
/-
  The incoming-Interest gate as a TIMED model: validation takes time, and the routing table may change meanwhile.

    src/ndn/appv2.py   NDNApp._on_interest / submit_interest / attach_handler / detach_handler
    src/ndn/app.py     NDNApp._on_interest / submit_interest / set_interest_filter / unset_interest_filter

  What the code does, step by step (both front-ends):
  * ARRIVAL (`_on_interest`, one uninterrupted stretch: `params_sha256_checker` is awaited but never yields):
    `longest_prefix` once; `node = trie_step.value` - the NODE OBJECT is what is kept, not its name and not its
    fields; no route / `node.callback is None`: return; digest check when required (a wrong digest: return);
    `aio.create_task(submit_interest())` - a separate task nobody awaits.
  * START (the task's first turn - a later loop iteration, the table may have changed): `node.validator` is read NOW,
    from the kept node object; the validator is called (or the constant verdict of a validator-less route / a plain
    Interest is taken, and the task goes straight to the end).
  * DONE (the validator returns - any time later, the table may have changed again): `node.callback` is read NOW, from
    the kept node object, and called when the verdict lets the Interest through.  A validator that raises ends the
    task with that exception (nothing in `submit_interest` catches it: `validatorCaught` of the generated table is
    empty); being a task of its own, the exception goes to the loop's exception handler and to nobody else - the
    reception path and the other Interests in flight are not affected.
  * No timer takes part: the InterestLifetime only bounds `reply` (C04); `Ev.deadline` changes nothing here.

  Node objects have identity: `heap` holds every `PrefixTreeNode` ever created (by address), `trie` maps a name to an
  address.  `attach` = `setdefault` + the truthiness test of `node.callback` (ValueError) + two field writes INTO THE
  OBJECT; `detach` = `del trie[name]`, which unlinks the object and does not touch it.  So a detached node keeps its
  handler and its validator, and an Interest in flight that holds it is delivered to the detached handler: that is
  what the code does (whether it should is C04's business - `detach_receives_nothing` there speaks of Interests that
  ARRIVE after the detach).  What C05 needs - the validator consulted is the one registered with the handler that is
  finally called - is a theorem (`NdnProofs/Lemmas/GateTimed.lean`: a node with a callback is never written again).

  From the SOURCE TEXT: `Gate.shape` (lean/NdnGen/C05.lean) as in the atomic model, and lean/NdnGen/C05T.lean:
  the way attach writes the validator (`valWrite`), the `except` classes around the validator call
  (`validatorCaught`); one `longest_prefix`, one binding of `node`, the spawn statement and the two reads
  `node.validator` / `node.callback` are pinned by `Ndn.C05.gen_timed`.
-/
namespace Ndn.GateTimed
open Ndn
open Ndn.Pit (FrontEnd Verdict)
open Ndn.Gate (IntPkt shape)

abbrev Name := Fib.Name
abbrev Hid := Fib.Hid
/-- identity of a validator callable -/
abbrev Vid := Nat
/-- an incoming Interest: its position among the arrivals -/
abbrev Iid := Nat

def tshape : FrontEnd → Src.SubmitShape
  | .v1 => Gen.C05T.v1
  | .v2 => Gen.C05T.v2

/-- `PrefixTreeNode`: the two fields the gate reads -/
structure TNode where
  callback : Option Hid
  validator : Option Vid
  deriving DecidableEq, Repr

inductive Phase where
  | queued                      -- `submit_interest` is scheduled, has not run yet
  | validating (vid : Vid)      -- it awaits validator `vid`
  | finished                    -- dropped at arrival, or the task is over
  deriving DecidableEq, Repr

/-- why a `submit_interest` task ended with an exception -/
inductive Exc where
  | timeoutError | scripted     -- what the validator raised
  | typeError                   -- `node.callback` was `None` when called (unreachable, see `Lemmas/GateTimed`)
  deriving DecidableEq, Repr

inductive Obs where
  | digest (i : Iid)                  -- `params_sha256_checker` ran on Interest `i`
  | validate (i : Iid) (vid : Vid)    -- validator `vid` was called with Interest `i`
  | handle (i : Iid) (h : Hid)        -- handler `h` was called with Interest `i`
  | died (i : Iid) (e : Exc)          -- the `submit_interest` task of `i` ended with an exception
  deriving DecidableEq, Repr

def Obs.iid : Obs → Iid
  | .digest i => i | .validate i _ => i | .handle i _ => i | .died i _ => i

structure Flight where
  name : Name
  pkt : IntPkt
  node : Option Nat             -- address of the node object `_on_interest` kept (`none`: it returned before spawning)
  phase : Phase
  deriving DecidableEq, Repr

inductive Ev where
  | attach (p : Name) (h : Option Hid) (v : Option Vid)
  | detach (p : Name)
  | arrive (n : Name) (pkt : IntPkt)
  | start (i : Iid)                   -- the `submit_interest` task of `i` gets its first turn
  | done (i : Iid) (v : Verdict)      -- the validator `i` is waiting for returns `v` (or raises)
  | deadline (i : Iid)                -- the InterestLifetime of `i` is over
  deriving DecidableEq, Repr

structure St where
  trie : PyDict Name Nat := []
  heap : List TNode := []
  flights : List Flight := []
  log : List Obs := []
  res : List Fib.Res := []            -- what the attach / detach calls returned, in order
  deriving Repr

/-! ### the table -/

/-- `attach_handler` / `set_interest_filter` -/
def attach (fe : FrontEnd) (s : St) (p : Name) (h : Option Hid) (v : Option Vid) : St × Fib.Res :=
  match PyDict.get? s.trie p with
  | some a =>
    match s.heap[a]? with
    | some nd =>
      if nd.callback.isSome then (s, .err .valueError)
      else ({ s with heap := s.heap.set a ⟨h, (tshape fe).valWrite.apply nd.validator v⟩ }, .ok)
    | none => (s, .err .other)      -- a dangling address: unreachable (`Lemmas/GateTimed`, `TrieWf`)
  | none =>
    ({ s with trie := PyDict.set s.trie p s.heap.length,
              heap := s.heap ++ [⟨h, (tshape fe).valWrite.apply none v⟩] }, .ok)

/-- `detach_handler` / `unset_interest_filter`: `del trie[name]` -/
def detach (s : St) (p : Name) : St × Fib.Res :=
  if PyDict.contains s.trie p then ({ s with trie := PyDict.erase s.trie p }, .ok) else (s, .err .keyError)

/-- `trie.longest_prefix(n)`: prefixes of `n` from length `k` downwards (as `Fib.scan`, over addresses) -/
def scan (t : PyDict Name Nat) (n : Name) : Nat → Option (Name × Nat)
  | 0 => (PyDict.get? t []).map fun a => ([], a)
  | k + 1 =>
    match PyDict.get? t (n.take (k + 1)) with
    | some a => some (n.take (k + 1), a)
    | none => scan t n k

def lookup (t : PyDict Name Nat) (n : Name) : Option (Name × Nat) := scan t n n.length

/-! ### one Interest: the pure part of `submit_interest`, given what the node object holds when it is read -/

/-- after the validator's answer `v` (not an exception): `node.callback` is read and called, or not -/
def conclude (fe : FrontEnd) (i : Iid) (nd : TNode) (v : Verdict) : Phase × List Obs :=
  if Gate.lets fe v then
    match nd.callback with
    | some h => (.finished, [.handle i h])
    | none => (.finished, [.died i .typeError])
  else (.finished, [])

/-- the task's first turn: `node.validator` is read -/
def startF (fe : FrontEnd) (av : Vid) (i : Iid) (pkt : IntPkt) (nd : TNode) : Phase × List Obs :=
  if (shape fe).validateWhen.holds pkt.hasParams pkt.hasSig then
    match nd.validator, (shape fe).noValidatorAs with
    | some vid, _ => (.validating vid, [.validate i vid])
    | none, some r => conclude fe i nd (Verdict.ofVR r)
    | none, none => (.validating av, [.validate i av])
  else conclude fe i nd (Verdict.ofVR (shape fe).plain)

def excOf : Verdict → Exc
  | .raiseTimeout => .timeoutError
  | _ => .scripted

/-- the validator returns: an exception no `except` clause of `submit_interest` names ends the task -/
def doneF (fe : FrontEnd) (i : Iid) (nd : TNode) (v : Verdict) : Phase × List Obs :=
  match Pit.validOf (tshape fe).validatorCaught (tshape fe).validatorCaughtAs v with
  | some v' => conclude fe i nd v'
  | none => (.finished, [.died i (excOf v)])

/-! ### the machine -/

def setPhase (s : St) (i : Iid) (fl : Flight) (r : Phase × List Obs) : St :=
  { s with flights := s.flights.set i { fl with phase := r.1 }, log := s.log ++ r.2 }

def arrive (fe : FrontEnd) (s : St) (n : Name) (pkt : IntPkt) : St :=
  let i := s.flights.length
  let drop (log : List Obs) : St := { s with log := log, flights := s.flights ++ [⟨n, pkt, none, .finished⟩] }
  match lookup s.trie n with
  | none => drop s.log
  | some (_, a) =>
    match (s.heap[a]?).bind (·.callback) with
    | none => drop s.log
    | some _ =>
      let digestReq := (shape fe).digestWhen.holds pkt.hasParams pkt.hasSig
      let log' := if digestReq then s.log ++ [.digest i] else s.log
      if digestReq && !pkt.digestOk then drop log'
      else { s with log := log', flights := s.flights ++ [⟨n, pkt, some a, .queued⟩] }

/-- `av`: the legacy application-wide `int_validator` -/
def step (fe : FrontEnd) (av : Vid) (s : St) : Ev → St
  | .attach p h v => let r := attach fe s p h v; { r.1 with res := r.1.res ++ [r.2] }
  | .detach p => let r := detach s p; { r.1 with res := r.1.res ++ [r.2] }
  | .arrive n pkt => arrive fe s n pkt
  | .start i =>
    match s.flights[i]? with
    | some fl =>
      match fl.phase, fl.node with
      | .queued, some a =>
        match s.heap[a]? with
        | some nd => setPhase s i fl (startF fe av i fl.pkt nd)
        | none => s
      | _, _ => s
    | none => s
  | .done i v =>
    match s.flights[i]? with
    | some fl =>
      match fl.phase, fl.node with
      | .validating _, some a =>
        match s.heap[a]? with
        | some nd => setPhase s i fl (doneF fe i nd v)
        | none => s
      | _, _ => s
    | none => s
  | .deadline _ => s

def runFrom (fe : FrontEnd) (av : Vid) (s : St) (evs : List Ev) : St := evs.foldl (step fe av) s

/-- the application after a history, starting with an empty table -/
def run (fe : FrontEnd) (av : Vid) (evs : List Ev) : St := runFrom fe av {} evs

/-- every table entry the model computes with was recognised by the extractor, and the shape of `_on_interest` is the
    one the model mirrors: one lookup, one binding of `node`, nothing caught around the validator -/
def tableOk : Bool :=
  Gate.tableOk && [FrontEnd.v1, .v2].all fun fe =>
    (tshape fe).valWrite != .unknown && (tshape fe).lookups == 1 && (tshape fe).nodeBinds.length == 1 &&
    !(tshape fe).validatorCaught.contains .unknown

end Ndn.GateTimed
