import NdnModel.Codec
/- Decidable well-formedness of schemas and "legal assignment" of values (hypotheses of the C08 theorems;
   `decide`d for every generated shipped schema). -/
namespace Ndn.Codec
open Ndn

/-- a name component is exactly one TLV element (any T/L form the decoder reads) -/
def compOk (c : Bytes) : Bool :=
  match parseTlNum c 0 with
  | .ok (_, st) =>
    match parseTlNum c st with
    | .ok (len, sl) => c.length == st + sl + len
    | .error _ => false
  | .error _ => false

def isElemKind : Schema → Bool
  | .uint _ _ | .bool _ | .bytes _ _ | .name _ | .model _ _ _ => true
  | _ => false

/-- the kinds `MapField.__init__` accepts as key type (UintField / BytesField) -/
def isKeyKind : Schema → Bool
  | .uint _ _ | .bytes _ _ => true
  | _ => false

def typs : List Schema → List Nat
  | [] => []
  | s :: r => match s.typ with
    | some t => t :: typs r
    | none => typs r

def nodupB : List Nat → Bool
  | [] => true
  | a :: r => !(r.contains a) && nodupB r

mutual
def wfS : Schema → Bool
  | .uint _ fl => fl == none || fl == some 1 || fl == some 2 || fl == some 4 || fl == some 8
  | .bool _ => true
  | .bytes _ _ => true
  | .name t => t == 7
  | .model _ fs _ => wfFs fs && nodupB (typs fs)
  | .repeated e => isElemKind e && wfS e
  | .map k v => isKeyKind k && wfS k && isElemKind v && wfS v && (k.typ != v.typ)
  | .marker => false
def wfFs : List Schema → Bool
  | [] => true
  | s :: r => wfS s && wfFs r
end

/-- a top-level model class -/
def wfTop (fs : List Schema) : Bool := wfFs fs && nodupB (typs fs)

def notNone : Value → Bool
  | .none => false
  | _ => true

/-- the keys of a dict are pairwise different (first key of a pair is the earlier one) -/
def keysDistinct : List (Value × Value) → Bool
  | [] => true
  | (a, _) :: r => r.all (fun e => !keyEq a e.1) && keysDistinct r

mutual
def fits : Schema → Value → Bool
  | .repeated e, .list vs => fitsList e vs
  | .repeated _, _ => false
  | .map k v, .map es => fitsMap k v es && keysDistinct es
  | .map _ _, _ => false
  | _, .none => true
  | .uint _ _, .uint _ => true
  | .bool _, .bool => true
  | .bytes _ isStr, .bytes b => !isStr || utf8Valid b
  | .name _, .name cs => cs.all compOk
  | .model _ fs _, .model vs => fitsFs fs vs
  | _, _ => false
def fitsFs : List Schema → List Value → Bool
  | [], [] => true
  | s :: ss, v :: vs => fits s v && fitsFs ss vs
  | _, _ => false
def fitsList : Schema → List Value → Bool
  | _, [] => true
  | e, v :: vs => (match v with | .none => false | _ => true) && fits e v && fitsList e vs
def fitsMap : Schema → Schema → List (Value × Value) → Bool
  | _, _, [] => true
  | k, v, (a, b) :: r => notNone a && notNone b && fits k a && fits v b && fitsMap k v r
end

end Ndn.Codec

namespace Ndn.Codec

/- schemas the decoder theorems of C07 quantify over: markers allowed, no MapField, repeated fields hold
   element kinds -/
mutual
def pS : Schema → Bool
  | .model _ fs _ => pFs fs
  | .repeated e => isElemKind e && pS e
  | .map _ _ => false
  | _ => true
def pFs : List Schema → Bool
  | [] => true
  | s :: r => pS s && pFs r
end

/-- the documented decoding errors -/
def docErr : PyErr → Bool
  | .indexError | .structError | .valueError | .decodeError | .typeError => true
  | _ => false

end Ndn.Codec
