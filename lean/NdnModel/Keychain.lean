import NdnModel.Sql
import NdnGen.C15
/-
  Executable model of the sqlite keychain
  (src/ndn/security/keychain/keychain_sqlite3.py + security/tpm/tpm_file.py + tpm.py), as *repaired* in /repo
  (candidate_fixes/applied-C15-*.diff and the F12 repairs: `Key.__len__` counts certificates, `Key.__getitem__` /
  `Identity.__getitem__` scoped to the owner, `_signer_cache` keyed by (key name, key locator),
  `TpmFile.generate_key` refuses a key name whose private key is already stored).

  * three row lists (identities / keys / certificates) with `is_default` flags and sqlite rowids
    (`INTEGER PRIMARY KEY` without AUTOINCREMENT: max+1, so ids are re-used after a delete);
  * the triggers are NOT hard-wired: `insertRow` / `updSetDefault` interpret the trigger table
    `Ndn.Gen.C15.triggers`, generated from the live `INITIALIZE_SQL` on every run;
  * foreign keys are off (`PRAGMA foreign_keys` is never issued; sqlite default), so the
    `ON DELETE CASCADE` clauses do nothing and cascades are whatever the Python code does by hand;
  * python's sqlite3 implicit transactions: `cur` is what the connection sees, `com` what is
    committed; closing without commit rolls back (`reopen`);
  * the TPM (`TpmFile`) is the private-key directory: a map file name -> private key, the file name of a key
    being `Cfg.fn key_name` (= hex(sha256(encoded key name)) + '.privkey'; the function is a parameter of the
    model, the driver instantiates it with SHA-256 over the real encoded names); a key pair is a number
    (the n-th pair generated), its public key bits are identified with that number (`Row.data` of a key row =
    the `key_bits` column), a signer remembers the private key it loaded (`Signer.priv`);
  * key names carry their key id as the code builds it (`Tpm.construct_key_name`): an explicit `key_id`, 8 random
    bytes (fresh by construction: the code draws until the name has no file; collisions of a fresh random
    id with a stored ROW are not modelled), or the SHA-256 of the new public key; another `key_id_type` is refused;
  * `Cfg.guard` = `TpmFile.generate_key` as repaired in /repo (refuses - ValueError, before anything is written -
    a key name whose private key is already stored); `guard = false` is the code before the repair
    (`save_key` overwrites), kept for the counterexample `Ndn.C15.unchanged_new_key_overwrites_live_key`;
  * every database write, `commit` and TPM call is a *fault point* (`tick`): with `fault = some k` the
    k-th one of the operation raises before doing anything.
  Names: identity = Nat, key = (identity, key id), certificate = (key, issuer id); the harness maps
  them to NDN names.  `Tab.lost` is a ghost (never read by the operations): the scopes whose default row
  was deleted and that have had no default since.
-/
namespace Ndn.Keychain
open Ndn.Sql

inductive KErr where
  | keyError | integrityError | attributeError | valueError | injected
  deriving DecidableEq, Repr

def KErr.name : KErr → String
  | .keyError => "KeyError" | .integrityError => "IntegrityError" | .attributeError => "AttributeError"
  | .valueError => "ValueError" | .injected => "InjectedFault"

/-- the key id component of a key name (`Tpm.construct_key_name`) -/
inductive KeyId where
  /-- `key_id_type='random'` (the default): 8 random bytes drawn while key pair `p` was generated -/
  | rnd (p : Nat)
  /-- the caller's explicit `key_id=` (label `x`) -/
  | lit (x : Nat)
  /-- `key_id_type='sha256'`: the SHA-256 of the public key of key pair `p` -/
  | hash (p : Nat)
  deriving DecidableEq, Repr

instance (n : Nat) : OfNat KeyId n := ⟨.rnd n⟩

structure KeyName where
  idn : Nat
  kid : KeyId
  deriving DecidableEq, Repr

/-- name of a private-key file (the SHA-256 of the encoded key name, as a number) -/
abbrev FileName := Nat

structure CertName where
  key : KeyName
  iss : Nat
  deriving DecidableEq, Repr

/-- a table row: sqlite rowid, parent rowid (`identity_id` / `key_id`; 0 for identities), the name column,
    `is_default`, and the payload column that matters here: `key_bits` of a key row (the public key, identified
    with the number of its key pair; 0 in the other tables) -/
structure Row (ν : Type) where
  rid : Nat
  owner : Nat
  name : ν
  dflt : Bool
  data : Nat := 0
  deriving Repr

abbrev Table (ν : Type) := List (Row ν)

section Statements
variable {ν : Type} [DecidableEq ν]

/-- are `a` and `b` the same default-scope?  (`scoped = false`: the whole table is one scope) -/
def sameScope (sc : Bool) (a b : Nat) : Bool := !sc || a == b

/-- the key under which a scope is recorded in the ghost `lost` -/
def scopeKey (sc : Bool) (o : Nat) : Nat := if sc then o else 0

def hasDefault (sc : Bool) (o : Nat) (t : Table ν) : Bool :=
  t.any fun r => r.dflt && sameScope sc o r.owner

def populated (sc : Bool) (o : Nat) (t : Table ν) : Bool :=
  t.any fun r => sameScope sc o r.owner

/-- the payload column of the row named `n` (part of the INSERT statement that creates the row) -/
def setData (n : ν) (b : Nat) (t : Table ν) : Table ν :=
  t.map fun r => if r.name = n then { r with data := b } else r

def maxRid : Table ν → Nat
  | [] => 0
  | r :: t => max r.rid (maxRid t)

/-- `UPDATE t SET is_default=0 [WHERE parent=o]` -/
def clearDefaults (sc : Bool) (o : Nat) (t : Table ν) : Table ν :=
  t.map fun r => if sameScope sc o r.owner then { r with dflt := false } else r

/-- the row update of `UPDATE t SET is_default=1 WHERE name=n` -/
def setFlag (n : ν) (t : Table ν) : Table ν :=
  t.map fun r => if r.name = n then { r with dflt := true } else r

def condHolds (c : Cond) (t : Table ν) (old new : Row ν) : Bool :=
  match c with
  | .newIsDefault => new.dflt
  | .newIsDefaultOldNot => new.dflt && !old.dflt
  | .noDefault sc => !hasDefault sc new.owner t
  | .always => true
  | .unknown => false

/-- trigger bodies fired from inside an UPDATE statement: executed directly.  (Their own nested
    UPDATEs set `is_default=0`, or re-set the flag of the row being updated; no generated WHEN clause
    can hold for those - theorem `Ndn.C15.update_triggers_need_new_default`.) -/
def act0 (a : Action) (new : Row ν) (t : Table ν) : Table ν :=
  match a with
  | .clearDefaults sc => clearDefaults sc new.owner t
  | .setDefaultByName => setFlag new.name t
  | .unknown => t

def fire0 (trs : List Trigger) (tm : Timing) (ev : Event) (old new : Row ν) (t : Table ν) : Table ν :=
  trs.foldl (fun t tr =>
    if tr.timing = tm ∧ tr.event = ev ∧ condHolds tr.cond t old new = true then act0 tr.action new t else t) t

/-- `UPDATE t SET is_default=1 WHERE <name>=n` with its BEFORE/AFTER UPDATE triggers -/
def updSetDefault (trs : List Trigger) (n : ν) (t : Table ν) : Table ν :=
  match t.find? (fun r => r.name = n) with
  | none => t
  | some r =>
    let new := { r with dflt := true }
    let t1 := fire0 trs .before .update r new t
    let t2 := setFlag n t1
    fire0 trs .after .update r new t2

/-- trigger bodies fired from an INSERT: `setDefaultByName` is a full UPDATE statement (its update
    triggers fire) -/
def act1 (trs : List Trigger) (a : Action) (new : Row ν) (t : Table ν) : Table ν :=
  match a with
  | .clearDefaults sc => clearDefaults sc new.owner t
  | .setDefaultByName => updSetDefault trs new.name t
  | .unknown => t

def fire1 (trs : List Trigger) (tm : Timing) (ev : Event) (new : Row ν) (t : Table ν) : Table ν :=
  trs.foldl (fun t tr =>
    if tr.timing = tm ∧ tr.event = ev ∧ condHolds tr.cond t new new = true then act1 trs tr.action new t else t) t

/-- `INSERT INTO t (parent, name) VALUES (o, n)` (is_default takes its DEFAULT 0): unique index on the
    name, BEFORE/AFTER INSERT triggers. `none` = IntegrityError (statement rolled back). -/
def insertRow (trs : List Trigger) (o : Nat) (n : ν) (t : Table ν) : Option (Table ν) :=
  if t.any (fun r => r.name = n) then none else
  let new : Row ν := { rid := maxRid t + 1, owner := o, name := n, dflt := false }
  let t1 := fire1 trs .before .insert new t
  let t2 := t1 ++ [new]
  some (fire1 trs .after .insert new t2)

end Statements

/-- the triggers of one table, from the generated trigger table -/
def trs (tb : Tbl) : List Trigger := Ndn.Gen.C15.triggers.filter fun tr => tr.tbl = tb

/-- identities form one scope; keys are scoped by identity, certificates by key -/
def scopedOf : Tbl → Bool
  | .identities => false
  | _ => true

/-- a table with the ghost `lost` -/
structure Tab (ν : Type) where
  rows : Table ν
  lost : List Nat
  deriving Repr

namespace Tab
variable {ν : Type} [DecidableEq ν]

def empty : Tab ν := ⟨[], []⟩

/-- an INSERT/UPDATE statement (ghost: scopes that have a default again are no longer `lost`) -/
def apply (sc : Bool) (f : Table ν → Table ν) (T : Tab ν) : Tab ν :=
  let r := f T.rows
  ⟨r, T.lost.filter fun o => !hasDefault sc o r⟩

/-- `DELETE FROM t WHERE p` (there are no delete triggers: `Ndn.C15.no_delete_triggers`; foreign keys
    are off).  Ghost: the scopes of deleted default rows become `lost`. -/
def delete (sc : Bool) (p : Row ν → Bool) (T : Tab ν) : Tab ν :=
  let r := T.rows.filter fun x => !p x
  ⟨r, (T.lost ++ (T.rows.filter fun x => p x && x.dflt).map (fun x => scopeKey sc x.owner)).filter fun o => !hasDefault sc o r⟩

end Tab

structure Db where
  ids : Tab Nat
  keys : Tab KeyName
  certs : Tab CertName
  deriving Repr

def Db.empty : Db := ⟨Tab.empty, Tab.empty, Tab.empty⟩

/-- the key locator a signer carries: a certificate name, or the caller's explicit `key_locator` -/
inductive Loc where
  | cert (c : CertName)
  | lit (n : Nat)
  deriving DecidableEq, Repr

/-- what `Tpm.get_signer(key_name, key_locator)` returns: it was asked for `key` and signs with the private
    key `priv` it read from that key's file when it was made -/
structure Signer where
  key : KeyName
  loc : Loc
  priv : Nat
  deriving DecidableEq, Repr

/-! ### the private-key directory -/

/-- content of file `f` -/
def fileGet (t : List (FileName × Nat)) (f : FileName) : Option Nat :=
  (t.find? fun e => e.1 = f).map (·.2)

/-- `os.path.exists` -/
def fileHas (t : List (FileName × Nat)) (f : FileName) : Bool := (fileGet t f).isSome

/-- `os.remove(f)` (a missing file is ignored) -/
def removeFile (t : List (FileName × Nat)) (f : FileName) : List (FileName × Nat) :=
  t.filter fun e => e.1 ≠ f

/-- `open(f, 'wb').write(p)`: creates or overwrites -/
def writeFile (t : List (FileName × Nat)) (f : FileName) (p : Nat) : List (FileName × Nat) :=
  removeFile t f ++ [(f, p)]

/-- what does not change while the store is used: the file-name function of `TpmFile`, and which
    `generate_key` is modelled (`guard = true`: as repaired, `false`: the code before the repair) -/
structure Cfg where
  fn : KeyName → FileName
  guard : Bool

structure Sys where
  cfg : Cfg
  cur : Db
  com : Db
  /-- the private-key directory: file name -> private key (number of the key pair) -/
  tpm : List (FileName × Nat)
  cache : List ((KeyName × Loc) × Signer)
  /-- number of key pairs generated so far -/
  nextKid : Nat
  fault : Option Nat

def Sys.init (fn : KeyName → FileName) : Sys := ⟨⟨fn, true⟩, Db.empty, Db.empty, [], [], 0, none⟩

/-- the code before the repair of `TpmFile.generate_key` -/
def Sys.initUnchanged (fn : KeyName → FileName) : Sys := { Sys.init fn with cfg := ⟨fn, false⟩ }

/-! ### the operation monad: state survives an exception -/

def M (α : Type) : Type := Sys → Except KErr α × Sys

namespace M
def mk {α} (f : Sys → Except KErr α × Sys) : M α := f
def run {α} (m : M α) (s : Sys) : Except KErr α × Sys := m s

protected def pure {α} (a : α) : M α := fun s => (.ok a, s)
protected def bind {α β} (m : M α) (f : α → M β) : M β := fun s =>
  match m s with
  | (.ok a, s') => f a s'
  | (.error e, s') => (.error e, s')

instance : Monad M where
  pure := M.pure
  bind := M.bind
end M

def raise {α} (e : KErr) : M α := M.mk fun s => (.error e, s)
def getS : M Sys := M.mk fun s => (.ok s, s)
def modS (f : Sys → Sys) : M Unit := M.mk fun s => (.ok (), f s)
def ofOpt {α} (e : KErr) : Option α → M α
  | some a => pure a
  | none => raise e

/-- `if c: raise e` -/
def raiseIf (c : Bool) (e : KErr) : M Unit := if c then raise e else pure ()
/-- `if c: m` -/
def whenM (c : Bool) (m : M Unit) : M Unit := if c then m else pure ()

/-- a fault point -/
def tick : M Unit := M.mk fun s =>
  match s.fault with
  | none => (.ok (), s)
  | some 0 => (.error .injected, { s with fault := none })
  | some (k + 1) => (.ok (), { s with fault := some k })

def modCur (f : Db → Db) : M Unit := modS fun s => { s with cur := f s.cur }

/-- `conn.commit()` -/
def commit : M Unit := do
  tick
  modS fun s => { s with com := s.cur }

/-! ### reads (the Mapping methods and `has_default_*` / `default_*`) -/

def idRow? (d : Db) (n : Nat) : Option (Row Nat) := d.ids.rows.find? fun r => r.name = n
/-- `Identity.__getitem__` (repaired: `… WHERE key_name=? AND identity_id=?`) -/
def keyRow? (d : Db) (idRid : Nat) (k : KeyName) : Option (Row KeyName) :=
  d.keys.rows.find? fun r => r.name = k && r.owner == idRid
/-- `Key.__getitem__` (repaired: `… WHERE certificate_name=? AND key_id=?`) -/
def certRow? (d : Db) (keyRid : Nat) (c : CertName) : Option (Row CertName) :=
  d.certs.rows.find? fun r => r.name = c && r.owner == keyRid

def idIter (d : Db) : List Nat := d.ids.rows.map (·.name)
def idLen (d : Db) : Nat := d.ids.rows.length
def keyIter (d : Db) (idRid : Nat) : List KeyName := (d.keys.rows.filter fun r => r.owner == idRid).map (·.name)
def keyLen (d : Db) (idRid : Nat) : Nat := (d.keys.rows.filter fun r => r.owner == idRid).length
def certIter (d : Db) (keyRid : Nat) : List CertName := (d.certs.rows.filter fun r => r.owner == keyRid).map (·.name)
/-- `Key.__len__` (repaired: counts the certificates of the key) -/
def certLen (d : Db) (keyRid : Nat) : Nat := (d.certs.rows.filter fun r => r.owner == keyRid).length

def defaultId? (d : Db) : Option (Row Nat) := d.ids.rows.find? fun r => r.dflt
def defaultKey? (d : Db) (idRid : Nat) : Option (Row KeyName) := d.keys.rows.find? fun r => r.dflt && r.owner == idRid
def defaultCert? (d : Db) (keyRid : Nat) : Option (Row CertName) := d.certs.rows.find? fun r => r.dflt && r.owner == keyRid

/-- `self[name]` -/
def lookupId (n : Nat) : M (Row Nat) := do
  let s ← getS
  ofOpt .keyError (idRow? s.cur n)

/-- `self[key_name[:-2]][key_name]` -/
def lookupKey (k : KeyName) : M (Row KeyName) := do
  let i ← lookupId k.idn
  let s ← getS
  ofOpt .keyError (keyRow? s.cur i.rid k)

/-! ### writes -/

def execSetDefaultId (n : Nat) : M Unit := do
  tick
  modCur fun d => { d with ids := d.ids.apply false (updSetDefault (trs .identities) n) }

def execSetDefaultKey (k : KeyName) : M Unit := do
  tick
  modCur fun d => { d with keys := d.keys.apply true (updSetDefault (trs .keys) k) }

def execSetDefaultCert (c : CertName) : M Unit := do
  tick
  modCur fun d => { d with certs := d.certs.apply true (updSetDefault (trs .certificates) c) }

def execInsertId (n : Nat) : M Unit := do
  tick
  let s ← getS
  match insertRow (trs .identities) 0 n s.cur.ids.rows with
  | none => raise .integrityError
  | some t => modCur fun d => { d with ids := d.ids.apply false fun _ => t }

/-- `INSERT INTO keys (identity_id, key_name, key_bits) VALUES (?, ?, ?)` -/
def execInsertKey (idRid : Nat) (k : KeyName) (bits : Nat) : M Unit := do
  tick
  let s ← getS
  match insertRow (trs .keys) idRid k s.cur.keys.rows with
  | none => raise .integrityError
  | some t => modCur fun d => { d with keys := d.keys.apply true fun _ => setData k bits t }

/-- `INSERT INTO certificates (key_id, …) VALUES ((SELECT id FROM keys WHERE key_name=?), ?, ?)`:
    no such key → NULL → NOT NULL constraint → IntegrityError -/
def execInsertCert (k : KeyName) (c : CertName) : M Unit := do
  tick
  let s ← getS
  match s.cur.keys.rows.find? fun r => r.name = k with
  | none => raise .integrityError
  | some kr =>
    match insertRow (trs .certificates) kr.rid c s.cur.certs.rows with
    | none => raise .integrityError
    | some t => modCur fun d => { d with certs := d.certs.apply true fun _ => t }

/-- `set_default_identity` -/
def setDefaultIdentity (n : Nat) : M Unit := do
  execSetDefaultId n
  commit

/-- `new_identity` -/
def newIdentity (n : Nat) : M Unit := do
  let s ← getS
  raiseIf (idRow? s.cur n).isSome .keyError
  execInsertId n
  commit
  let s ← getS
  whenM (defaultId? s.cur).isNone (setDefaultIdentity n)
  let _ ← lookupId n
  pure ()

/-- the `key_id` / `key_id_type` keyword arguments of `new_key` -/
inductive KeyIdSpec where
  /-- no `key_id`, `key_id_type='random'` (the default) -/
  | random
  /-- no `key_id`, `key_id_type='sha256'` -/
  | sha256
  /-- no `key_id`, any other `key_id_type` -/
  | badType
  /-- `key_id=<x>` (then `key_id_type` is not looked at) -/
  | explicit (x : Nat)
  deriving DecidableEq, Repr

/-- `Tpm.construct_key_name`: the key id of key pair `p`; `none` = ValueError (unsupported `key_id_type`) -/
def mkKid (p : Nat) : KeyIdSpec → Option KeyId
  | .random => some (.rnd p)
  | .sha256 => some (.hash p)
  | .badType => none
  | .explicit x => some (.lit x)

/-- `new_key` (`bad`: an unsupported `key_type`) -/
def newKey (n : Nat) (bad : Bool) (spec : KeyIdSpec) : M Unit := do
  let i ← lookupId n
  tick                                                   -- tpm.generate_key
  raiseIf bad .valueError
  let s ← getS
  let p := s.nextKid                                     -- the key pair that has just been generated
  let kid ← ofOpt .valueError (mkKid p spec)             -- construct_key_name
  let k : KeyName := ⟨n, kid⟩
  let f := s.cfg.fn k
  -- (repaired) a key name whose private key is already stored is refused before anything is written
  raiseIf (s.cfg.guard && fileHas s.tpm f) .valueError
  modS fun s => { s with nextKid := p + 1, tpm := writeFile s.tpm f p }     -- save_key
  tick                                                   -- tpm.get_signer(key_name)
  let s ← getS
  raiseIf (!fileHas s.tpm f) .keyError
  execInsertKey i.rid k p
  execInsertCert k ⟨k, 0⟩
  commit
  let s ← getS
  whenM (defaultKey? s.cur i.rid).isNone (do execSetDefaultKey k; commit)
  let s ← getS
  let _ ← ofOpt .keyError (keyRow? s.cur i.rid k)
  pure ()

/-- `touch_identity` -/
def touchIdentity (n : Nat) : M Unit := do
  let s ← getS
  whenM (idRow? s.cur n).isNone (do execInsertId n; commit; newKey n false .random)
  let s ← getS
  whenM (defaultId? s.cur).isNone (setDefaultIdentity n)
  let _ ← lookupId n
  pure ()

/-- `import_cert` -/
def importCert (k : KeyName) (c : CertName) : M Unit := do
  execInsertCert k c
  commit

/-- `kc[via].set_default_key(k)` -/
def setDefaultKey (via : Nat) (k : KeyName) : M Unit := do
  let _ ← lookupId via
  execSetDefaultKey k
  commit

/-- `kc[via[:-2]][via].set_default_cert(c)` -/
def setDefaultCert (via : KeyName) (c : CertName) : M Unit := do
  let _ ← lookupKey via
  execSetDefaultCert c
  commit

def clearCache : M Unit := modS fun s => { s with cache := [] }

/-- `del_cert` -/
def delCert (c : CertName) : M Unit := do
  tick
  modCur fun d => { d with certs := d.certs.delete true fun r => r.name = c }
  commit
  clearCache

/-- `del_key` -/
def delKey (k : KeyName) : M Unit := do
  let kr ← lookupKey k
  tick
  modCur fun d => { d with certs := d.certs.delete true fun r => r.owner == kr.rid }
  tick
  modCur fun d => { d with keys := d.keys.delete true fun r => r.name = k }
  commit
  tick                                                   -- tpm.delete_key
  modS fun s => { s with tpm := removeFile s.tpm (s.cfg.fn k) }
  clearCache

def delKeys : List KeyName → M Unit
  | [] => pure ()
  | k :: r => do delKey k; delKeys r

/-- `del_identity` -/
def delIdentity (n : Nat) : M Unit := do
  let i ← lookupId n
  let s ← getS
  delKeys (keyIter s.cur i.rid)
  tick
  modCur fun d => { d with ids := d.ids.delete false fun r => r.name = n }
  commit
  clearCache

/-- `kc[via[:-2]][via].del_cert(c)`: calls the non-existent `pib.del_certificate` -/
def delCertViaKey (via : KeyName) (_c : CertName) : M Unit := do
  let _ ← lookupKey via
  raise .attributeError

/-! ### get_signer -/

inductive Sel where
  | dflt
  | ident (n : Nat)
  | key (k : KeyName)
  | cert (c : CertName)
  deriving DecidableEq, Repr

/-- argument resolution of `get_signer`: (key name, certificate name) -/
def resolve (d : Db) : Sel → Option (KeyName × CertName)
  | .cert c => some (c.key, c)
  | .key k => do
    let i ← idRow? d k.idn
    let kr ← keyRow? d i.rid k
    let c ← defaultCert? d kr.rid
    pure (k, c.name)
  | .ident n => do
    let i ← idRow? d n
    let kr ← defaultKey? d i.rid
    let c ← defaultCert? d kr.rid
    pure (kr.name, c.name)
  | .dflt => do
    let i ← defaultId? d
    let kr ← defaultKey? d i.rid
    let c ← defaultCert? d kr.rid
    pure (kr.name, c.name)

def cacheGet (c : List ((KeyName × Loc) × Signer)) (k : KeyName × Loc) : Option Signer :=
  (c.find? fun e => e.1 = k).map (·.2)

/-- the key locator: the caller's explicit `key_locator`, else the selected certificate's name -/
def locOf (loc : Option Nat) (c : CertName) : Loc :=
  match loc with
  | some n => .lit n
  | none => .cert c

def getSigner (sel : Sel) (loc : Option Nat) : M Signer := do
  let s ← getS
  let (k, c) ← ofOpt .keyError (resolve s.cur sel)
  let l : Loc := locOf loc c
  match cacheGet s.cache (k, l) with
  | some sg => pure sg
  | none => do
    tick                                                 -- tpm.get_signer(key_name, key_locator)
    match fileGet s.tpm (s.cfg.fn k) with
    | some p => do
      let sg : Signer := ⟨k, l, p⟩
      modS fun s => { s with cache := s.cache ++ [((k, l), sg)] }
      pure sg
    | none => raise .keyError

/-- `shutdown()` + a new `KeychainSqlite3` on the same files: uncommitted work is rolled back -/
def reopen : M Unit := modS fun s => { s with cur := s.com, cache := [] }

/-! ### operations and histories -/

inductive Op where
  | newIdentity (n : Nat)
  | touchIdentity (n : Nat)
  | newKey (n : Nat) (bad : Bool) (spec : KeyIdSpec)
  | importCert (k : KeyName) (c : CertName)
  | setDefaultIdentity (n : Nat)
  | setDefaultKey (via : Nat) (k : KeyName)
  | setDefaultCert (via : KeyName) (c : CertName)
  | delIdentity (n : Nat)
  | delKey (k : KeyName)
  | delCert (c : CertName)
  | delCertViaKey (via : KeyName) (c : CertName)
  | getSigner (sel : Sel) (loc : Option Nat)
  | reopen
  deriving DecidableEq, Repr

def Op.prog : Op → M (Option Signer)
  | .newIdentity n => do Keychain.newIdentity n; pure none
  | .touchIdentity n => do Keychain.touchIdentity n; pure none
  | .newKey n b sp => do Keychain.newKey n b sp; pure none
  | .importCert k c => do Keychain.importCert k c; pure none
  | .setDefaultIdentity n => do Keychain.setDefaultIdentity n; pure none
  | .setDefaultKey v k => do Keychain.setDefaultKey v k; pure none
  | .setDefaultCert v c => do Keychain.setDefaultCert v c; pure none
  | .delIdentity n => do Keychain.delIdentity n; pure none
  | .delKey k => do Keychain.delKey k; pure none
  | .delCert c => do Keychain.delCert c; pure none
  | .delCertViaKey v c => do Keychain.delCertViaKey v c; pure none
  | .getSigner sel loc => do let sg ← Keychain.getSigner sel loc; pure (some sg)
  | .reopen => do Keychain.reopen; pure none

/-- one operation, optionally with a storage failure injected at its `f`-th fault point -/
def step (s : Sys) (of : Op × Option Nat) : Except KErr (Option Signer) × Sys :=
  let (r, s') := (of.1.prog).run { s with fault := of.2 }
  (r, { s' with fault := none })

def run (s : Sys) : List (Op × Option Nat) → Sys
  | [] => s
  | o :: r => run (step s o).2 r

end Ndn.Keychain
