import NdnModel.Receive
/-
  Model of src/ndn/encoding/ndnlp_v2.py : parse_lp_packet_v2, parse_lp_packet, make_network_nack
  (through TlvModel.parse / TlvModel.encode of src/ndn/encoding/tlv_model.py, for models made of
  UintField / BytesField / BoolField / one level of ModelField - which is what LpPacketValue is),
  and of appv2.py : NDNApp._put_raw_packet_with_pit_token and the `reply` closure of `_on_interest`.

  The field table of LpPacketValue (order, type numbers, kinds) is generated from the live class
  (lean/NdnGen/C10.lean).
-/
namespace Ndn.Lp
open Ndn Ndn.Recv

/-- kinds of leaf fields -/
inductive FKind where
  | uint | bytes | bool
  deriving DecidableEq, Repr, Inhabited

/-- kinds of fields of the top-level model: a leaf, or a nested model of leaves
    (`ModelField(type, Sub, ignore_critical)`) -/
inductive Kind where
  | flat (k : FKind)
  | model (fields : List (Nat × FKind)) (ignoreCritical : Bool)
  deriving DecidableEq, Repr, Inhabited

inductive FVal where
  | uint (n : Nat) | bytes (b : Bytes) | bool
  deriving DecidableEq, Repr, Inhabited

inductive Val where
  | flat (v : FVal)
  | model (fs : List (Nat × FVal))
  deriving DecidableEq, Repr, Inhabited

/-- generated description of the envelope format -/
structure Table where
  fields : List (Nat × Kind)
  tLpPacket : Nat
  tFragment : Nat
  tFragIndex : Nat
  tFragCount : Nat
  tPitToken : Nat
  tNack : Nat
  tNackReason : Nat
  /-- `TlvModel.parse` raises IndexError when an element's Length exceeds the wire -/
  lengthCheck : Bool
  deriving Repr, Inhabited

/-- Type and Length at the head of `rest`, and the bytes after them -/
def readTL (rest : Bytes) : Except PyErr (Nat × Nat × Bytes) := do
  let (t, st) ← parseTlNum rest 0
  let (l, sl) ← parseTlNum rest st
  pure (t, l, rest.drop (st + sl))

/-- the `while i < len(fields)` search: first field at index ≥ `pos` with this type number -/
def findFrom {κ} : List (Nat × κ) → Nat → Nat → Option (Nat × κ)
  | [], _, _ => none
  | (t, k) :: r, pos, typ =>
    if pos = 0 then
      if t = typ then some (0, k) else (findFrom r 0 typ).map fun p => (p.1 + 1, p.2)
    else (findFrom r (pos - 1) typ).map fun p => (p.1 + 1, p.2)

/-- `Field.parse_from(wire, offset, length)` for leaf fields; `body` = `wire[offset:]` -/
def parseFVal (k : FKind) (body : Bytes) (l : Nat) : Except PyErr FVal :=
  match k with
  | .bytes => .ok (.bytes (body.take l))
  | .bool => .ok .bool
  | .uint =>
    if l = 1 ∨ l = 2 ∨ l = 4 ∨ l = 8 then
      if body.length < l then .error .structError else .ok (.uint (beVal (body.take l)))
    else .error .valueError

/-- `TlvModel.parse(wire, markers, ignore_critical)`: the loop over elements.
    `rest` = `wire[offset:]`, `pos` = `field_pos`, `acc` = the fields set so far (by type number). -/
def parseLoop {κ ν} (tbl : List (Nat × κ)) (pv : κ → Bytes → Nat → Except PyErr ν) (ic chk : Bool) :
    Nat → Bytes → Nat → List (Nat × ν) → Except PyErr (List (Nat × ν))
  | 0, _, _, acc => .ok acc
  | fuel + 1, rest, pos, acc =>
    if rest.isEmpty then .ok acc
    else
      match readTL rest with
      | .error e => .error e
      | .ok (t, l, body) =>
        if chk && body.length < l then .error .indexError
        else
          match findFrom tbl pos t with
          | some (i, k) =>
            match pv k body l with
            | .error e => .error e
            | .ok x => parseLoop tbl pv ic chk fuel (body.drop l) (i + 1) (acc ++ [(t, x)])
          | none =>
            if t % 2 = 1 && !ic then .error .decodeError
            else parseLoop tbl pv ic chk fuel (body.drop l) pos acc

def parseFlat (tbl : List (Nat × FKind)) (ic chk : Bool) (wire : Bytes) : Except PyErr (List (Nat × FVal)) :=
  parseLoop tbl parseFVal ic chk wire.length wire 0 []

def parseVal (chk : Bool) (k : Kind) (body : Bytes) (l : Nat) : Except PyErr Val :=
  match k with
  | .flat fk => (parseFVal fk body l).map Val.flat
  | .model sub ic => (parseFlat sub ic chk (body.take l)).map Val.model

/-- `LpPacketValue.parse(wire, markers, ignore_critical=True)` -/
def parseValue (T : Table) (wire : Bytes) : Except PyErr (List (Nat × Val)) :=
  parseLoop T.fields (parseVal T.lengthCheck) true T.lengthCheck wire.length wire 0 []

def lookup {ν} (fs : List (Nat × ν)) (t : Nat) : Option ν :=
  match fs with
  | [] => none
  | (t', v) :: r => if t' = t then some v else lookup r t

def bytesOf : Option Val → Option Bytes
  | some (.flat (.bytes b)) => some b
  | _ => none

/-- `lp_pkt.nack` / `lp_pkt.nack.nack_reason` -/
def nackOf (T : Table) : Option Val → Option (Option Nat)
  | some (.model m) => some (match lookup m T.tNackReason with | some (.uint r) => some r | _ => none)
  | _ => none

/-- `parse_lp_packet_v2(wire, with_tl=True)` reduced to what `_receive` reads -/
def parseLp (T : Table) (wire : Bytes) : Except PyErr LpFacts := do
  let v ← parseAndCheckTl wire T.tLpPacket
  let fs ← parseValue T v
  if (lookup fs T.tFragIndex).isSome || (lookup fs T.tFragCount).isSome then .error .decodeError
  else pure { nack := nackOf T (lookup fs T.tNack), pitToken := bytesOf (lookup fs T.tPitToken),
              fragment := bytesOf (lookup fs T.tFragment) }

/-! ### encoding -/

/-- Value bytes of a leaf field as `encode_into` writes them -/
def encFVal : FVal → Bytes
  | .uint n => packUint n
  | .bytes b => b
  | .bool => []

def encFields (vals : List (Nat × FVal)) (tbl : List (Nat × FKind)) : Bytes :=
  tbl.flatMap fun f => match lookup vals f.1 with
    | some v => tlv f.1 (encFVal v)
    | none => []

def encVal (k : Kind) : Val → Bytes
  | .flat v => encFVal v
  | .model m => match k with
    | .model sub _ => encFields m sub
    | .flat _ => []

/-- `TlvModel.encode()`: the fields that are set, in table order -/
def encValue (T : Table) (vals : List (Nat × Val)) : Bytes :=
  T.fields.flatMap fun f => match lookup vals f.1 with
    | some v => tlv f.1 (encVal f.2 v)
    | none => []

/-- `make_network_nack(encoded_interest, nack_reason)` -/
def makeNetworkNack (T : Table) (interest : Bytes) (reason : Nat) : Bytes :=
  tlv T.tLpPacket (encValue T [(T.tNack, .model [(T.tNackReason, .uint reason)]),
                               (T.tFragment, .flat (.bytes interest))])

/-- the bytes `_put_raw_packet_with_pit_token(data, pit_token)` sends -/
def putWithPitToken (T : Table) (data token : Bytes) : Bytes :=
  tlv T.tLpPacket (encValue T [(T.tPitToken, .flat (.bytes token)), (T.tFragment, .flat (.bytes data))])

/-- the `reply` closure created by `_on_interest` (before its deadline): what is written to the face -/
def reply (T : Table) (token : Option Bytes) (data : Bytes) : Bytes :=
  match token with
  | none => data
  | some tok => putWithPitToken T data tok

/-- the decoders of the receive pipeline with the envelope layer made concrete;
    Interest and Data decoding stay abstract -/
def decoders (T : Table) (int : Bytes → Except PyErr IntFacts) (data : Bytes → Except PyErr DataFacts) :
    Decoders where
  lp := parseLp T
  tl := fun b => (parseTlNum b 0).map (·.1)
  interest := int
  data := data

/-! ### reply histories (several outstanding Interests, answered in any order) -/

inductive Ev where
  /-- an Interest reaches a handler; the PIT token (if any) it arrived with -/
  | interest (token : Option Bytes)
  /-- the application calls the `reply` closure of the `idx`-th handler invocation -/
  | reply (idx : Nat) (data : Bytes)
  deriving DecidableEq, Repr, Inhabited

/-- face output of a history; `closures` = the token captured by each invocation so far -/
def runReplies (T : Table) : List (Option Bytes) → List Ev → List Bytes
  | _, [] => []
  | cl, .interest tok :: r => runReplies T (cl ++ [tok]) r
  | cl, .reply i d :: r =>
    match cl[i]? with
    | some tok => reply T tok d :: runReplies T cl r
    | none => runReplies T cl r

end Ndn.Lp
