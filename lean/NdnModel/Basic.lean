/-
  Shared basics for all executable models: bytes, Python exception classes,
  hex / token helpers for the line protocol.  No Mathlib imports anywhere under NdnModel.
-/
namespace Ndn

abbrev Bytes := List UInt8

/-- Python exception classes that the modelled code can raise (class identity matters for C06/C07). -/
inductive PyErr where
  | indexError | structError | valueError | typeError | keyError | decodeError
  | invalidState | attributeError | unicodeError | overflowError | fuel | other
  deriving DecidableEq, Repr, Inhabited

def PyErr.name : PyErr → String
  | .indexError => "IndexError" | .structError => "struct.error" | .valueError => "ValueError"
  | .typeError => "TypeError" | .keyError => "KeyError" | .decodeError => "DecodeError"
  | .invalidState => "InvalidStateError" | .attributeError => "AttributeError"
  | .unicodeError => "UnicodeDecodeError" | .overflowError => "OverflowError"
  | .fuel => "FUEL" | .other => "Other"

/-- Python slice `buf[a:b]` for `0 ≤ a`, `0 ≤ b` (silently truncating). -/
def pySlice (buf : List α) (a b : Nat) : List α := (buf.take b).drop a

/-! ### hex -/

def hexDigit (n : Nat) : Char :=
  if n < 10 then Char.ofNat (48 + n) else Char.ofNat (87 + n)

def hexOfByte (b : UInt8) : List Char := [hexDigit (b.toNat / 16), hexDigit (b.toNat % 16)]

/-- lowercase hex; the empty byte string is written `-`. -/
def toHex (bs : Bytes) : String :=
  if bs.isEmpty then "-" else String.ofList (bs.flatMap hexOfByte)

def hexVal (c : Char) : Option Nat :=
  if '0' ≤ c ∧ c ≤ '9' then some (c.toNat - 48)
  else if 'a' ≤ c ∧ c ≤ 'f' then some (c.toNat - 87)
  else if 'A' ≤ c ∧ c ≤ 'F' then some (c.toNat - 55)
  else none

def fromHexChars : List Char → Option Bytes
  | [] => some []
  | [_] => none
  | a :: b :: rest => do
      let x ← hexVal a
      let y ← hexVal b
      let r ← fromHexChars rest
      pure (UInt8.ofNat (x * 16 + y) :: r)

def fromHex (s : String) : Option Bytes :=
  if s == "-" then some [] else fromHexChars s.toList

/-- `,`-separated list of hex strings; `.` is the empty list. -/
def fromHexList (s : String) : Option (List Bytes) :=
  if s == "." then some [] else (s.splitOn ",").mapM fromHex

def toHexList (l : List Bytes) : String :=
  if l.isEmpty then "." else ",".intercalate (l.map toHex)

def natList (s : String) : Option (List Nat) :=
  if s == "." then some [] else (s.splitOn ",").mapM String.toNat?

def showNatList (l : List Nat) : String :=
  if l.isEmpty then "." else ",".intercalate (l.map toString)

def showExcept {α} (f : α → String) : Except PyErr α → String
  | .ok a => "ok " ++ f a
  | .error e => "err " ++ e.name

end Ndn
