import NdnModel.Cascade
import NdnModel.Lvs.Match
/-!
  The trust-schema validator with the Light VerSec checker plugged in:
    src/ndn/app_support/light_versec/validator.py   lvs_validator (validate_name, sanity_check)
    src/ndn/app_support/light_versec/checker.py     Checker.root_of_trust, validate_user_fns
                                                    (`_trust_roots`, `_model_fns` collected by `_sanity_check`)

  Names are real names: lists of TLV-encoded components (`LName`).  The environment of the cascade
  model (`NdnModel/Cascade.lean`) is instantiated with `allowed := Checker.check` of the LVS model
  (`NdnModel/Lvs/Match.lean`), and the construction-time check of `lvs_validator` is computed from the
  LVS model (`root_of_trust`, `validate_user_fns`, `match` on the anchor's name) instead of being
  given as lists.

  `validate_name` returns `checker.check(name, cert_name)`; an exception raised by `check` (an empty packet
  name — `name[-1]`; a user function that raises; `LvsModelError` for an undefined user function) is not
  caught anywhere on the way to the caller of the validator (`Ndn.C14.check_exception_uncaught`): it is the
  outcome of the validation (`Verdict.raise`), also when it happens below a fetched certificate.  The class is
  mapped into `PyErr` by `pyOfLvs` (LvsModelError / SemanticError / RecursionError are `Other`).  On a model
  accepted by the loader with user functions that do not raise, `check` raises only on an empty name
  (theorem `Ndn.C12.check_total`).  Trusted: a user function does not raise one of the three classes
  `CascadeChecker.validate` catches (ValidationFailure, InterestTimeout, InterestNack).
-/
namespace Ndn.Cascade
open Ndn

/-- a real name: the list of its components, each TLV-encoded -/
abbrev LName := List Bytes

def pyOfLvs : Lvs.LvsErr → PyErr
  | .indexError => .indexError
  | .typeError => .typeError
  | .attributeError => .attributeError
  | _ => .other                      -- LvsModelError, SemanticError, RecursionError

/-- `validate_name`'s call `checker.check(name, cert_name)`, exceptions included -/
def lvsAllowed (m : Lvs.Model) (env : Lvs.FnEnv) (pkt key : LName) : Except PyErr Bool :=
  match Lvs.check m env pkt key with
  | .ok b => .ok b
  | .error e => .error (pyOfLvs e)

/-! ### what `_sanity_check` collects, `root_of_trust`, `validate_user_fns` -/

/-- the nodes `dfs` visits (each once on a model that passes the check) -/
def visited (m : Lvs.Model) : List Nat := Lvs.collect m (m.nodes.length + 1) m.startId

/-- `in_deg_nodes`: every node listed as a signer by a visited node -/
def inDegNodes (m : Lvs.Model) : List Nat := (visited m).flatMap (Lvs.signersOf m)

/-- `self._trust_roots = {n for n in in_deg_nodes if not self.model.nodes[n].sign_cons}` -/
def trustRoots (m : Lvs.Model) : List Nat := (inDegNodes m).filter fun k => (Lvs.signersOf m k).isEmpty

/-- `Checker.root_of_trust()` (a set in Python: order and repetitions are not observable) -/
def rootOfTrust (m : Lvs.Model) : List String := (trustRoots m).flatMap (Lvs.ruleNamesOf m)

/-- the user-function identifiers of one node's pattern edges -/
def nodeFns (node : Lvs.Node) : List String :=
  node.pEdges.flatMap fun pe => pe.cons.flatMap fun cl => cl.filterMap fun o =>
    match o.fn with
    | some f => f.fnId
    | none => none

/-- `self._model_fns` -/
def modelFns (m : Lvs.Model) : List String :=
  (visited m).flatMap fun n => match m.nodes[n]? with
    | some node => nodeFns node
    | none => []

/-- `Checker.validate_user_fns()` -/
def userFnsOk (m : Lvs.Model) (env : Lvs.FnEnv) : Bool := (modelFns m).all fun id => (env id).isSome

/-- `ta_matches = sum((m[0] for m in checker.match(cert_name)), start=[])` -/
def anchorMatches (m : Lvs.Model) (env : Lvs.FnEnv) (name : LName) : Except Lvs.LvsErr (List String) :=
  match Lvs.matchNames m env name with
  | .error e => .error e
  | .ok (_, some e) => .error e                  -- the exception leaves the generator inside `sum`
  | .ok (ms, none) => .ok (ms.flatMap (·.1))

/-- `lvs_validator` up to `CascadeChecker.__init__`, computed from the LVS model:
    `sanity_check()` (user functions first, then the anchor's matches against the roots of trust),
    then the self-signature check of `CascadeChecker.__init__` (`Cascade.construct`). -/
def constructLvs (crypto : Key → Obj LName → Bool) (m : Lvs.Model) (env : Lvs.FnEnv)
    (anchor : Obj LName) (anchorKey : Key) : Except PyErr (LName × Key) :=
  if userFnsOk m env = false then .error .valueError
  else match anchorMatches m env anchor.name with
    | .error e => .error (pyOfLvs e)
    | .ok matched => construct crypto ⟨true, rootOfTrust m, matched, anchor, anchorKey⟩

/-- a validator instance over a Light VerSec schema -/
structure Inst where
  model      : Lvs.Model
  fns        : Lvs.FnEnv
  crypto     : Key → Obj LName → Bool
  world      : Interest LName → Option (Outcome LName)
  anchorName : LName
  anchorKey  : Key

/-- the environment of the cascade model: the signing check is the LVS checker -/
def Inst.env (I : Inst) : Env LName :=
  ⟨lvsAllowed I.model I.fns, I.crypto, I.world, I.anchorName, I.anchorKey⟩

/-- the instance placed in front of the network `w` (its own `world` field is the network it was described with) -/
def Inst.at (I : Inst) (w : World LName) : Inst := { I with world := w }

/-- the instance without its network, holding the storage object `r` (model with `world` events, `Cascade.runD`) -/
def Inst.cfg (I : Inst) (r : StoreRef) : Cfg LName :=
  ⟨lvsAllowed I.model I.fns, I.crypto, I.anchorName, I.anchorKey, r⟩

end Ndn.Cascade
