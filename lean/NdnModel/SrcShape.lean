import NdnModel.Basic
/-
  Vocabulary of the tables generated from the SOURCE TEXT of the pending-Interest table, the handler table and the
  validation gate (lean/NdnGen/C03.lean, C04.lean, C05.lean; extractor harness/props/pit_extract.py, `ast` only).

  Two kinds of entries:
  * values the models COMPUTE WITH (constants, comparison operators, `except` class lists, the set of verdicts that
    deliver, the way a default is substituted): small inductive types with their meaning defined here
    (`Cmp.holds`, `Dflt.apply`, `Deliver.lets`, `SigReq.holds`, `BytesCmp.holds`, `Budget`);
  * guard shapes the models MIRROR (which entries a loop keeps, which test precedes `set_result`, in which order the
    gate runs its steps): the normalised text of the guard (`not` pushed into comparisons, operands of commutative
    operators sorted, the loop variable written `E`, the new pending list `L`, the table `PIT`).
  An entry the extractor does not recognise is `.unknown` / `"unknown: …"`; the pinned theorems
  (`Ndn.C03.gen_*`, `Ndn.C04.gen_*`, `Ndn.C05.gen_*`) then stop checking, and the model drivers answer `bad-table`.
-/
namespace Ndn.Src

/-- a comparison operator found in the source -/
inductive Cmp where
  | lt | le | gt | ge | eq | ne | unknown
  deriving DecidableEq, Repr, Inhabited

def Cmp.holds : Cmp → Nat → Nat → Bool
  | .lt, a, b => a < b
  | .le, a, b => a ≤ b
  | .gt, a, b => a > b
  | .ge, a, b => a ≥ b
  | .eq, a, b => a == b
  | .ne, a, b => a != b
  | .unknown, _, _ => false

/-- how a default replaces a missing value: `x if x is not None else d` (also written as an `if` statement) or
    `x or d` (which also replaces 0) -/
inductive Dflt where
  | ifNotNone | orElse | unknown
  deriving DecidableEq, Repr, Inhabited

def Dflt.apply : Dflt → Option Nat → Nat → Nat
  | .ifNotNone, some x, _ => x
  | .ifNotNone, none, d => d
  | .orElse, some x, d => if x = 0 then d else x
  | .orElse, none, d => d
  | .unknown, some x, _ => x
  | .unknown, none, d => d

/-- the members of `types.ValidResult` -/
inductive VR where
  | fail | timeout | silence | pass | allowBypass | unknown
  deriving DecidableEq, Repr, Inhabited

/-- exception classes named by the `except` clauses around `wait_for` / a validator call (`any` = `Exception`,
    `BaseException` or a bare `except`) -/
inductive Exc where
  | timeoutError | cancelledError | keyError | any | unknown
  deriving DecidableEq, Repr, Inhabited

/-- which values of `valid` reach `set_result` / the handler: the listed members only
    (`valid == A or valid == B`, `valid in (A, B)`), everything but the listed members (the listed ones return
    early), or Python truthiness (legacy front-end) -/
inductive Deliver where
  | only (l : List VR) | allBut (l : List VR) | truthy | unknown
  deriving DecidableEq, Repr, Inhabited

/-- how long `_wait_for_data` waits: the whole lifetime counted from the await (legacy), or until the deadline
    fixed at express time - with `grace` ms from the await when `deadline - now <late> 0` (current) -/
inductive Budget where
  | fullLifetime | untilDeadline (late : Cmp) (grace : Nat) | unknown
  deriving DecidableEq, Repr, Inhabited

/-- when the gate requires the digest check / the validator -/
inductive SigReq where
  | paramsOrSig | sigOnly | paramsOnly | always | unknown
  deriving DecidableEq, Repr, Inhabited

def SigReq.holds : SigReq → (hasParams hasSig : Bool) → Bool
  | .paramsOrSig, p, s => p || s
  | .sigOnly, _, s => s
  | .paramsOnly, p, _ => p
  | .always, _, _ => true
  | .unknown, _, _ => false

/-- how a checker compares the digest it computed with the one in the packet: `computed == value`, or
    `all(x == y for x, y in zip(computed, value))` (which stops at the shorter one) -/
inductive BytesCmp where
  | fullEq | zipAll | unknown
  deriving DecidableEq, Repr, Inhabited

def BytesCmp.holds : BytesCmp → Bytes → Bytes → Bool
  | .fullEq, a, b => a == b
  | .zipAll, a, b => (a.zip b).all fun p => p.1 == p.2
  | .unknown, _, _ => false

/-- guards of an `InterestTreeNode` class (normalised source text) -/
structure NodeShape where
  /-- value of `passed` for entry `E` in `satisfy` -/
  satisfyPasses : String
  /-- what happens to a passed entry -/
  satisfyHands : String
  /-- … and to one that did not pass -/
  satisfyElse : String
  /-- the statements after the loop of `satisfy` -/
  satisfyKeep : String
  /-- current front-end: the guard in `PendingIntEntry.satisfy` between the validator call and completing the future -/
  satisfyDone : String
  /-- `nack_interest`: condition under which an entry stays -/
  nackKeep : String
  /-- … condition under which its future is failed, and with what -/
  nackFails : String
  /-- … the statements after the loop -/
  nackList : String
  /-- `timeout`: condition under which an entry stays -/
  timeoutKeep : String
  timeoutReturn : String
  /-- `cancel`: the call and the condition under which it is made -/
  cancel : String
  deriving DecidableEq, Repr, Inhabited

/-- pending-Interest part of `NDNApp` -/
structure PitShape where
  defaultLifetime : Nat
  lifetimeDflt : Dflt
  budget : Budget
  /-- `wait_for(future, timeout=lifetime/<this>)`: the unit of lifetimes is the millisecond -/
  msPerSecond : Nat
  /-- `except` clauses around `wait_for`: class, whether the handler calls `_remove_pending`, what it raises -/
  waitHandlers : List (Exc × Bool × String)
  /-- `express_raw_interest` honours `no_response` before anything is recorded -/
  noResponse : Bool
  express : String
  removePending : String
  onData : String
  onNack : String
  cleanUp : String
  /-- classes caught around the Data validator call, and the verdict the handler substitutes -/
  dataCaught : List Exc
  dataCaughtAs : VR
  dataNoValidator : String
  dataDelivers : Deliver
  dataFailure : String
  deriving DecidableEq, Repr, Inhabited

/-- one handler table (attach / detach / dispatch) -/
structure FibShape where
  attach : String
  detach : String
  noRoute : String
  noCallback : String
  deriving DecidableEq, Repr, Inhabited

/-- the `reply` closure of appv2 `_on_interest` and the deadline it captures -/
structure ReplyShape where
  defaultLifetime : Nat
  lifetimeDflt : Dflt
  /-- `now <cmp> deadline`: too late -/
  lateCmp : Cmp
  lateReturns : String
  successReturns : String
  send : String
  sendRequiresRunning : Bool
  deriving DecidableEq, Repr, Inhabited

/-- the incoming-Interest gate of one front-end -/
structure GateShape where
  /-- the steps in the order they run -/
  order : List String
  digestWhen : SigReq
  digestFail : String
  validateWhen : SigReq
  /-- what stands in for a route without validator (text), and - when it is a constant verdict - that verdict -/
  noValidator : String
  noValidatorAs : Option VR
  /-- `valid` for an Interest that needs no validation -/
  plain : VR
  delivers : Deliver
  validatorArgs : String
  deriving DecidableEq, Repr, Inhabited

end Ndn.Src
