import NdnModel.TlNum
import NdnModel.Utf8
/-
  Generic model of src/ndn/encoding/tlv_model.py : a TlvModel class is a `List Schema`, an
  instance is a `List Value` (one value per field, in `_encoded_fields` order).
  `encLen`  = TlvModel.encoded_length  (the arithmetic of the first pass)
  `enc`     = TlvModel.encode          (the bytes written by the second pass)
  `parse`   = TlvModel.parse           (the scan loop, faithfully: field search from field_pos,
              critical-bit rule, repeated / map handling, bounds check, offsets for markers)
-/
namespace Ndn.Codec
open Ndn

inductive Schema where
  | uint (typ : Nat) (fixedLen : Option Nat)
  | bool (typ : Nat)
  | bytes (typ : Nat) (isString : Bool)
  | name (typ : Nat)
  | model (typ : Nat) (fields : List Schema) (ignoreCritical : Bool)
  | repeated (elem : Schema)
  | map (key : Schema) (val : Schema)
  | marker                    -- ProcedureArgument / OffsetMarker: no bytes; parse records an offset
  deriving Repr, Inhabited

inductive Value where
  | none
  | uint (v : Nat)
  | bool                      -- a present BoolField (True)
  | bytes (b : Bytes)         -- byte strings and (as UTF-8) text
  | name (comps : List Bytes) -- encoded components
  | model (fields : List Value)
  | list (elems : List Value)
  | map (entries : List (Value × Value))
  deriving Repr, Inhabited

/-- the Type number a field is looked up by in `parse` (`type_num`; −1 for markers) -/
def Schema.typ : Schema → Option Nat
  | .uint t _ => some t
  | .bool t => some t
  | .bytes t _ => some t
  | .name t => some t
  | .model t _ _ => some t
  | .repeated e => e.typ
  | .map k _ => k.typ
  | .marker => none

def concatB : List Bytes → Bytes
  | [] => []
  | b :: r => b ++ concatB r

def beN (w : Nat) (v : Nat) : Bytes :=
  if w = 1 then be1 v else if w = 2 then be2 v else if w = 4 then be4 v else be8 v

def uintWidth (fixedLen : Option Nat) (v : Nat) : Nat :=
  match fixedLen with
  | some w => w
  | none => if v ≤ 0xFF then 1 else if v ≤ 0xFFFF then 2 else if v ≤ 0xFFFFFFFF then 4 else 8

/-! ### first pass: encoded_length -/
mutual
def encLen : Schema → Value → Except PyErr Nat
  | _, .none => .ok 0
  | .uint t fl, .uint v =>
      let w := uintWidth fl v
      if v ≥ 256 ^ w then .error .valueError else .ok (tlNumSize t + 1 + w)
  | .bool t, .bool => .ok (tlNumSize t + 1)
  | .bytes t _, .bytes b => .ok (tlNumSize t + tlNumSize b.length + b.length)
  | .name _, .name cs =>
      let l := (concatB cs).length
      .ok (1 + tlNumSize l + l)
  | .model t fs _, .model vs => do
      let l ← encLenFields fs vs
      pure (tlNumSize t + tlNumSize l + l)
  | .repeated e, .list vs => encLenList e vs
  | .map k v, .map es => encLenMap k v es
  | .marker, _ => .ok 0
  | _, _ => .error .typeError
def encLenFields : List Schema → List Value → Except PyErr Nat
  | [], _ => .ok 0
  | _ :: _, [] => .ok 0
  | s :: ss, v :: vs => do
      let a ← encLen s v
      let b ← encLenFields ss vs
      pure (a + b)
def encLenList : Schema → List Value → Except PyErr Nat
  | _, [] => .ok 0
  | e, v :: vs => do
      let a ← encLen e v
      let b ← encLenList e vs
      pure (a + b)
def encLenMap : Schema → Schema → List (Value × Value) → Except PyErr Nat
  | _, _, [] => .ok 0
  | k, v, (a, b) :: r => do
      let x ← encLen k a
      let y ← encLen v b
      let z ← encLenMap k v r
      pure (x + y + z)
end

/-! ### second pass: the bytes -/

/-- one element; `struct.pack_into` raises struct.error for a Type or Length that does not fit 64 bits -/
def tlvE (t : Nat) (body : Bytes) : Except PyErr Bytes :=
  if t < 2 ^ 64 ∧ body.length < 2 ^ 64 then .ok (tlv t body) else .error .structError

mutual
def enc : Schema → Value → Except PyErr Bytes
  | _, .none => .ok []
  | .uint t fl, .uint v =>
      let w := uintWidth fl v
      if v ≥ 256 ^ w then .error .valueError else tlvE t (beN w v)
  | .bool t, .bool => tlvE t []
  | .bytes t _, .bytes b => tlvE t b
  | .name _, .name cs => tlvE 7 (concatB cs)
  | .model t fs _, .model vs => do
      let body ← encFields fs vs
      tlvE t body
  | .repeated e, .list vs => encList e vs
  | .map k v, .map es => encMap k v es
  | .marker, _ => .ok []
  | _, _ => .error .typeError
def encFields : List Schema → List Value → Except PyErr Bytes
  | [], _ => .ok []
  | _ :: _, [] => .ok []
  | s :: ss, v :: vs => do
      let a ← enc s v
      let b ← encFields ss vs
      pure (a ++ b)
def encList : Schema → List Value → Except PyErr Bytes
  | _, [] => .ok []
  | e, v :: vs => do
      let a ← enc e v
      let b ← encList e vs
      pure (a ++ b)
def encMap : Schema → Schema → List (Value × Value) → Except PyErr Bytes
  | _, _, [] => .ok []
  | k, v, (a, b) :: r => do
      let x ← enc k a
      let y ← enc v b
      let z ← encMap k v r
      pure (x ++ y ++ z)
end

/-! ### parse -/

/-- `Name.decode(buf, off)`'s component loop: `length` bytes of components starting at `off`.
    (as repaired: a component overrunning the Name's Length is an IndexError) -/
def decodeComps : Nat → Bytes → Nat → Nat → Except PyErr (List Bytes)
  | 0, _, _, _ => .error .fuel
  | fuel + 1, buf, off, length =>
    if length = 0 then .ok [] else do
      let (_, st) ← parseTlNum buf off
      let (lc, sl) ← parseTlNum buf (off + st)
      let n := st + sl + lc
      if n > length then .error .indexError
      else do
        let rest ← decodeComps fuel buf (off + n) (length - n)
        pure (pySlice buf off (off + n) :: rest)

/-- `Name.decode(buf, off)[0]` -/
def decodeName (buf : Bytes) (off : Nat) : Except PyErr (List Bytes) := do
  let (typ, st) ← parseTlNum buf off
  if typ ≠ 7 then .error .valueError else do
    let (length, sl) ← parseTlNum buf (off + st)
    if length > buf.length - (off + st + sl) then .error .indexError
    else decodeComps (length + 1) buf (off + st + sl) length

/-- index of the first field at position ≥ pos whose Type is `t` -/
def findField (fs : List Schema) (pos : Nat) (t : Nat) : Option Nat :=
  match fs with
  | [] => none
  | s :: r =>
    if pos = 0 then
      (if s.typ = some t then some 0 else (findField r 0 t).map (· + 1))
    else (findField r (pos - 1) t).map (· + 1)

def initVal : Schema → Value
  | .repeated _ => .list []
  | .map _ _ => .map []
  | _ => .none

/-- skipping_process for fields in [lo, hi): offset markers record `off` -/
def skipMarkers : List Schema → List Value → Nat → Nat → Nat → List Value
  | s :: ss, v :: vs, lo, hi, off =>
    (if lo = 0 ∧ 0 < hi then (match s with | .marker => Value.uint off | _ => v) else v)
      :: skipMarkers ss vs (lo - 1) (hi - 1) off
  | _, vs, _, _, _ => vs

def listOf : Option Value → List Value
  | some (.list l) => l
  | _ => []

def mapOf : Option Value → List (Value × Value)
  | some (.map l) => l
  | _ => []

def keyEq : Value → Value → Bool
  | .uint a, .uint b => a == b
  | .bytes a, .bytes b => a == b
  | _, _ => false

def mapSet : List (Value × Value) → Value → Value → List (Value × Value)
  | [], k, v => [(k, v)]
  | (k', v') :: r, k, v => if keyEq k' k then (k', v) :: r else (k', v') :: mapSet r k v

/-- `UintField.parse_from`: declared Length must be 1, 2, 4 or 8 (ValueError), and `struct.unpack_from`
    needs that many bytes in the wire (struct.error when the element overruns the wire) -/
def leafCheck (s : Schema) (len : Nat) (body : Bytes) : Except PyErr Unit :=
  match s with
  | .uint _ _ =>
    if len = 1 ∨ len = 2 ∨ len = 4 ∨ len = 8 then
      (if body.length = len then .ok () else .error .structError)
    else .error .valueError
  | _ => .ok ()

/-- after a map key: skip unrecognised elements up to the element carrying the value type -/
def findMapValue : Nat → Option Nat → Bool → Bytes → Nat → Except PyErr (Nat × Bytes × Bytes × Bytes × Nat)
  | 0, _, _, _, _ => .error .fuel
  | fuel + 1, vt, ic, rest, off => do
    let (typ, st) ← parseTlNum rest 0
    let (len, sl) ← parseTlNum rest st
    let hdr := st + sl
    if some typ = vt then
      pure (len, pySlice rest hdr (hdr + len), rest, rest.drop (hdr + len), off + hdr + len)
    else if typ % 2 = 1 ∧ ¬ ic then .error .decodeError
    else findMapValue fuel vt ic (rest.drop (hdr + len)) (off + hdr + len)

mutual
/-- `Field.parse_from` on an element whose Value is `body` and whose whole TLV is `elem`
    (both silently truncated at the end of the wire, as Python slicing does) -/
def parseValue : Nat → Schema → Bytes → Bytes → Except PyErr Value
  | 0, _, _, _ => .error .fuel
  | fuel + 1, s, body, elem =>
    match s with
    | .uint _ _ => .ok (.uint (beVal body))   -- width and bounds are checked by `uintCheck` in the caller
    | .bool _ => .ok .bool
    | .bytes _ isStr =>
      if isStr then (if utf8Valid body then .ok (.bytes body) else .error .valueError) else .ok (.bytes body)
    | .name _ => do let cs ← decodeName elem 0; pure (.name cs)
    | .model _ fs ic => do
        let vs ← parseFields fuel fs ic body 0 0 (fs.map initVal)
        pure (.model vs)
    | .repeated _ => .error .other      -- handled by the scan loop (element type is parsed directly)
    | .map _ _ => .error .other
    | .marker => .ok .none

/-- the scan loop of `TlvModel.parse`: `rest` = bytes from the current offset `off` on -/
def parseFields : Nat → List Schema → Bool → Bytes → Nat → Nat → List Value → Except PyErr (List Value)
  | 0, _, _, _, _, _, _ => .error .fuel
  | fuel + 1, fs, ic, rest, off, pos, acc =>
    if rest.isEmpty then .ok acc else do
      let (typ, st) ← parseTlNum rest 0
      let (len, sl) ← parseTlNum rest st
      let hdr := st + sl
      let body := pySlice rest hdr (hdr + len)
      let elem := rest      -- Name.decode(wire, offset_btl) reads from the element start to the end of the wire
      match findField fs pos typ with
      | none =>
        if typ % 2 = 1 ∧ ¬ ic then .error .decodeError
        else parseFields fuel fs ic (rest.drop (hdr + len)) (off + hdr + len) pos acc
      | some i =>
        let acc1 := skipMarkers fs acc pos i off
        match fs[i]? with
        | none => .error .other
        | some s =>
          match s with
          | .repeated e => do
            leafCheck e len body
            let v ← parseValue fuel e body elem
            let old := listOf acc1[i]?
            parseFields fuel fs ic (rest.drop (hdr + len)) (off + hdr + len) i (acc1.set i (.list (old ++ [v])))
          | .map ks vs => do
            leafCheck ks len body
            let k ← parseValue fuel ks body elem
            let (len2, body2, elem2, rest3, off3) ← findMapValue fuel vs.typ ic (rest.drop (hdr + len)) (off + hdr + len)
            leafCheck vs len2 body2
            let v ← parseValue fuel vs body2 elem2
            let old := mapOf acc1[i]?
            parseFields fuel fs ic rest3 off3 i (acc1.set i (.map (mapSet old k v)))
          | _ => do
            leafCheck s len body
            let v ← parseValue fuel s body elem
            parseFields fuel fs ic (rest.drop (hdr + len)) (off + hdr + len) (i + 1) (acc1.set i v)
end

/-- `Cls.parse(wire, ignore_critical)` -/
def parse (fs : List Schema) (ic : Bool) (wire : Bytes) : Except PyErr (List Value) :=
  parseFields (wire.length + 1) fs ic wire 0 0 (fs.map initVal)

end Ndn.Codec
