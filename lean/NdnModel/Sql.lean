/-
  Vocabulary for the declarative part of the sqlite keychain (`INITIALIZE_SQL` of
  src/ndn/security/keychain/keychain_sqlite3.py): the `CREATE TRIGGER` statements as data.
  The table itself is *generated* from the live string on every run (`NdnGen/C15.lean`);
  `NdnModel/Keychain.lean` interprets that table.
-/
namespace Ndn.Sql

inductive Tbl where | identities | keys | certificates
  deriving DecidableEq, Repr

inductive Timing where | before | after
  deriving DecidableEq, Repr

inductive Event where | insert | update | delete
  deriving DecidableEq, Repr

/-- recognised shapes of a trigger's `WHEN` clause.  `scoped = true` means the sub-select is
    restricted to the parent of the NEW row (`AND identity_id=NEW.identity_id` / `key_id=NEW.key_id`). -/
inductive Cond where
  | newIsDefault                 -- NEW.is_default=1
  | newIsDefaultOldNot           -- NEW.is_default=1 AND OLD.is_default=0
  | noDefault (sc : Bool)    -- NOT EXISTS (SELECT id FROM t WHERE is_default=1 [AND parent=NEW.parent])
  | always                       -- no WHEN clause
  | unknown                      -- anything else (no theorem about the table survives this)
  deriving DecidableEq, Repr

/-- recognised shapes of a trigger body (a single UPDATE on the trigger's own table). -/
inductive Action where
  | clearDefaults (sc : Bool)   -- UPDATE t SET is_default=0 [WHERE parent=NEW.parent]
  | setDefaultByName                -- UPDATE t SET is_default=1 WHERE <name column>=NEW.<name column>
  | unknown
  deriving DecidableEq, Repr

structure Trigger where
  name : String
  tbl : Tbl
  timing : Timing
  event : Event
  cond : Cond
  action : Action
  deriving DecidableEq, Repr

end Ndn.Sql
