import NdnModel.Name
import NdnModel.SegFetch
/-
  Byte-level half of the segmented-fetch model (`ndn/app_support/segment_fetcher.py`): the fetcher as it works on
  *names* — lists of encoded components — instead of segment numbers:

      name, meta, content = await retry(True)                 # Interest for the prefix, CanBePrefix
      if Component.get_type(name[-1]) != Component.TYPE_SEGMENT: yield content; return
      if Component.to_number(name[-1]) == 0: yield content; (return if meta.final_block_id == name[-1]); seg_no = 1
      else: seg_no = 0
      while True:
          name[-1] = Component.from_segment(seg_no)           # replaces the last component of the LAST DATA NAME
          name, meta, content = await retry(False)
          yield content
          if meta.final_block_id == name[-1]: return
          seg_no += 1

  against a producer that sees Interest names only (`prod name canBePrefix`).  `retry`, `Outcome`, scripts are those of
  `NdnModel/SegFetch.lean`.  The log records the *name* of every Interest with what happened to it.
-/
namespace Ndn.SegFetch
open Ndn

/-- `Component.TYPE_SEGMENT` -/
def TYPE_SEGMENT : Nat := 50

/-- `Component.from_segment(n)` for `0 ≤ n < 2^64` (outside, `pack_uint_bytes` raises struct.error) -/
def segComp (n : Nat) : Bytes := tlv TYPE_SEGMENT (packUint n)

/-- a Data packet as the fetcher sees it: name, `meta.final_block_id`, content (an identifier) -/
structure DataB where
  name : List Bytes
  fbi : Option Bytes
  content : Nat
  deriving DecidableEq, Repr

/-- how the byte-level fetch ends: like the abstract one, or with an exception raised by a `Component` function
    on a malformed last component / an empty Data name -/
inductive EndB where
  | fin (e : End)
  | raised (e : PyErr)
  deriving DecidableEq, Repr

structure ResultB where
  yielded : List Nat
  log : List (List Bytes × Outcome)
  end_ : EndB
  deriving DecidableEq, Repr

/-- `meta.final_block_id == name[-1]` (bytes compared by content; `None` equals no component) -/
def fbiNamesLast (d : DataB) : Bool :=
  match d.fbi, d.name.getLast? with
  | some f, some c => f == c
  | _, _ => false

/-- the `while True:` loop; `name` is the name of the last Data received -/
def fetchLoopB (limit : Nat) (prod : List Bytes → Bool → Option DataB) :
    (fuel : Nat) → (name : List Bytes) → (segNo : Nat) → List Outcome → ResultB
  | 0, _, _, _ => ⟨[], [], .fin .fuel⟩
  | fuel + 1, name, i, sc =>
    let nm := name.dropLast ++ [segComp i]
    let r := retry limit (prod nm false).isSome (limit + 1) 0 sc
    let lg := r.2.2.map fun o => (nm, o)
    match r.1, prod nm false with
    | .ok, some d =>
      if fbiNamesLast d then ⟨[d.content], lg, .fin .done⟩
      else
        let t := fetchLoopB limit prod fuel d.name (i + 1) r.2.1
        ⟨d.content :: t.yielded, lg ++ t.log, t.end_⟩
    | .ok, none => ⟨[], lg, .fin .fuel⟩
    | e, _ => ⟨[], lg, .fin (endOf e)⟩

/-- `segment_fetcher(app, pre, …)`; `fuel` bounds the number of segments requested -/
def fetchB (limit : Nat) (prod : List Bytes → Bool → Option DataB) (pre : List Bytes) (fuel : Nat)
    (sc : List Outcome) : ResultB :=
  let r := retry limit (prod pre true).isSome (limit + 1) 0 sc
  let lg := r.2.2.map fun o => (pre, o)
  match r.1, prod pre true with
  | .ok, some d =>
    match d.name.getLast? with
    | none => ⟨[], lg, .raised .indexError⟩                      -- `name[-1]` of an empty name
    | some c =>
      match Comp.getType c with
      | .error e => ⟨[], lg, .raised e⟩
      | .ok t =>
        if t ≠ TYPE_SEGMENT then ⟨[d.content], lg, .fin .done⟩
        else
          match Comp.toNumber c with
          | .error e => ⟨[], lg, .raised e⟩
          | .ok n =>
            if n = 0 then
              if fbiNamesLast d then ⟨[d.content], lg, .fin .done⟩
              else
                let t := fetchLoopB limit prod fuel d.name 1 r.2.1
                ⟨d.content :: t.yielded, lg ++ t.log, t.end_⟩
            else
              let t := fetchLoopB limit prod fuel d.name 0 r.2.1
              ⟨t.yielded, lg ++ t.log, t.end_⟩
  | .ok, none => ⟨[], lg, .fin .fuel⟩
  | e, _ => ⟨[], lg, .fin (endOf e)⟩

/-! ### the simulated producer of a `Scenario`, seeing names only -/

/-- segment `i` of the object published under `base`: named `base ++ [segment component i]`, FinalBlockId = the
    segment component of the number the marker names -/
def dataOf (base : List Bytes) (segs : List Seg) (i : Nat) : Option DataB :=
  segs[i]?.map fun s => ⟨base ++ [segComp i], s.fbi.map segComp, s.content⟩

/-- the object as published: an unsegmented Data with its full name, or segments under `base` -/
inductive ObjB where
  | unseg (name : List Bytes) (content : Nat)
  | segs (base : List Bytes) (l : List Seg)

/-- which Data (if any) answers an Interest with this name: the prefix is answered by the discovery segment
    (`disc`) or the unsegmented Data; `base ++ [c]` with `c` a segment component by the segment of that number -/
def producer (pre : List Bytes) (obj : ObjB) (disc : Nat) (nm : List Bytes) (_canBePrefix : Bool) : Option DataB :=
  match obj with
  | .unseg name c => if nm = pre then some ⟨name, none, c⟩ else none
  | .segs base l =>
    if nm = pre then dataOf base l disc
    else if nm.dropLast = base then
      match nm.getLast? with
      | some c =>
        match Comp.getType c, Comp.toNumber c with
        | .ok t, .ok i => if t = TYPE_SEGMENT then dataOf base l i else none
        | _, _ => none
      | none => none
    else none

/-- the name of the Interest an abstract request stands for -/
def reqName (pre base : List Bytes) : Req → List Bytes
  | .disc => pre
  | .seg k => base ++ [segComp k]

/-- an abstract result read at the level of names -/
def liftResult (pre base : List Bytes) (r : Result) : ResultB :=
  ⟨r.yielded, r.log.map fun e => (reqName pre base e.1, e.2), .fin r.end_⟩

end Ndn.SegFetch
