import NdnModel.PacketEnc
import NdnModel.NfdMgmt
/-!
  Byte-level half of the forwarder management protocol (src/ndn/app_support/nfd_mgmt.py), composed from the
  generic TLV model codec (`Ndn.Codec`, property C08) and the packet model (`Ndn.Packet`, C01/C02):

  * `commandName`     = `make_command_v2(module, command, face, **kwargs)`
  * `commandInterestV2` = what `NfdRegister` hands to `express`: `make_interest(name, param, b'',
                          DigestSha256Signer(for_interest=True))`
  * `legacyCommandName` = `make_command(module, command, face, **kwargs)` (the deprecated signed-name format)
  * `parseResponse`   = `parse_response(buf)`, from the wire down to the dict
  * `runW`            = the composed model: the registration state machine of `Ndn.NfdMgmt` between the bytes that
                        come back (`replyOfData`) and the command Interest wires it puts on the face (`wiresFrom`)

  The model classes of nfd_mgmt.py are written here as schemas; `Ndn.Gen.C17` regenerates them from the live
  classes on every run and `Ndn.C17.gen_schemas` checks that they are the same.
-/
namespace Ndn.NfdBytes
open Ndn Ndn.Codec Ndn.Packet Ndn.NfdMgmt

/-! ### the model classes -/

/-- `class Strategy` -/
def strategyFs : List Schema := [.name 7]

/-- `class ControlParametersValue` (field order = `cpvFields`) -/
def cpvFs : List Schema :=
  [.name 7, .uint 105 none, .bytes 114 true, .bytes 129 true, .uint 111 none, .uint 106 none, .uint 131 none,
   .uint 132 none, .uint 135 none, .uint 136 none, .uint 137 none, .uint 108 none, .uint 112 none,
   .model 107 strategyFs false, .uint 109 none, .uint 133 none]

/-- `class ControlParameters` -/
def cpFs : List Schema := [.model 104 cpvFs false]

/-- `class ControlResponse` -/
def crFs : List Schema := [.uint 102 none, .bytes 103 true, .model 104 cpvFs false]

/-! ### command names -/

/-- `Component.from_bytes(v)`: a GenericNameComponent -/
def genericComp (v : Bytes) : Except PyErr Bytes := tlvE 8 v

def localhostB : Bytes := [108, 111, 99, 97, 108, 104, 111, 115, 116]     -- "localhost"
def localhopB : Bytes := [108, 111, 99, 97, 108, 104, 111, 112]           -- "localhop"
def nfdB : Bytes := [110, 102, 100]                                       -- "nfd"
def ribB : Bytes := [114, 105, 98]                                        -- "rib"
def registerB : Bytes := [114, 101, 103, 105, 115, 116, 101, 114]         -- "register"
def unregisterB : Bytes := [117, 110, 114, 101, 103, 105, 115, 116, 101, 114]   -- "unregister"

def verbB : Verb → Bytes
  | .register => registerB
  | .unregister => unregisterB

/-- `Name.from_str(f"/{localhost|localhop}/nfd/{module}/{command}")` for a module and a command that are plain
    text (no URI escapes, no type prefix) -/
def commandHead (isLocal : Bool) (module command : Bytes) : List Bytes :=
  [tlv 8 (if isLocal then localhostB else localhopB), tlv 8 nfdB, tlv 8 module, tlv 8 command]

/-- `make_command_v2(module, command, face, **kwargs)`: the four head components followed by the encoded
    ControlParameters as one generic component.  `cpv` holds the values of the sixteen ControlParametersValue
    fields in declaration order (`kwargs`; `.none` for a keyword that is not given; `strategy=n` is
    `.model [.name n]`). -/
def commandName (isLocal : Bool) (module command : Bytes) (cpv : List Value) : Except PyErr (List Bytes) := do
  let cp ← encFields cpFs [.model cpv]
  let c ← genericComp cp
  pure (commandHead isLocal module command ++ [c])

/-- the keyword arguments `name=prefix` plus the other fifteen fields -/
def cpvOf (pfx : List Bytes) (rest : List Value) : List Value := .name pfx :: rest

/-- the name `NfdRegister.register / unregister` build: `make_command_v2('rib', verb, face, name=prefix)` -/
def ribCommandName (isLocal : Bool) (v : Verb) (pfx : List Bytes) (rest : List Value) :
    Except PyErr (List Bytes) :=
  commandName isLocal ribB (verbB v) (cpvOf pfx rest)

/-- what the forwarder reads back from a command name: `ControlParameters.parse(Component.get_value(name[4]))`
    and its `cp.name` -/
def decodeCommandParams (name : List Bytes) : Except PyErr (List Value) :=
  match name[4]? with
  | some c => parse cpFs false (compValue c)
  | none => .error .indexError

def namedPrefix : List Value → Option (List Bytes)
  | [.model (.name p :: _)] => some p
  | _ => none

/-! ### the v2 command Interest -/

/-- what `DigestSha256Signer(for_interest=True).write_signature_info` fills in: SignatureType 0, no KeyLocator,
    SignatureNonce, SignatureTime, no SignatureSeqNum -/
def digestSigInfo (time nonce : Nat) : Value := .model [.uint 0, .none, .uint nonce, .uint time, .none]

/-- the encoded empty ApplicationParameters (`app_param=b''`) -/
def emptyAppB : Bytes := [36, 0]

/-- `make_interest(name, param, b'', DigestSha256Signer(for_interest=True))`: the signer announces 32 bytes and
    writes `H` of the parts it is handed — the name without the digest component, ApplicationParameters and
    InterestSignatureInfo. -/
def commandInterestV2 (H : Bytes → Bytes) (name : List Bytes) (mid : List Value) (time nonce : Nat) :
    Except PyErr Made := do
  let siB ← enc intSigInfoS (digestSigInfo time nonce)
  interestCore H name mid (.bytes []) (digestSigInfo time nonce)
    (some { reserved := 32, sig := H (concatB name ++ emptyAppB ++ siB) }) true none

/-- the DigestSha256 "scheme": the signature is the hash, the verifier recomputes it (`sha256_digest_checker`) -/
def digestScheme (H : Bytes → Bytes) : Scheme := { sign := H, verify := fun m s => H m == s }

/-! ### the legacy (signed-name) command -/

/-- `SignatureInfo` as `DigestSha256Signer().write_signature_info` fills it (no time, no nonce) -/
def legacySigInfo : List Value := [.uint 0, .none, .none, .none, .none]

/-- `make_command(module, command, face, **kwargs)`: the v2 name, then `timestamp` and `nonce` as 8-byte
    big-endian generic components, then a component holding the SignatureInfo element, then a component holding
    the SignatureValue element whose value is `H` of all preceding components. -/
def legacyCommandName (H : Bytes → Bytes) (isLocal : Bool) (module command : Bytes) (cpv : List Value)
    (ts nonce : Nat) : Except PyErr (List Bytes) := do
  let n ← commandName isLocal module command cpv
  if ts ≥ 2 ^ 64 ∨ nonce ≥ 2 ^ 64 then .error .structError      -- struct.pack('!Q', …)
  else do
    let n6 := n ++ [tlv 8 (be8 ts), tlv 8 (be8 nonce)]
    let si ← encFields sigInfoFields legacySigInfo
    if si.length ≥ 256 then .error .valueError                    -- bytes([TypeNumber.SIGNATURE_INFO, len(buf)])
    else do
      let n7 := n6 ++ [tlv 8 ([22, UInt8.ofNat si.length] ++ si)]
      let sig := H (concatB n7)
      pure (n7 ++ [tlv 8 ([23, 32] ++ sig)])

/-! ### `parse_response` from the wire -/

/-- `getattr(params, k.name)` for the k-th field of the decoded body, as the dict shows it -/
def fvalOf : Value → Option FVal
  | .uint n => some (.uint n)
  | .bytes b => some (.text b)
  | .name cs => some (.name cs)
  | .model [.name cs] => some (.name cs)      -- `strategy`: a Strategy object, shown by its name
  | _ => none

def bodyFields : List String → List Value → List (String × FVal)
  | k :: ks, v :: vs =>
    match fvalOf v with
    | some f => (k, f) :: bodyFields ks vs
    | none => bodyFields ks vs
  | _, _ => []

/-- the decoded ControlResponse instance as the record the glue of `parse_response` works on -/
def recOfValues : List Value → ControlResponseRec
  | [c, t, b] =>
    { statusCode := match c with | .uint n => some n | _ => none,
      statusText := match t with | .bytes s => some s | _ => none,
      body := match b with | .model vs => some (bodyFields cpvFields vs) | _ => none }
  | _ => { statusCode := none, statusText := none, body := none }

/-- `parse_response(buf)`: outer element 0x65, `ControlResponse.parse`, then the dict -/
def parseResponse (bodyFix : Bool) (wire : Bytes) : Except PyErr (List (String × DVal)) := do
  let v ← parseAndCheckTl wire 0x65
  let vs ← parse crFs false v
  parseResponseRec bodyFix (recOfValues vs)

/-- the values of a ControlResponse with the given status code, status text and body -/
def crValues (code : Option Nat) (text : Option Bytes) (body : Option (List Value)) : List Value :=
  [match code with | some n => .uint n | none => .none,
   match text with | some t => .bytes t | none => .none,
   match body with | some vs => .model vs | none => .none]

/-- the Content of the reply the forwarder sends: `tlv 0x65 (ControlResponse.encode())` -/
def encodeResponse (code : Option Nat) (text : Option Bytes) (body : Option (List Value)) : Except PyErr Bytes := do
  let b ← encFields crFs (crValues code text body)
  tlvE 0x65 b

/-- what the dict shows for one decoded field value -/
def dvalOf (v : Value) : DVal := DVal.ofF (fvalOf v)


/-! ### the composed model: from the call to the bytes on the face, and from the bytes that come back to the result

  `Ndn.NfdMgmt.run` sees `(verb, prefix, signed timestamp)` and reply kinds.  Here its trace is turned into the
  command Interest WIRES the front-end in use puts on the face (`wiresFrom`: `make_command_v2` + `make_interest`
  with the DigestSha256 signer for `NfdRegister`; `make_command` + a plain `make_interest` for the legacy `NDNApp`;
  both through `express` with `lifetime=1000` and a fresh 32-bit Nonce), and what it consumes are reply WIRES
  (`WEv.data`: the bytes of a Data packet answering the command in flight, any byte string; Nack, timeout and
  shutdown stay events).  `replyOfData` is what the receive path (`parse_data`, the validator of the front-end,
  `parse_response`) makes of such bytes, with the decoder models of C07/C08. -/

/-- what a run needs besides the clock: the hash, the face, the prefixes the calls name, and the random numbers
    drawn for the k-th command (recorded from the real run by the harness) -/
structure Wire where
  H : Bytes → Bytes
  isLocal : Bool
  /-- the encoded components of the prefix a call names by its number -/
  pfxName : Nat → List Bytes
  /-- `gen_nonce()`: the Nonce of the k-th command Interest -/
  nonce32 : Nat → Nat
  /-- `gen_nonce_64()`: SignatureNonce (v2) / nonce component (legacy) of the k-th command -/
  nonce64 : Nat → Nat

/-- `InterestParam.from_dict({'lifetime': 1000, 'nonce': gen_nonce()})` -/
def cmdMid (n32 : Nat) : List Value := [.none, .none, .none, .uint n32, .uint 1000, .none]

/-- no ControlParameters keyword besides `name=` -/
def noKw : List Value := List.replicate 15 .none

/-- the wire of the k-th command: verb `v`, prefix number `p`, signed timestamp `ts` -/
def cmdWire (w : Wire) (fe : FrontEnd) (k : Nat) (v : Verb) (p ts : Nat) : Except PyErr Bytes :=
  match fe with
  | .v2 => do
    let n ← ribCommandName w.isLocal v (w.pfxName p) noKw
    let m ← commandInterestV2 w.H n (cmdMid (w.nonce32 k)) ts (w.nonce64 k)
    pure m.wire
  | .legacy => do
    let n ← legacyCommandName w.H w.isLocal ribB (verbB v) (cpvOf (w.pfxName p) noKw) ts (w.nonce64 k)
    let m ← makeInterest w.H n (cmdMid (w.nonce32 k)) .none .none none
    pure m.wire

/-- the commands of a trace, in emission order -/
def cmdsOf : List Out → List (Req × Nat)
  | [] => []
  | .cmd r ts :: t => (r, ts) :: cmdsOf t
  | _ :: t => cmdsOf t

/-- the wires of the commands of a trace, in emission order; `k` numbers the commands -/
def wiresFrom (w : Wire) (fe : FrontEnd) : Nat → List Out → List (Except PyErr Bytes)
  | _, [] => []
  | k, .cmd r ts :: t => cmdWire w fe k r.verb r.pfx ts :: wiresFrom w fe (k + 1) t
  | k, _ :: t => wiresFrom w fe k t

/-- `sha256_digest_checker` on what `parse_data` reports: SignatureType DigestSha256, a covered range, a
    signature value, and the value is the hash of the range -/
def digestSigOk (H : Bytes → Bytes) (vs : List Value) (p : Ptrs) : Bool :=
  match vs[8]? with
  | some (Value.model (Value.uint 0 :: _)) =>
    (match p.sigValue with
     | some sv => !p.sigCovered.isEmpty && !sv.isEmpty && H (concatB p.sigCovered) == sv
     | none => false)
  | _ => false

/-- the decoded ControlResponse of a reply Content, before the glue of `parse_response` -/
def contentRec (content : Bytes) : Except PyErr ControlResponseRec := do
  let v ← parseAndCheckTl content 0x65
  let vs ← parse crFs false v
  pure (recOfValues vs)

/-- what the receive path makes of the bytes of a Data packet that answers the command in flight: `none` — not a
    Data packet (`parse_data` refuses it; the receive loop drops it and nothing happens); otherwise the reply kind
    the state machine sees: whether its DigestSha256 signature verifies, and what its Content decodes to -/
def replyOfData (H : Bytes → Bytes) (wire : Bytes) : Option Reply :=
  match parseData wire with
  | .error _ => none
  | .ok (vs, ptrs) =>
    let ok := digestSigOk H vs ptrs
    some (match bytesOf vs[7]? with
      | none => .undecodable ok                         -- no Content: `parse_response(None)` raises TypeError
      | some content =>
        match contentRec content with
        | .ok r => .response r.statusCode r.body.isSome ok
        | .error _ => .undecodable ok)

/-- events of the composed model -/
inductive WEv where
  | call (v : Verb) (pfx : Nat)
  /-- the bytes of a Data packet that answers the command in flight — any byte string -/
  | data (wire : Bytes)
  | nack | timeout | canceled
  | connect (routes : List Nat)
  /-- the connection is lost -/
  | down
  deriving DecidableEq, Repr, Inhabited

def absEv (H : Bytes → Bytes) : WEv → Option Ev
  | .call v p => some (.call v p)
  | .data b => (replyOfData H b).map .reply
  | .nack => some (.reply .nack)
  | .timeout => some (.reply .timeout)
  | .canceled => some (.reply .canceled)
  | .connect rs => some (.connect rs)
  | .down => some .down

/-- the composed run: final state, trace of the state machine, and the wires it put on the face -/
def runW (cfg : Cfg) (env : Env) (w : Wire) (s : St) (evs : List WEv) :
    St × List Out × List (Except PyErr Bytes) :=
  let r := run cfg env s (evs.filterMap (absEv w.H))
  (r.1, r.2, wiresFrom w cfg.fe 0 r.2)

/-- the timestamp a forwarder reads from a command Interest: SignatureTime (v2) / the sixth name component as a
    big-endian number (legacy) -/
def wireTs (fe : FrontEnd) (wire : Bytes) : Option Nat :=
  match parseInterest wire with
  | .error _ => none
  | .ok (vs, _) =>
    match fe with
    | .v2 => (match vs[17]? with
      | some (Value.model [_, _, _, Value.uint t, _]) => some t
      | _ => none)
    | .legacy => (match vs[7]? with
      | some (Value.name cs) => cs[5]?.map fun c => beVal (compValue c)
      | _ => none)

/-- the name a forwarder reads from a command Interest -/
def wireName (wire : Bytes) : Option (List Bytes) :=
  match parseInterest wire with
  | .ok (vs, _) => (match vs[7]? with | some (Value.name cs) => some cs | _ => none)
  | .error _ => none

end Ndn.NfdBytes
