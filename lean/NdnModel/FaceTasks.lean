import NdnModel.StreamReader
import NdnModel.Receive
/-
  The TASK LAYER of the receive path:
    src/ndn/transport/stream_face.py : StreamFace.run      (`aio.create_task(self.callback(typ, buf))`, `while self.running`,
                                                            `except (...): self.shutdown()`), StreamFace.shutdown
    src/ndn/appv2.py, src/ndn/app.py : main_loop           (`await self.face.run()`, then on EVERY exit path
                                                            `self.face.shutdown(); self._clean_up()`), shutdown()
  over the reader machine of NdnModel/StreamReader.lean and a black-box per-packet receive step (`_receive`,
  modelled elsewhere: Ndn.Recv.receive / Ndn.RecvBytes.receiveBytes).

  What the code does with the per-packet tasks (read off main_loop / shutdown of both front-ends and StreamFace):
  nobody keeps a reference to them, nobody cancels them, nobody awaits them.  `shutdown()` only clears the face's
  `running` flag (and closes the writer); `main_loop`, when `face.run()` has ended, calls `face.shutdown()` and
  `_clean_up()` (the pending-Interest table is cancelled and cleared) and returns.  Tasks that were created but have
  not run yet stay in the event loop's ready queue: they are LEFT TO THE LOOP and run on its next turn - against the
  tables as `_clean_up` left them.  This is what is modelled: no event removes a packet from `queue` except running it.

  `shutdown()` while `run()` is suspended in a read does not end `run()`: the pending `readexactly` goes on waiting;
  when its bytes arrive the packet in progress is completed and handed over, and only then the `while self.running`
  test ends the loop - bytes behind that packet are never read.

  asyncio is assumed to be: a FIFO ready queue; `create_task` schedules the first step of the task for the next turn
  of the loop; a task woken by `feed_data` / `feed_eof` runs until its next suspension.
-/
namespace Ndn.FaceTasks
open Ndn Ndn.StreamReader

/-- the black box: `recv app pkt` = the application tables after `await self._receive(typ, buf)` and whether the
    coroutine ended with an exception; `cleanup` = `_clean_up()`. -/
structure Hooks (σ : Type) where
  recv : σ → Pkt → σ × Bool
  fail : σ → Pkt → σ           -- what a receive step marked by `raise k` did to the tables before it raised
  cleanup : σ → σ

inductive Ev where
  | feed (c : Bytes)      -- `feed_data(c)`, then the reader task runs as far as it can
  | close (c : Bytes)     -- `feed_data(c)` and `feed_eof()` reach the reader task in ONE pass (`close []` = plain EOF)
  | exc (e : RdErr)       -- the transport sets an exception on the reader
  | shutdown              -- `app.shutdown()` → `face.shutdown()`: `running = False`
  | turn                  -- one turn of the loop: every task spawned so far runs, in FIFO order
  | step1                 -- only the task at the head of the ready queue runs
  | raise (k : Nat)       -- the receive step of the k-th task (in spawn order, from 0) will raise
  deriving Repr

structure St (σ : Type) where
  face : Face                      -- reader, where `run()` is suspended, how it ended
  running : Bool                   -- `face.running`
  queue : List Pkt                 -- ready queue: tasks created, not yet run
  processed : List Pkt             -- packets whose `_receive` has been entered, in that order
  bad : List Nat                   -- `raise k` marks
  errors : List Nat                -- tasks (spawn index) that ended with an unhandled exception
  app : σ

def rank5 : Phase → Nat
  | .typ0 => 5 | .typN _ _ => 4 | .len0 _ _ => 3 | .lenN _ _ _ => 2 | .value _ _ _ => 1

/-- the reader task when `face.running` is already False: the pending read of the packet in progress goes on; when the
    packet is complete it is handed over and `while self.running` ends `run()` (status `shutdown`); nothing behind it
    is read.  `fuel` = number of `readexactly` calls left (a packet needs at most 5). -/
def pump1 (caught : List RdErr) : Nat → Reader → Phase → Face × List Pkt
  | 0, r, ph => (⟨r, ph, .running⟩, [])
  | fuel + 1, r, ph =>
    match readexactly r ph.need with
    | .blocked => (⟨r, ph, .running⟩, [])
    | .raised e r' => (⟨r', ph, handled caught e⟩, [])
    | .done d r' =>
      match ph.next d with
      | .inl ph' => pump1 caught fuel r' ph'
      | .inr p => (⟨r', .typ0, .shutdown⟩, [p])

/-- the reader task woken with reader state `r` -/
def readerPass (caught : List RdErr) (running : Bool) (r : Reader) (ph : Phase) : Face × List Pkt :=
  if running then pump caught r ph else pump1 caught 5 r ph

/-- after a pass of the reader task: the packets it framed are queued; if `run()` has ended, `main_loop` goes on in the
    same step: `face.shutdown()`, `_clean_up()`.  The queue is not touched. -/
def afterPass {σ} (H : Hooks σ) (st : St σ) (res : Face × List Pkt) : St σ :=
  if res.1.status = .running then { st with face := res.1, queue := st.queue ++ res.2 }
  else { st with face := res.1, queue := st.queue ++ res.2, running := false, app := H.cleanup st.app }

/-- one per-packet task runs: `_receive` is entered with the packet (`processed`), the black box gives the new tables -/
def runTask {σ} (H : Hooks σ) (st : St σ) (p : Pkt) : St σ :=
  if st.bad.contains st.processed.length then
    { st with processed := st.processed ++ [p], app := H.fail st.app p,
              errors := st.errors ++ [st.processed.length] }
  else
    { st with processed := st.processed ++ [p], app := (H.recv st.app p).1,
              errors := if (H.recv st.app p).2 then st.errors ++ [st.processed.length] else st.errors }

def runTasks {σ} (H : Hooks σ) : St σ → List Pkt → St σ
  | st, [] => st
  | st, p :: ps => runTasks H (runTask H st p) ps

def step {σ} (caught : List RdErr) (H : Hooks σ) (st : St σ) : Ev → St σ
  | .feed c =>
    match st.face.status with
    | .running => afterPass H st (readerPass caught st.running (st.face.reader.apply (.feed c)) st.face.phase)
    | _ => { st with face := { st.face with reader := st.face.reader.apply (.feed c) } }
  | .close c =>
    match st.face.status with
    | .running =>
      afterPass H st (readerPass caught st.running ((st.face.reader.apply (.feed c)).apply .feedEof) st.face.phase)
    | _ => { st with face := { st.face with reader := (st.face.reader.apply (.feed c)).apply .feedEof } }
  | .exc e =>
    match st.face.status with
    | .running =>
      { st with face := { st.face with reader := st.face.reader.apply (.setException e), status := handled caught e },
                running := false, app := H.cleanup st.app }
    | _ => { st with face := { st.face with reader := st.face.reader.apply (.setException e) } }
  | .shutdown => { st with running := false }
  | .turn => { runTasks H st st.queue with queue := [] }
  | .step1 =>
    match st.queue with
    | [] => st
    | p :: q => { runTask H st p with queue := q }
  | .raise k => { st with bad := k :: st.bad }

/-- `main_loop` started: `face.open()`, `face.run()` suspended in its first read -/
def init {σ} (caught : List RdErr) (a : σ) : St σ :=
  { face := (start caught {}).1, running := true, queue := [], processed := [], bad := [], errors := [], app := a }

def runFrom {σ} (caught : List RdErr) (H : Hooks σ) : St σ → List Ev → St σ
  | st, [] => st
  | st, e :: es => runFrom caught H (step caught H st e) es

def run {σ} (caught : List RdErr) (H : Hooks σ) (a : σ) (h : List Ev) : St σ := runFrom caught H (init caught a) h

/-- the situation after every event -/
def traceFrom {σ} (caught : List RdErr) (H : Hooks σ) : St σ → List Ev → List (St σ)
  | _, [] => []
  | st, e :: es => step caught H st e :: traceFrom caught H (step caught H st e) es

/-- every task created so far, in creation order -/
def St.spawned {σ} (st : St σ) : List Pkt := st.processed ++ st.queue

/-- the bytes an event brings -/
def Ev.bytes : Ev → Bytes
  | .feed c => c
  | .close c => c
  | _ => []

/-- everything the transport has fed -/
def fed : List Ev → Bytes
  | [] => []
  | e :: es => e.bytes ++ fed es

/-- no end of stream, no transport error, no shutdown: the connection stays open -/
def Ev.quiet : Ev → Bool
  | .close _ | .exc _ | .shutdown => false
  | _ => true

def Ev.isRaise : Ev → Bool
  | .raise _ => true
  | _ => false

/-! ### UDP face

  src/ndn/transport/udp_face.py: `datagram_received` creates one task per datagram whose first number can be read
  (`aio.create_task(self.callback(typ, data))`), ignores the others, and looks at nothing else - not at `running`,
  not at whether `run()` (which only awaits the `close` future) has returned.  `error_received` / `connection_lost`
  resolve `close`: `run()` returns and `main_loop` does `face.shutdown()`, `_clean_up()`; `shutdown()` clears `running`
  and closes the transport.  The tasks are left to the loop exactly as for the stream faces.  The state is the same
  record; of `face` only `status` is used: `running` = `run()` still awaits `close`, `shutdown` = it has returned. -/
namespace Udp

inductive Ev where
  | dgram (d : Bytes)     -- the transport calls `datagram_received(d, addr)`
  | lost                  -- `error_received` / `connection_lost`: `close` resolved, `run()` returns, `main_loop` cleans up
  | shutdown              -- `app.shutdown()`
  | turn | step1 | raise (k : Nat)
  deriving Repr

structure USt (σ : Type) where
  st : St σ
  cbErrors : List PyErr        -- exceptions that left `datagram_received` (reach the loop's exception handler)

def step {σ} (caught : List PyErr) (H : Hooks σ) (u : USt σ) : Ev → USt σ
  | .dgram d =>
    match Recv.datagramReceived caught d with
    | .ok (some p) => { u with st := { u.st with queue := u.st.queue ++ [p] } }
    | .ok none => u
    | .error e => { u with cbErrors := u.cbErrors ++ [e] }
  | .lost =>
    match u.st.face.status with
    | .running => { u with st := { u.st with face := { u.st.face with status := .shutdown }, running := false,
                                             app := H.cleanup u.st.app } }
    | _ => u
  | .shutdown => { u with st := { u.st with running := false } }
  | .turn => { u with st := { runTasks H u.st u.st.queue with queue := [] } }
  | .step1 =>
    match u.st.queue with
    | [] => u
    | p :: q => { u with st := { runTask H u.st p with queue := q } }
  | .raise k => { u with st := { u.st with bad := k :: u.st.bad } }

def init {σ} (a : σ) : USt σ :=
  { st := { face := ⟨{}, .typ0, .running⟩, running := true, queue := [], processed := [], bad := [], errors := [],
            app := a },
    cbErrors := [] }

def runFrom {σ} (caught : List PyErr) (H : Hooks σ) : USt σ → List Ev → USt σ
  | u, [] => u
  | u, e :: es => runFrom caught H (step caught H u e) es

def run {σ} (caught : List PyErr) (H : Hooks σ) (a : σ) (h : List Ev) : USt σ := runFrom caught H (init a) h

def traceFrom {σ} (caught : List PyErr) (H : Hooks σ) : USt σ → List Ev → List (USt σ)
  | _, [] => []
  | u, e :: es => step caught H u e :: traceFrom caught H (step caught H u e) es

/-- the datagrams of a history, in order of arrival -/
def dgrams : List Ev → List Bytes
  | [] => []
  | .dgram d :: es => d :: dgrams es
  | _ :: es => dgrams es

/-- specification: a datagram is a packet iff its first number (the Type) can be read; the packet is the whole datagram -/
def accepted (ds : List Bytes) : List Pkt :=
  ds.filterMap fun d => match parseTlNum d 0 with
    | .ok (t, _) => some (t, d)
    | .error _ => none

def Ev.isRaise : Ev → Bool
  | .raise _ => true
  | _ => false

end Udp

end Ndn.FaceTasks
