import NdnModel.PyDict
/-
  Model of `TlvModelMeta.__new__` (src/ndn/encoding/tlv_model.py): how the ordered field list
  `_encoded_fields` of a TlvModel class is collected from the class body and its base classes.

      cls._encoded_fields = [] ; index_dict = {}
      for field_name in cls.__dict__:                      # own attributes only, definition order
          if not field_name.startswith('__'):
              field_obj = getattr(cls, field_name)
              if isinstance(field_obj, Field):             put(field_name, field_obj)
              elif isinstance(field_obj, IncludeBase):
                  if field_obj.base not in bases:          raise IncludeBaseError
                  if not issubclass(field_obj.base, TlvModel): raise IncludeBaseError
                  for field in field_obj.base._encoded_fields: put(field.name, field)
      put(n, f):  if n not in index_dict: _encoded_fields.append(f); index_dict[n] = len(_encoded_fields) - 1
                  else:                   _encoded_fields[index_dict[n]] = f

  A class is the list of assignments its body executes (`name = value`, in order; the same name may be
  assigned more than once), each value a field, an `IncludeBase(base)` or anything else; the base classes
  are given by position, each with its already-collected field list (`none`: a base that is not a TlvModel).
  `IncludeBase` of a class that is not a direct base is an index outside the list of bases.
  Generic in the name type `κ` and in what a field is (`α`; `Schema` for the codec theorems, an opaque
  identifier in the driver).
-/
namespace Ndn.Codec
open Ndn

inductive Decl (α : Type) where
  | field (f : α)               -- the attribute value is a `Field`
  | includeBase (base : Nat)    -- `IncludeBase(bases[base])`
  | other                       -- a method, a constant, …: ignored
  deriving Repr

inductive MergeErr where
  | includeBaseError
  deriving Repr, DecidableEq

/-- a base class: `none` = not a TlvModel; otherwise its `_encoded_fields` as (name, field) pairs -/
abbrev BaseCls (κ α : Type) := Option (List (κ × α))

section
variable {κ α : Type} [DecidableEq κ]

/-- `cls.__dict__` after the class body ran: a repeated assignment keeps the place of the first and the
    value of the last (Python `dict`) -/
def classDict (body : List (κ × Decl α)) : PyDict κ (Decl α) :=
  body.foldl (fun d p => PyDict.set d p.1 p.2) []

/-- position of a key (the `index_dict` the metaclass keeps next to the list) -/
def posOf (d : List (κ × α)) (k : κ) : Option Nat :=
  match d with
  | [] => none
  | (k', _) :: r => if k' = k then some 0 else (posOf r k).map (· + 1)

structure MState (κ α : Type) where
  fields : List (κ × α)         -- `_encoded_fields` (with the name each field object carries)
  index : PyDict κ Nat          -- `index_dict`

/-- `put`: a new name is appended and its position remembered; a known name is replaced where it stands -/
def MState.put (st : MState κ α) (k : κ) (f : α) : MState κ α :=
  match PyDict.get? st.index k with
  | none => { fields := st.fields ++ [(k, f)], index := PyDict.set st.index k st.fields.length }
  | some i => { st with fields := st.fields.set i (k, f) }

def MState.putAll (st : MState κ α) (fs : List (κ × α)) : MState κ α :=
  fs.foldl (fun s p => s.put p.1 p.2) st

/-- one attribute of the class body -/
def mergeStep (bases : List (BaseCls κ α)) (st : MState κ α) (p : κ × Decl α) : Except MergeErr (MState κ α) :=
  match p.2 with
  | .field f => .ok (st.put p.1 f)
  | .other => .ok st
  | .includeBase i =>
    match bases[i]? with
    | none => .error .includeBaseError              -- not one of the base classes
    | some none => .error .includeBaseError         -- not a TlvModel
    | some (some fs) => .ok (st.putAll fs)

/-- the loop of the metaclass over the visible attributes of `cls.__dict__` -/
def mergeClass (bases : List (BaseCls κ α)) (dict : List (κ × Decl α)) : Except MergeErr (List (κ × α)) :=
  match dict.foldlM (mergeStep bases) ⟨[], []⟩ with
  | .ok st => .ok st.fields
  | .error e => .error e

end

/-- `field_name.startswith('__')` -/
def dunder : List Char → Bool
  | '_' :: '_' :: _ => true
  | _ => false

/-- **the metaclass**: class body ↦ `_encoded_fields` (names are `List Char`) -/
def mergeFields {α : Type} (bases : List (BaseCls (List Char) α)) (body : List (List Char × Decl α)) :
    Except MergeErr (List (List Char × α)) :=
  mergeClass bases ((classDict body).filter fun p => !dunder p.1)

end Ndn.Codec
