import NdnModel.PacketEnc
import NdnModel.Hmac
/-
  The two signers whose "key" is no secret of a public-key scheme, and their checkers, INSIDE the packet model:

  * security/signer/sha256_digest_signer.py   DigestSha256Signer
  * security/signer/sha256_hmac_signer.py     HmacSha256Signer
  * security/validator/digest_validator.py    sha256_digest_checker, params_sha256_checker (= `Packet.paramsCheck`),
                                              union_checker
  * security/validator/known_key_validator.py verify_hmac, HmacChecker.from_key

  `H` is SHA-256 (a parameter, so that the theorems hold for every hash function; the driver runs it with
  `Sha256.sha256`).  A SignatureInfo is the `Value.model [type, key locator, nonce, time, seq num]` of
  `Packet.sigInfoFields`.
-/
namespace Ndn.Sign
open Ndn Ndn.Codec Ndn.Packet

/-- a signer object as `make_data` / `make_interest` use it -/
structure Signer where
  /-- the SignatureInfo after `write_signature_info` ran on the fresh object -/
  sigInfo : Value
  /-- `get_signature_value_size()` -/
  reserved : Nat
  /-- the bytes `write_signature_value(wire, contents)` leaves in `wire` for the covered parts `contents`
      (its return value is their number) -/
  value : List Bytes → Bytes

/-- `DigestSha256Signer(for_interest)`: SignatureType 0, no KeyLocator; with `for_interest` also SignatureTime
    and SignatureNonce (`tn` = the `(timestamp(), gen_nonce_64())` drawn by that call); 32 bytes reserved; the value
    is SHA-256 fed with the covered parts one after the other. -/
def digestSigner (H : Bytes → Bytes) (tn : Option (Nat × Nat)) : Signer where
  sigInfo := match tn with
    | none => .model [.uint 0, .none, .none, .none, .none]
    | some (t, n) => .model [.uint 0, .none, .uint n, .uint t, .none]
  reserved := 32
  value := fun parts => H (concatB parts)

/-- `HmacSha256Signer(key_locator_name, key_bytes)`: SignatureType 4, KeyLocator holding the (normalised) name;
    32 bytes reserved; the value is HMAC-SHA256 under the key, fed with the covered parts one after the other. -/
def hmacSigner (H : Bytes → Bytes) (klName : List Bytes) (key : Bytes) : Signer where
  sigInfo := .model [.uint 4, .model [.name klName, .none], .none, .none, .none]
  reserved := 32
  value := fun parts => Hmac.hmac H key (concatB parts)

/-- one `make_*` call with a signer object: the packet is laid out with `reserved` zero bytes where the signature
    goes, the signer is handed the covered parts of THAT buffer and writes its value, then the packet is finished
    (shrunk, digest filled in).  `mk` is `makeData …` / `makeInterest …` of the packet model, which takes what the
    signer wrote as an input. -/
def signWith (sg : Signer) (mk : Value → Option SignerOut → Except PyErr Made) : Except PyErr Made := do
  let m0 ← mk sg.sigInfo (some { reserved := sg.reserved, sig := List.replicate sg.reserved 0 })
  mk sg.sigInfo (some { reserved := sg.reserved, sig := sg.value m0.covered })

/-- `make_data(name, meta_info, content, signer=sg)` -/
def makeDataS (sg : Signer) (name : List Bytes) (mi content : Value) : Except PyErr Made :=
  signWith sg (fun si s => makeData name mi content si s)

/-- `make_interest(name, interest_param, app_param, signer=sg)` -/
def makeInterestS (H : Bytes → Bytes) (sg : Signer) (name : List Bytes) (mid : List Value) (appParam : Value) :
    Except PyErr Made :=
  signWith sg (fun si s => makeInterest H name mid appParam si s)

/-! ### what the checkers read in a SignatureInfo -/

/-- `sig_info.signature_type` (`none`: no SignatureInfo, or no SignatureType in it) -/
def sigTypeOf : Value → Option Nat
  | .model (.uint t :: _) => some t
  | _ => none

/-- `sig_info.key_locator.name` (`none`: no SignatureInfo / KeyLocator / Name) -/
def klNameOf : Value → Option (List Bytes)
  | .model (_ :: .model (.name n :: _) :: _) => some n
  | _ => none

/-! ### checkers: `async def checker(name, sig_ptrs) -> bool`; `si` = `sig_ptrs.signature_info` -/

/-- `sha256_digest_checker`: a packet whose SignatureInfo does not say DigestSha256 is let through (the checker is
    meant to be combined with others by `union_checker`); a DigestSha256 packet is accepted iff there are covered
    parts, a non-empty signature value, and the value is SHA-256 of the parts. -/
def digestChecker (H : Bytes → Bytes) (si : Value) (p : Ptrs) : Bool :=
  if sigTypeOf si = some 0 then
    match p.sigValue with
    | none => false
    | some s => !p.sigCovered.isEmpty && !s.isEmpty && H (concatB p.sigCovered) == s
  else true

/-- `verify_hmac(key, sig_ptrs)`: `HMAC.verify` of the signature value against the HMAC of the covered parts
    (no signature value: compared with nothing, refused) -/
def verifyHmac (H : Bytes → Bytes) (key : Bytes) (p : Ptrs) : Bool :=
  match p.sigValue with
  | none => false
  | some s => Hmac.hmac H key (concatB p.sigCovered) == s

/-- `HmacChecker.from_key(key_name, key_bits)`: KeyLocator Name present, non-empty and under `key_name`,
    SignatureType HmacWithSha256, and `verify_hmac` -/
def hmacChecker (H : Bytes → Bytes) (keyName : List Bytes) (key : Bytes) (si : Value) (p : Ptrs) : Bool :=
  match klNameOf si with
  | none => false
  | some n => !n.isEmpty && keyName.isPrefixOf n && sigTypeOf si == some 4 && verifyHmac H key p

/-- `union_checker(*checkers)`: every checker must accept -/
def unionChecker (cs : List (Value → Ptrs → Bool)) (si : Value) (p : Ptrs) : Bool :=
  cs.all (fun c => c si p)

/-- the two schemes as `Packet.Scheme`s (sign / verify over the concatenated covered bytes) -/
def digestScheme (H : Bytes → Bytes) : Scheme := { sign := H, verify := fun m s => H m == s }
def hmacScheme (H : Bytes → Bytes) (key : Bytes) : Scheme :=
  { sign := Hmac.hmac H key, verify := fun m s => Hmac.hmac H key m == s }

end Ndn.Sign

namespace Ndn.Sign
open Ndn Ndn.Codec Ndn.Packet

/-- a receiver: `parse_data(wire)`, then `checker(name, sig_ptrs)` (`sig_ptrs.signature_info` is the parsed
    SignatureInfo field, `None` when the packet has none) -/
def checkData (chk : Value → Ptrs → Bool) (wire : Bytes) : Except PyErr Bool := do
  let (vals, p) ← parseData wire
  pure (chk (vals[8]?.getD .none) p)

/-- `parse_interest(wire)`, then `checker(name, sig_ptrs)` -/
def checkInterest (chk : Value → Ptrs → Bool) (wire : Bytes) : Except PyErr Bool := do
  let (vals, p) ← parseInterest wire
  pure (chk (vals[17]?.getD .none) p)

/-- `params_sha256_checker` in the checker signature (it does not look at the SignatureInfo) -/
def paramsChecker (H : Bytes → Bytes) (_si : Value) (p : Ptrs) : Bool := paramsCheck H p

end Ndn.Sign
