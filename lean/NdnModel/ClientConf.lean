import NdnModel.Basic
/-
  Model of `ndn/client_conf.py` (`read_client_conf`, its inner `get_path` / `resolve_location`,
  `default_face`, `default_keychain`) over an abstract environment:

  * the platform (`ndn/platform/linux.py`) is a table `Platform` (generated from the live source into
    `NdnGen/C20.lean`): ordered candidate paths, default schemes, default store locations, and the
    default transport as a decision table over the probed socket paths;
  * the file system is a predicate `exists : Str → Bool` on the *literal* strings the code passes to
    `os.path.exists`, and a map path ↦ configuration lines (the subset of the `configparser` grammar
    without sections, interpolation, continuation lines: comment/blank lines and `key = value`);
  * the process environment is the three optional `NDN_CLIENT_*` values.

  Strings are `List Char` (ASCII).  `os.path.expandvars` is the identity on the paths used (no `$`).
-/
namespace Ndn.ClientConf

abbrev Str := List Char

def lower (s : Str) : Str := s.map Char.toLower

/-- `s.partition(c)`: text before the first `c`, and the text after it when `c` occurs. -/
def part (c : Char) : Str → Str × Option Str
  | [] => ([], none)
  | x :: r => if x = c then ([], some r) else ((x :: (part c r).1), (part c r).2)

/-- `s.rpartition(c)[2]`: text after the last `c` (the whole string when `c` does not occur). -/
def afterLast (c : Char) (s : Str) : Str := (part c s.reverse).1.reverse

/-! ### os.path (posixpath) -/

/-- `posixpath.dirname` -/
def dirname (p : Str) : Str :=
  let head := (p.reverse.dropWhile (· ≠ '/')).reverse
  if head.all (· = '/') then head else (head.reverse.dropWhile (· = '/')).reverse

/-- `posixpath.join a b` -/
def join (a b : Str) : Str :=
  if b.head? = some '/' then b
  else if a = [] ∨ a.getLast? = some '/' then a ++ b
  else a ++ '/' :: b

/-! ### platform table and environment -/

structure Platform where
  confPaths : List Str
  /-- socket paths probed by `default_transport`, and its result per truth assignment -/
  transportProbes : List Str
  transportTable : List (List Bool × Str)
  pibScheme : Str
  pibPaths : List Str
  tpmScheme : Str
  tpmPaths : List Str

inductive Line where
  | other                 -- comment or blank line
  | kv (k v : Str)        -- `k = v` (key as written; configparser lower-cases it)
  deriving Repr, DecidableEq

structure Env where
  transport : Option Str
  pib : Option Str
  tpm : Option Str

structure World where
  exist : Str → Bool
  files : Str → List Line
  env : Env

structure Conf where
  transport : Str
  pib : Str
  tpm : Str
  deriving Repr, DecidableEq

def tableLookup (k : List Bool) : List (List Bool × Str) → Option Str
  | [] => none
  | (a, v) :: r => if a = k then some v else tableLookup k r

/-- `Platform().default_transport()`; a table without the row cannot happen for generated tables
    (`Gen.C20.transport_total`) and is reported as an error rather than defaulted. -/
def defaultTransport (P : Platform) (ex : Str → Bool) : Except PyErr Str :=
  match tableLookup (P.transportProbes.map ex) P.transportTable with
  | some v => .ok v
  | none => .error .other

/-- inner `get_path`: first existing candidate, `''` when none exists -/
def getPath (paths : List Str) (ex : Str → Bool) : Str := (paths.find? ex).getD []

/-- option keys after configparser's `optionxform` -/
def keysOf : List Line → List Str
  | [] => []
  | .other :: r => keysOf r
  | .kv k _ :: r => lower k :: keysOf r

/-- strict `ConfigParser`: a repeated option raises `DuplicateOptionError` -/
def hasDup : List Str → Bool
  | [] => false
  | k :: r => r.contains k || hasDup r

/-- `parser['DEFAULT'][key]` (`none` = `KeyError`, which the code swallows) -/
def fileGet (ls : List Line) (key : Str) : Option Str :=
  match ls with
  | [] => none
  | .other :: r => fileGet r key
  | .kv k v :: r => if lower k = key then some v else fileGet r key

def layer (dflt : Str) (file : Option Str) (env : Option Str) : Str :=
  match env with
  | some v => v
  | none => match file with
    | some v => v
    | none => dflt

/-- inner `resolve_location` (`path` is the configuration file found, `''` if none) -/
def resolveLocation (path : Str) (defaults : List Str) (ex : Str → Bool) (value : Str) :
    Except PyErr Str :=
  -- `sp = value.split(':')`; one part: no location; two parts: scheme, loc; more: the tuple
  -- assignment `scheme, loc = sp` raises ValueError
  match part ':' value with
  | (scheme, none) => .ok (scheme ++ ':' :: finish [] )
  | (scheme, some loc) =>
    if loc.contains ':' then .error .valueError
    else .ok (scheme ++ ':' :: finish loc)
where
  finish (loc : Str) : Str :=
    if loc ≠ [] ∧ ex loc then loc
    else
      let loc2 := if loc ≠ [] then join (dirname path) loc else loc
      if loc2 ≠ [] ∧ ex loc2 then loc2
      else match defaults.find? ex with
        | some p => p
        | none => loc2

/-- the three settings before store locations are resolved (with the configuration file in effect) -/
def rawConf (P : Platform) (W : World) : Except PyErr (Str × Conf) :=
  let path := getPath P.confPaths W.exist
  match defaultTransport P W.exist with
  | .error e => .error e
  | .ok dt =>
    let ls := if path = [] then [] else W.files path
    if hasDup (keysOf ls) then .error .other
    else
      let f := fun k => if path = [] then none else fileGet ls k
      .ok (path, { transport := layer dt (f "transport".toList) W.env.transport
                   pib := layer P.pibScheme (f "pib".toList) W.env.pib
                   tpm := layer P.tpmScheme (f "tpm".toList) W.env.tpm })

def readClientConf (P : Platform) (W : World) : Except PyErr Conf :=
  match rawConf P W with
  | .error e => .error e
  | .ok (path, raw) =>
    match resolveLocation path P.pibPaths W.exist raw.pib with
    | .error e => .error e
    | .ok pib =>
      match resolveLocation path P.tpmPaths W.exist raw.tpm with
      | .error e => .error e
      | .ok tpm => .ok { transport := raw.transport, pib := pib, tpm := tpm }

/-! ### default_face: urllib.parse.urlsplit on ASCII text without control characters -/

structure Url where
  scheme : Str
  netloc : Str
  path : Str
  deriving Repr, DecidableEq

def schemeChar (c : Char) : Bool := c.isAlphanum || c = '+' || c = '-' || c = '.'

def notDelim (c : Char) : Bool := !(c = '/' || c = '?' || c = '#')

/-- the scheme split of `urlsplit` -/
def splitScheme (s : Str) : Str × Str :=
  match part ':' s with
  | (pre, some post) =>
    if pre ≠ [] ∧ (pre.head?.map Char.isAlpha = some true) ∧ pre.all schemeChar then (lower pre, post)
    else ([], s)
  | (_, none) => ([], s)

/-- the two bracket checks of `urlsplit`: unbalanced brackets, or a bracketed host the library rejects -/
def bracketBad (netloc : Str) (bracketOk : Bool) : Bool :=
  let ob := netloc.contains '['
  let cb := netloc.contains ']'
  (ob && !cb) || (cb && !ob) || (ob && cb && !bracketOk)

/-- fragment and query are cut off the path -/
def stripQF (url : Str) : Str := (part '?' (part '#' url).1).1

/-- `bracketOk`: whether the text between `[` and `]` of the netloc is accepted by
    `urllib.parse._check_bracketed_host` (`ipaddress` / IPvFuture syntax; not modelled). -/
def urlsplit (s : Str) (bracketOk : Bool) : Except PyErr Url :=
  let su := splitScheme s
  if su.2.take 2 = ['/', '/'] then
    let rest := su.2.drop 2
    let netloc := rest.takeWhile notDelim
    if bracketBad netloc bracketOk then .error .valueError
    else .ok { scheme := su.1, netloc := netloc, path := stripQF (rest.dropWhile notDelim) }
  else .ok { scheme := su.1, netloc := [], path := stripQF su.2 }

/-- `_hostinfo`: raw host name and port text (`none` when empty) -/
def hostinfo (netloc : Str) : Str × Option Str :=
  let hi := afterLast '@' netloc
  let nonEmpty : Str → Option Str := fun p => if p = [] then none else some p
  match part '[' hi with
  | (_, some br) =>
    let (h, after) := part ']' br
    let port := match after with
      | none => []
      | some a => ((part ':' a).2).getD []
    (h, nonEmpty port)
  | (_, none) =>
    let (h, p) := part ':' hi
    (h, nonEmpty (p.getD []))

/-- `SplitResult.hostname` -/
def hostname (netloc : Str) : Option Str :=
  let h := (hostinfo netloc).1
  if h = [] then none
  else match part '%' h with
    | (a, some z) => some (lower a ++ '%' :: z)
    | (a, none) => some (lower a)

def decVal (ds : Str) : Nat := ds.foldl (fun n c => n * 10 + (c.toNat - 48)) 0

/-- `SplitResult.port` -/
def port (netloc : Str) : Except PyErr (Option Nat) :=
  match (hostinfo netloc).2 with
  | none => .ok none
  | some p =>
    if p.all Char.isDigit then
      if decVal p ≤ 65535 then .ok (some (decVal p)) else .error .valueError
    else .error .valueError

inductive Face where
  | unix (path : Str)
  | tcp (host : Str) (port : Nat)
  | udp (host : Option Str) (port : Nat)
  deriving Repr, DecidableEq

/-- class-level defaults of the face classes (generated from the live classes) -/
structure FaceDefaults where
  unixPath : Str
  tcpHost : Str

def tcpSchemes : List Str := ["tcp".toList, "tcp4".toList, "tcp6".toList]
def udpSchemes : List Str := ["udp".toList, "udp4".toList, "udp6".toList]

def defaultFace (D : FaceDefaults) (s : Str) (bracketOk : Bool) : Except PyErr Face :=
  match urlsplit s bracketOk with
  | .error e => .error e
  | .ok u =>
    if u.scheme = "unix".toList then .ok (.unix (if u.path = [] then D.unixPath else u.path))
    else
      let host := hostname u.netloc
      match port u.netloc with
      | .error e => .error e
      | .ok p =>
        let p := match p with
          | some n => if n = 0 then 6363 else n
          | none => 6363
        if tcpSchemes.contains u.scheme then
          .ok (.tcp (match host with | some h => h | none => D.tcpHost) p)
        else if udpSchemes.contains u.scheme then .ok (.udp host p)
        else .error .valueError

/-! ### default_keychain (Linux: only `tpm-file` / `pib-sqlite3` are constructible) -/

inductive Keychain where
  | sqlite (db : Str) (tpmDir : Str)
  deriving Repr, DecidableEq

def defaultKeychain (pib tpm : Str) : Except PyErr Keychain :=
  -- `x.split(':', 1)` into exactly two names: ValueError without a colon
  match part ':' pib, part ':' tpm with
  | (ps, some pl), (ts, some tl) =>
    if ts = "tpm-file".toList then
      if ps = "pib-sqlite3".toList then .ok (.sqlite (join pl "pib.db".toList) tl)
      else .error .valueError
    else if ts = "tpm-osxkeychain".toList ∨ ts = "tpm-cng".toList then .error .other  -- NameError off-platform
    else .error .valueError
  | _, _ => .error .valueError

end Ndn.ClientConf
