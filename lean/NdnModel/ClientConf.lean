import NdnModel.PyDict
/-
  Model of `ndn/client_conf.py` (`read_client_conf`, its inner `get_path` / `resolve_location`,
  `default_face`, `default_keychain`) over an abstract environment:

  * the platform (`ndn/platform/linux.py`) is a table `Platform` (generated from the live source into
    `NdnGen/C20.lean`): ordered candidate paths, default schemes, default store locations, and the
    default transport as a decision table over the probed socket paths;
  * the file system is a predicate `exists : Str → Bool` on the *literal* strings the code passes to
    `os.path.exists`, and a map path ↦ the physical lines of the file (after the universal-newline
    translation of `open`, without terminators), read by `parseConf`, a model of what
    `ConfigParser(interpolation=None).read_string('[DEFAULT]\n' + text)` does (`configparser.RawConfigParser._read`):
    full-line `#`/`;` comments, blank lines, section headers, `=`/`:` delimiters, continuation lines, lower-cased
    option names, strict duplicate detection, lines that are neither (ParsingError at the end);
  * the process environment is the three optional `NDN_CLIENT_*` values.

  Strings are `List Char` (ASCII).  `os.path.expandvars` is the identity on the paths used (no `$`).
-/
namespace Ndn.ClientConf

abbrev Str := List Char

def lower (s : Str) : Str := s.map Char.toLower

/-- `s.partition(c)`: text before the first `c`, and the text after it when `c` occurs. -/
def part (c : Char) : Str → Str × Option Str
  | [] => ([], none)
  | x :: r => if x = c then ([], some r) else ((x :: (part c r).1), (part c r).2)

/-- `s.rpartition(c)[2]`: text after the last `c` (the whole string when `c` does not occur). -/
def afterLast (c : Char) (s : Str) : Str := (part c s.reverse).1.reverse

/-! ### os.path (posixpath) -/

/-- `posixpath.dirname` -/
def dirname (p : Str) : Str :=
  let head := (p.reverse.dropWhile (· ≠ '/')).reverse
  if head.all (· = '/') then head else (head.reverse.dropWhile (· = '/')).reverse

/-- `posixpath.join a b` -/
def join (a b : Str) : Str :=
  if b.head? = some '/' then b
  else if a = [] ∨ a.getLast? = some '/' then a ++ b
  else a ++ '/' :: b

/-! ### platform table and environment -/

structure Platform where
  confPaths : List Str
  /-- socket paths probed by `default_transport`, and its result per truth assignment -/
  transportProbes : List Str
  transportTable : List (List Bool × Str)
  pibScheme : Str
  pibPaths : List Str
  tpmScheme : Str
  tpmPaths : List Str

structure Env where
  transport : Option Str
  pib : Option Str
  tpm : Option Str

structure World where
  exist : Str → Bool
  files : Str → List Str
  env : Env

structure Conf where
  transport : Str
  pib : Str
  tpm : Str
  deriving Repr, DecidableEq

def tableLookup (k : List Bool) : List (List Bool × Str) → Option Str
  | [] => none
  | (a, v) :: r => if a = k then some v else tableLookup k r

/-- `Platform().default_transport()`; a table without the row cannot happen for generated tables
    (`Gen.C20.transport_total`) and is reported as an error rather than defaulted. -/
def defaultTransport (P : Platform) (ex : Str → Bool) : Except PyErr Str :=
  match tableLookup (P.transportProbes.map ex) P.transportTable with
  | some v => .ok v
  | none => .error .other

/-- inner `get_path`: first existing candidate, `''` when none exists -/
def getPath (paths : List Str) (ex : Str → Bool) : Str := (paths.find? ex).getD []

/-! ### configparser (`RawConfigParser._read` with the defaults of `ConfigParser(interpolation=None)`:
    delimiters `=` `:`, comment prefixes `#` `;`, no inline comments, strict, no value-less options,
    empty lines in values, `optionxform = str.lower`, default section `DEFAULT`)

    Two passes over the physical lines.  `scan` groups them into logical items - it is the part of the
    loop that decides, from `optname` and `indent_level`, whether a line is a comment, a blank line, a
    continuation of the current option, or starts something new.  `interpret` is the part that keeps
    sections, `elements_added`, the DEFAULT dict and the pending `ParsingError`.  (The real loop does both
    at once and stops at the first `Duplicate*Error`; which error is raised, and the resulting dict, are
    the same.)  Exact for ASCII text. -/

/-- `str.isspace` on ASCII -/
def isWs (c : Char) : Bool := c = ' ' || (9 ≤ c.toNat && c.toNat ≤ 13) || (28 ≤ c.toNat && c.toNat ≤ 31)

def lstrip (s : Str) : Str := s.dropWhile isWs
def rstrip (s : Str) : Str := (s.reverse.dropWhile isWs).reverse
def strip (s : Str) : Str := rstrip (lstrip s)

/-- `NONSPACECRE.search(line).start()` -/
def indentOf (s : Str) : Nat := (s.takeWhile isWs).length

def isDelim (c : Char) : Bool := c = '=' || c = ':'

/-- `line.strip().startswith('#' | ';')` -/
def isComment (v : Str) : Bool := v.head? = some '#' || v.head? = some ';'

/-- `SECTCRE.match(value)`, `\[(?P<header>.+)\]`: the stripped line starts with `[` and has a `]` after at
    least one more character; `.+` is greedy, so the name runs up to the *last* `]` (anything after it is
    ignored) -/
def header? (v : Str) : Option Str :=
  match v with
  | '[' :: r =>
    match r.reverse.dropWhile (· ≠ ']') with
    | _ :: revName => if revName = [] then none else some revName.reverse
    | [] => none
  | _ => none

/-- `_optcre.match(value)`: option = text before the first delimiter without trailing blanks, value = the
    rest, stripped; `none` when the line has no delimiter -/
def splitOpt (v : Str) : Option (Str × Str) :=
  match v.dropWhile (fun c => !isDelim c) with
  | [] => none
  | _ :: val => some (rstrip (v.takeWhile (fun c => !isDelim c)), strip val)

inductive Item where
  | header (name : Str)
  | option (key : Str) (pieces : List Str)   -- name as written; first value and the continuation pieces
  | bogus                                    -- neither a header nor `name <delimiter> value`
  deriving Repr, DecidableEq

/-- first pass.  `live` = `optname` is truthy (an option with a non-empty name was the last thing started
    in the current section), `indent` = `indent_level`.  Returns the pieces that continue the option that
    was current on entry, and the items that start in these lines. -/
def scan (live : Bool) (indent : Nat) : List Str → List Str × List Item
  | [] => ([], [])
  | l :: ls =>
    let v := strip l
    if isComment v then scan live indent ls                -- full-line comment: skipped
    else if v = [] then                                     -- blank: `''` joins the current option's value
      if live then ([] :: (scan live indent ls).1, (scan live indent ls).2) else scan live indent ls
    else if live && decide (indent < indentOf l) then       -- continuation line
      (v :: (scan live indent ls).1, (scan live indent ls).2)
    else
      match header? v with
      | some n => ([], .header n :: (scan false (indentOf l) ls).2)
      | none =>
        match splitOpt v with
        | some (k, val) =>
          ([], .option k (val :: (scan (decide (k ≠ [])) (indentOf l) ls).1) ::
                 (scan (decide (k ≠ [])) (indentOf l) ls).2)
        | none => ((scan live (indentOf l) ls).1, .bogus :: (scan live (indentOf l) ls).2)

inductive ConfErr where
  | missingSectionHeader | duplicateSection | duplicateOption | parsing
  deriving Repr, DecidableEq

def ConfErr.name : ConfErr → String
  | .missingSectionHeader => "MissingSectionHeaderError" | .duplicateSection => "DuplicateSectionError"
  | .duplicateOption => "DuplicateOptionError" | .parsing => "ParsingError"

def dfltName : Str := "DEFAULT".toList

/-- `_join_multiline_values`: `'\n'.join(pieces).rstrip()` -/
def joinPieces (ps : List Str) : Str := rstrip (List.intercalate ['\n'] ps)

structure IState where
  sect : Option Str             -- `sectname` (`none`: no header seen, `cursect is None`)
  sects : List Str              -- `self._sections`
  added : List (Str × Str)      -- the (section, option) pairs of `elements_added`
  dflt : PyDict Str Str         -- `self._defaults`
  bad : Bool                    -- a ParsingError is pending

/-- second pass, one item -/
def istep (st : IState) : Item → Except ConfErr IState
  | .header n =>
    if n = dfltName then .ok { st with sect := some n }
    else if st.sects.contains n then .error .duplicateSection
    else .ok { st with sect := some n, sects := n :: st.sects }
  | .option k ps =>
    match st.sect with
    | none => .error .missingSectionHeader
    | some s =>
      if st.added.contains (s, lower k) then .error .duplicateOption
      else .ok { st with bad := st.bad || decide (k = []), added := (s, lower k) :: st.added,
                         dflt := if s = dfltName then PyDict.set st.dflt (lower k) (joinPieces ps) else st.dflt }
  | .bogus =>
    match st.sect with
    | none => .error .missingSectionHeader
    | some _ => .ok { st with bad := true }

def interpret (items : List Item) : Except ConfErr (PyDict Str Str) :=
  match items.foldlM istep ⟨none, [], [], [], false⟩ with
  | .error e => .error e
  | .ok st => if st.bad then .error .parsing else .ok st.dflt

/-- the logical items of `'[DEFAULT]\n' + text` -/
def logical (lines : List Str) : List Item := (scan false 0 ("[DEFAULT]".toList :: lines)).2

/-- `parser.read_string('[DEFAULT]\n' + text)`; the result is `parser['DEFAULT']` as an ordered dict -/
def parseConf (lines : List Str) : Except ConfErr (PyDict Str Str) := interpret (logical lines)

def confFails (lines : List Str) : Bool :=
  match parseConf lines with
  | .error _ => true
  | .ok _ => false

/-- `parser['DEFAULT'][key]` (`none` = `KeyError`, which the code swallows) -/
def fileGet (lines : List Str) (key : Str) : Option Str :=
  match parseConf lines with
  | .ok d => PyDict.get? d key
  | .error _ => none

def layer (dflt : Str) (file : Option Str) (env : Option Str) : Str :=
  match env with
  | some v => v
  | none => match file with
    | some v => v
    | none => dflt

/-- inner `resolve_location` (`path` is the configuration file found, `''` if none) -/
def resolveLocation (path : Str) (defaults : List Str) (ex : Str → Bool) (value : Str) :
    Except PyErr Str :=
  -- `sp = value.split(':')`; one part: no location; two parts: scheme, loc; more: the tuple
  -- assignment `scheme, loc = sp` raises ValueError
  match part ':' value with
  | (scheme, none) => .ok (scheme ++ ':' :: finish [] )
  | (scheme, some loc) =>
    if loc.contains ':' then .error .valueError
    else .ok (scheme ++ ':' :: finish loc)
where
  finish (loc : Str) : Str :=
    if loc ≠ [] ∧ ex loc then loc
    else
      let loc2 := if loc ≠ [] then join (dirname path) loc else loc
      if loc2 ≠ [] ∧ ex loc2 then loc2
      else match defaults.find? ex with
        | some p => p
        | none => loc2

/-- the three settings before store locations are resolved (with the configuration file in effect) -/
def rawConf (P : Platform) (W : World) : Except PyErr (Str × Conf) :=
  let path := getPath P.confPaths W.exist
  match defaultTransport P W.exist with
  | .error e => .error e
  | .ok dt =>
    let ls := if path = [] then [] else W.files path
    if confFails ls then .error .other        -- DuplicateOptionError / DuplicateSectionError / ParsingError
    else
      let f := fun k => if path = [] then none else fileGet ls k
      .ok (path, { transport := layer dt (f "transport".toList) W.env.transport
                   pib := layer P.pibScheme (f "pib".toList) W.env.pib
                   tpm := layer P.tpmScheme (f "tpm".toList) W.env.tpm })

def readClientConf (P : Platform) (W : World) : Except PyErr Conf :=
  match rawConf P W with
  | .error e => .error e
  | .ok (path, raw) =>
    match resolveLocation path P.pibPaths W.exist raw.pib with
    | .error e => .error e
    | .ok pib =>
      match resolveLocation path P.tpmPaths W.exist raw.tpm with
      | .error e => .error e
      | .ok tpm => .ok { transport := raw.transport, pib := pib, tpm := tpm }

/-! ### default_face: urllib.parse.urlsplit on ASCII text without control characters -/

structure Url where
  scheme : Str
  netloc : Str
  path : Str
  deriving Repr, DecidableEq

def schemeChar (c : Char) : Bool := c.isAlphanum || c = '+' || c = '-' || c = '.'

def notDelim (c : Char) : Bool := !(c = '/' || c = '?' || c = '#')

/-- the scheme split of `urlsplit` -/
def splitScheme (s : Str) : Str × Str :=
  match part ':' s with
  | (pre, some post) =>
    if pre ≠ [] ∧ (pre.head?.map Char.isAlpha = some true) ∧ pre.all schemeChar then (lower pre, post)
    else ([], s)
  | (_, none) => ([], s)

/-- the two bracket checks of `urlsplit`: unbalanced brackets, or a bracketed host the library rejects -/
def bracketBad (netloc : Str) (bracketOk : Bool) : Bool :=
  let ob := netloc.contains '['
  let cb := netloc.contains ']'
  (ob && !cb) || (cb && !ob) || (ob && cb && !bracketOk)

/-- fragment and query are cut off the path -/
def stripQF (url : Str) : Str := (part '?' (part '#' url).1).1

/-- `bracketOk`: whether the text between `[` and `]` of the netloc is accepted by
    `urllib.parse._check_bracketed_host` (`ipaddress` / IPvFuture syntax; not modelled). -/
def urlsplit (s : Str) (bracketOk : Bool) : Except PyErr Url :=
  let su := splitScheme s
  if su.2.take 2 = ['/', '/'] then
    let rest := su.2.drop 2
    let netloc := rest.takeWhile notDelim
    if bracketBad netloc bracketOk then .error .valueError
    else .ok { scheme := su.1, netloc := netloc, path := stripQF (rest.dropWhile notDelim) }
  else .ok { scheme := su.1, netloc := [], path := stripQF su.2 }

/-- `_hostinfo`: raw host name and port text (`none` when empty) -/
def hostinfo (netloc : Str) : Str × Option Str :=
  let hi := afterLast '@' netloc
  let nonEmpty : Str → Option Str := fun p => if p = [] then none else some p
  match part '[' hi with
  | (_, some br) =>
    let (h, after) := part ']' br
    let port := match after with
      | none => []
      | some a => ((part ':' a).2).getD []
    (h, nonEmpty port)
  | (_, none) =>
    let (h, p) := part ':' hi
    (h, nonEmpty (p.getD []))

/-- `SplitResult.hostname` -/
def hostname (netloc : Str) : Option Str :=
  let h := (hostinfo netloc).1
  if h = [] then none
  else match part '%' h with
    | (a, some z) => some (lower a ++ '%' :: z)
    | (a, none) => some (lower a)

def decVal (ds : Str) : Nat := ds.foldl (fun n c => n * 10 + (c.toNat - 48)) 0

/-- `SplitResult.port` -/
def port (netloc : Str) : Except PyErr (Option Nat) :=
  match (hostinfo netloc).2 with
  | none => .ok none
  | some p =>
    if p.all Char.isDigit then
      if decVal p ≤ 65535 then .ok (some (decVal p)) else .error .valueError
    else .error .valueError

inductive Face where
  | unix (path : Str)
  | tcp (host : Str) (port : Nat)
  | udp (host : Option Str) (port : Nat)
  deriving Repr, DecidableEq

/-- class-level defaults of the face classes (generated from the live classes) -/
structure FaceDefaults where
  unixPath : Str
  tcpHost : Str

def tcpSchemes : List Str := ["tcp".toList, "tcp4".toList, "tcp6".toList]
def udpSchemes : List Str := ["udp".toList, "udp4".toList, "udp6".toList]

def defaultFace (D : FaceDefaults) (s : Str) (bracketOk : Bool) : Except PyErr Face :=
  match urlsplit s bracketOk with
  | .error e => .error e
  | .ok u =>
    if u.scheme = "unix".toList then .ok (.unix (if u.path = [] then D.unixPath else u.path))
    else
      let host := hostname u.netloc
      match port u.netloc with
      | .error e => .error e
      | .ok p =>
        let p := match p with
          | some n => if n = 0 then 6363 else n
          | none => 6363
        if tcpSchemes.contains u.scheme then
          .ok (.tcp (match host with | some h => h | none => D.tcpHost) p)
        else if udpSchemes.contains u.scheme then .ok (.udp host p)
        else .error .valueError

/-! ### default_keychain (Linux: only `tpm-file` / `pib-sqlite3` are constructible) -/

inductive Keychain where
  | sqlite (db : Str) (tpmDir : Str)
  deriving Repr, DecidableEq

def defaultKeychain (pib tpm : Str) : Except PyErr Keychain :=
  -- `x.split(':', 1)` into exactly two names: ValueError without a colon
  match part ':' pib, part ':' tpm with
  | (ps, some pl), (ts, some tl) =>
    if ts = "tpm-file".toList then
      if ps = "pib-sqlite3".toList then .ok (.sqlite (join pl "pib.db".toList) tl)
      else .error .valueError
    else if ts = "tpm-osxkeychain".toList ∨ ts = "tpm-cng".toList then .error .other  -- NameError off-platform
    else .error .valueError
  | _, _ => .error .valueError

end Ndn.ClientConf
