import NdnModel.Pit
/-
  The incoming-Interest pipeline after decoding and route lookup
  (`appv2.py` / `app.py`  NDNApp._on_interest and its inner `submit_interest`).

  What is mirrored
  * no route / a route without callback: nothing happens;
  * `sig_required = app_param is not None or sig.signature_info is not None`; when it holds
    `params_sha256_checker` runs first and a wrong ParametersSha256DigestComponent drops the Interest;
  * v2 `submit_interest`: when `sig_required`, the route's validator decides - a missing validator is `FAIL`; only
    `PASS` / `ALLOW_BYPASS` reach the handler; plain Interests are `PASS` without consulting anything;
  * legacy `submit_interest`: a validator is consulted only when SignatureInfo is present - the route's validator, or
    the application-wide `int_validator` when the route has none - and its truthiness decides; everything else is
    delivered.
  The validator's own answer is a script (`Verdict`); `raiseTimeout` / `raiseOther` make the validation task die
  (nothing is delivered).
-/
namespace Ndn.Gate
open Ndn.Pit

structure IntPkt where
  hasParams : Bool        -- ApplicationParameters present
  hasSig : Bool           -- InterestSignatureInfo present
  digestOk : Bool         -- what params_sha256_checker computes
  deriving DecidableEq, Repr

inductive Route where
  | none                                   -- longest_prefix found nothing
  | noCallback                             -- node without callback
  | handler (validator : Option Verdict)   -- callback, and the validator attached with it (scripted answer)
  deriving DecidableEq, Repr

inductive Act where
  | digestCheck | validate | handle
  deriving DecidableEq, Repr

/-- does the scripted validator let the packet through? (`none` = it raised) -/
def lets (_fe : FrontEnd) : Verdict → Bool
  | .pass => true
  | .allowBypass => true
  | _ => false

/-- `dflt`: what the legacy application-wide `int_validator` answers for this packet -/
def onInterest (fe : FrontEnd) (dflt : Verdict) (p : IntPkt) : Route → List Act
  | .none => []
  | .noCallback => []
  | .handler val =>
    let sigRequired := p.hasParams || p.hasSig
    if sigRequired && !p.digestOk then [.digestCheck]
    else
      let pre := if sigRequired then [Act.digestCheck] else []
      match fe with
      | .v2 =>
        if sigRequired then
          match val with
          | some v => pre ++ [.validate] ++ (if lets .v2 v then [.handle] else [])
          | none => pre
        else pre ++ [.handle]
      | .v1 =>
        if p.hasSig then
          let v := match val with | some v => v | none => dflt
          pre ++ [.validate] ++ (if lets .v1 v then [.handle] else [])
        else pre ++ [.handle]

end Ndn.Gate
