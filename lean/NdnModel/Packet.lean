import NdnModel.Codec
/-
  Packet-level decoders of ndn_format_0_3.py / ndnlp_v2.py / security_v2.py on top of the generic codec:
  `parse_and_check_tl` (outer Type and exact outer Length), the model's scan loop, and the two
  post-conditions the decoders add (mandatory Name; NDNLP fragmentation fields must be absent).
-/
namespace Ndn.Packet
open Ndn Ndn.Codec

/-- index of the first Name field of a schema -/
def nameIdx : List Schema → Option Nat
  | [] => none
  | .name _ :: _ => some 0
  | _ :: r => (nameIdx r).map (· + 1)

def isNone : Value → Bool
  | .none => true
  | _ => false

/-- some field whose Type is in `forbid` is present (LpPacket: FragIndex / FragCount) -/
def anyPresent : List Schema → List Value → List Nat → Bool
  | s :: ss, v :: vs, forbid =>
    (match s.typ with
      | some t => forbid.contains t && !isNone v
      | none => false) || anyPresent ss vs forbid
  | _, _, _ => false

/-- the (first) Name field is absent from a parsed model -/
def nameMissing (fs : List Schema) (vs : List Value) : Bool :=
  match nameIdx fs with
  | some i => (match vs[i]? with | some x => isNone x | none => true)
  | none => false

/-- `parse_interest` / `parse_data` / `parse_certificate` / `parse_lp_packet_v2` with `with_tl=True` -/
def decodePacket (fs : List Schema) (outer : Nat) (ic needName : Bool) (forbid : List Nat) (wire : Bytes) :
    Except PyErr (List Value) := do
  let v ← parseAndCheckTl wire outer
  let vs ← parse fs ic v
  if (needName && nameMissing fs vs) = true then .error .decodeError
  else if anyPresent fs vs forbid = true then .error .decodeError
  else .ok vs

end Ndn.Packet
