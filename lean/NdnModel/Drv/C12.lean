import NdnModel.Lvs.Proto
/-  Driver of C12: the LVS line protocol (see NdnModel/Lvs/Proto.lean).  -/
namespace Ndn.Drv.C12

def handle (args : List String) : String := Ndn.Lvs.Proto.handle args

end Ndn.Drv.C12
