import NdnModel.ClientConf
import NdnGen.C20
/-  Line protocol for the client-configuration model (text = lowercase hex of ASCII, `-` = empty):
    `C20 conf <home> <exists> <files> <envT> <envP> <envM>`
        exists ::= . | hex,hex,…          files ::= . | file;file;…     file ::= <path>'>'<lines>
        lines  ::= _ | line|line|…         line  ::= hex (the physical line, `-` = empty)    env ::= ~ | hex
        answer `ok <transport> <pib> <tpm>` | `err <class>`
    `C20 parse <lines>`                answer `ok _` | `ok <key>=<value>|…` (parser['DEFAULT'], in order) |
                                       `err DuplicateOptionError|DuplicateSectionError|ParsingError|MissingSectionHeaderError`
    `C20 face <uri> <bracketOk 0|1>`   answer `ok unix <path>` | `ok tcp <host> <port>` | `ok udp <host or ~> <port>`
    `C20 kc <pib> <tpm>`               answer `ok <db> <tpmdir>`
    The platform table is the generated one (`Ndn.Gen.C20.platform home`). -/
namespace Ndn.Drv.C20
open Ndn Ndn.ClientConf

def strOf (b : Bytes) : Str := b.map fun x => Char.ofNat x.toNat
def hexOf (s : Str) : String := toHex (s.map fun c => UInt8.ofNat c.toNat)
def pStr (s : String) : Option Str := (fromHex s).map strOf

def pLines (ls : String) : Option (List Str) :=
  if ls == "_" then some [] else (ls.splitOn "|").mapM pStr

def pFile (s : String) : Option (Str × List Str) :=
  match s.splitOn ">" with
  | [p, ls] => do
    let p ← pStr p
    let ls ← pLines ls
    pure (p, ls)
  | _ => none

def pEnv (s : String) : Option (Option Str) :=
  if s == "~" then some none else (pStr s).map some

def lookupFile (fs : List (Str × List Str)) (p : Str) : List Str :=
  match fs with
  | [] => []
  | (q, ls) :: r => if q = p then ls else lookupFile r p

def showFace : Face → String
  | .unix p => "unix " ++ hexOf p
  | .tcp h p => "tcp " ++ hexOf h ++ " " ++ toString p
  | .udp h p => "udp " ++ (match h with | some h => hexOf h | none => "~") ++ " " ++ toString p

def handle (args : List String) : String :=
  match args with
  | ["conf", home, ex, files, et, ep, em] =>
    match pStr home, (if ex == "." then some [] else (ex.splitOn ",").mapM pStr),
          (if files == "." then some [] else (files.splitOn ";").mapM pFile), pEnv et, pEnv ep, pEnv em with
    | some home, some ex, some fs, some et, some ep, some em =>
      let W : World := { exist := fun p => ex.contains p, files := lookupFile fs,
                         env := { transport := et, pib := ep, tpm := em } }
      showExcept (fun c => hexOf c.transport ++ " " ++ hexOf c.pib ++ " " ++ hexOf c.tpm)
        (readClientConf (Ndn.Gen.C20.platform home) W)
    | _, _, _, _, _, _ => "bad-op"
  | ["parse", ls] =>
    match pLines ls with
    | some ls =>
      match parseConf ls with
      | .ok [] => "ok _"
      | .ok d => "ok " ++ "|".intercalate (d.map fun (k, v) => hexOf k ++ "=" ++ hexOf v)
      | .error e => "err " ++ e.name
    | none => "bad-op"
  | ["face", uri, b] =>
    match pStr uri, (if b == "0" then some false else if b == "1" then some true else none) with
    | some u, some b => showExcept showFace (defaultFace Ndn.Gen.C20.faceDefaults u b)
    | _, _ => "bad-op"
  | ["kc", pib, tpm] =>
    match pStr pib, pStr tpm with
    | some p, some t => showExcept (fun | .sqlite db d => hexOf db ++ " " ++ hexOf d) (defaultKeychain p t)
    | _, _ => "bad-op"
  | _ => "bad-op"

end Ndn.Drv.C20
