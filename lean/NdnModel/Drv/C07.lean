import NdnModel.CodecIO
import NdnModel.Packet
/-  C07 protocol:
    `C07 pkt <schemas> <outerType> <ic 0|1> <needName 0|1> <forbidTypes a,b|.> <hex>` → `ok <values>` | `err <PyErr>`
    `C07 name <hex>`                                                            → `ok n(...)`   | `err <PyErr>` -/
namespace Ndn.Drv.C07
open Ndn Ndn.Codec Ndn.Packet

mutual
partial def hideMarkers : List Schema → List Value → List Value
  | s :: ss, v :: vs => hideMarker s v :: hideMarkers ss vs
  | _, vs => vs
partial def hideMarker : Schema → Value → Value
  | .marker, _ => .none
  | .model _ fs _, .model vs => .model (hideMarkers fs vs)
  | .repeated e, .list vs => .list (vs.map (hideMarker e))
  | _, v => v
end

def handle (args : List String) : String :=
  match args with
  | ["pkt", ss, outer, ic, nn, forbid, hx] =>
    match readSchemas ss, outer.toNat?, natList forbid, fromHex hx with
    | some fs, some o, some fb, some w =>
      match decodePacket fs o (ic == "1") (nn == "1") fb w with
      | .ok vs => "ok " ++ showValues (hideMarkers fs vs)
      | .error e => "err " ++ e.name
    | _, _, _, _ => "bad-op"
  | ["name", hx] =>
    match fromHex hx with
    | some w =>
      match decodeName w 0 with
      | .ok cs => "ok " ++ showValue (.name cs)
      | .error e => "err " ++ e.name
    | none => "bad-op"
  | _ => "bad-op"

end Ndn.Drv.C07
