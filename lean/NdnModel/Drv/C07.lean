import NdnModel.CodecIO
import NdnModel.Packet
import NdnModel.CodecStrict
/-  C07 protocol:
    `C07 pkt <schemas> <outerType> <ic 0|1> <needName 0|1> <forbidTypes a,b|.> <hex>` → `ok <values>` | `err <PyErr>`
    `C07 name <hex>`                                                            → `ok n(...)`   | `err <PyErr>`
    `C07 strict <same arguments as pkt>` (the strict decoder `strictDecodePacket`)
                                         → `ok <values>` | `rej overrun-<kind>` | `rej <PyErr>`
    `C07 both <same arguments as pkt>`   → `<pkt answer> <strict answer>` -/
namespace Ndn.Drv.C07
open Ndn Ndn.Codec Ndn.Packet

mutual
partial def hideMarkers : List Schema → List Value → List Value
  | s :: ss, v :: vs => hideMarker s v :: hideMarkers ss vs
  | _, vs => vs
partial def hideMarker : Schema → Value → Value
  | .marker, _ => .none
  | .model _ fs _, .model vs => .model (hideMarkers fs vs)
  | .repeated e, .list vs => .list (vs.map (hideMarker e))
  | _, v => v
end

def pktAnswer (fs : List Schema) (o : Nat) (ic nn : Bool) (fb : List Nat) (w : Bytes) : String :=
  match decodePacket fs o ic nn fb w with
  | .ok vs => "ok " ++ showValues (hideMarkers fs vs)
  | .error e => "err " ++ e.name

def strictAnswer (fs : List Schema) (o : Nat) (ic nn : Bool) (fb : List Nat) (w : Bytes) : String :=
  match strictDecodePacket fs o ic nn fb w with
  | .ok vs => "ok " ++ showValues (hideMarkers fs vs)
  | .error (.overrun k) => "rej overrun-" ++ k.text
  | .error (.py e) => "rej " ++ e.name

def handle (args : List String) : String :=
  match args with
  | ["strict", ss, outer, ic, nn, forbid, hx] =>
    match readSchemas ss, outer.toNat?, natList forbid, fromHex hx with
    | some fs, some o, some fb, some w => strictAnswer fs o (ic == "1") (nn == "1") fb w
    | _, _, _, _ => "bad-op"
  | ["both", ss, outer, ic, nn, forbid, hx] =>
    match readSchemas ss, outer.toNat?, natList forbid, fromHex hx with
    | some fs, some o, some fb, some w =>
      pktAnswer fs o (ic == "1") (nn == "1") fb w ++ " " ++ strictAnswer fs o (ic == "1") (nn == "1") fb w
    | _, _, _, _ => "bad-op"
  | ["pkt", ss, outer, ic, nn, forbid, hx] =>
    match readSchemas ss, outer.toNat?, natList forbid, fromHex hx with
    | some fs, some o, some fb, some w =>
      match decodePacket fs o (ic == "1") (nn == "1") fb w with
      | .ok vs => "ok " ++ showValues (hideMarkers fs vs)
      | .error e => "err " ++ e.name
    | _, _, _, _ => "bad-op"
  | ["name", hx] =>
    match fromHex hx with
    | some w =>
      match decodeName w 0 with
      | .ok cs => "ok " ++ showValue (.name cs)
      | .error e => "err " ++ e.name
    | none => "bad-op"
  | _ => "bad-op"

end Ndn.Drv.C07
