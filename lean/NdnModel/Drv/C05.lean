import NdnModel.Gate
import NdnModel.GateTimed
import NdnModel.Drv.C03
/-  Line protocol for C05:
    `C05 h <v1|v2> <history>`                      the PIT model, same history syntax and answer as C03
    `C05 g <v1|v2> <dflt> <params><sig><digestOk> <route>`   the incoming-Interest gate
        bits are 0/1, route ::= none | nocb | h:~ | h:<verdict>
        answer: `ok <acts>` with acts a string over d (digest check) v (validator) h (handler), `-` if empty
    `C05 t <v1|v2> <av> <ev>;<ev>;…`               the timed gate (`.` = empty history); `av` = id of the legacy
        application-wide validator
        ev ::= a:<name>:<hid|~>:<vid|~>  attach      | x:<name>  detach      | i:<name>:<params><sig><digestOk>  arrive
             | s:<i>  the task of Interest i starts   | d:<i>:<verdict>  its validator answers   | t:<i>  deadline
        name ::= c1.c2.…  (`~` = empty; a component is one number 0..255)
        answer: `ok <res>|<seg>/<seg>/…`; res: one letter per attach / detach (o ok, V ValueError, K KeyError, X other),
        `-` if there is none; one segment per event, holding what that event made observable, comma-separated:
        d<i> (digest check of Interest i) v<i>.<vid> (validator called) h<i>.<hid> (handler called)
        E<i>.<class> (its submit_interest task died) -/
namespace Ndn.Drv.C05
open Ndn Ndn.Pit Ndn.Gate

def parseRoute (s : String) : Option Route :=
  if s == "none" then some .none
  else if s == "nocb" then some .noCallback
  else if s == "h:~" then some (.handler none)
  else if s.startsWith "h:" then (Ndn.Drv.C03.parseVerdict (s.drop 2).toString).map (fun v => .handler (some v))
  else none

def parseBits (s : String) : Option IntPkt :=
  match s.toList with
  | [a, b, c] => do
    let f := fun (ch : Char) => if ch == '1' then some true else if ch == '0' then some false else none
    pure ⟨← f a, ← f b, ← f c⟩
  | _ => none

def showAct : Act → String
  | .digestCheck => "d" | .validate => "v" | .handle => "h"

def parseTName (s : String) : Option GateTimed.Name :=
  if s == "~" then some []
  else (s.splitOn ".").mapM fun c => do
    let k ← c.toNat?
    if k < 256 then some [UInt8.ofNat k] else none

def parseTEv (s : String) : Option GateTimed.Ev :=
  match s.splitOn ":" with
  | ["a", nm, h, v] => do pure (.attach (← parseTName nm) (← Ndn.Drv.C03.parseOpt h) (← Ndn.Drv.C03.parseOpt v))
  | ["x", nm] => do pure (.detach (← parseTName nm))
  | ["i", nm, bits] => do pure (.arrive (← parseTName nm) (← parseBits bits))
  | ["s", i] => do pure (.start (← i.toNat?))
  | ["d", i, v] => do pure (.done (← i.toNat?) (← Ndn.Drv.C03.parseVerdict v))
  | ["t", i] => do pure (.deadline (← i.toNat?))
  | _ => none

def showRes : Fib.Res → String
  | .ok => "o"
  | .err .valueError => "V"
  | .err .keyError => "K"
  | .err _ => "X"

def showObs : GateTimed.Obs → String
  | .digest i => s!"d{i}"
  | .validate i vid => s!"v{i}.{vid}"
  | .handle i h => s!"h{i}.{h}"
  | .died i .timeoutError => s!"E{i}.TimeoutError"
  | .died i .scripted => s!"E{i}.ScriptedError"
  | .died i .typeError => s!"E{i}.TypeError"

/-- what each event of the history adds to the log -/
def segments (fe : FrontEnd) (av : Nat) : GateTimed.St → List GateTimed.Ev → List (List GateTimed.Obs)
  | _, [] => []
  | s, e :: r =>
    let s' := GateTimed.step fe av s e
    s'.log.drop s.log.length :: segments fe av s' r

def handleTimed (fe av evs : String) : String :=
  if !GateTimed.tableOk then "bad-table" else
  let fe? : Option FrontEnd := if fe == "v1" then some .v1 else if fe == "v2" then some .v2 else none
  let evs? : Option (List GateTimed.Ev) := if evs == "." then some [] else (evs.splitOn ";").mapM parseTEv
  match fe?, av.toNat?, evs? with
  | some fe, some av, some evs =>
    let s := GateTimed.run fe av evs
    let res := String.join (s.res.map showRes)
    "ok " ++ (if res.isEmpty then "-" else res) ++ "|" ++
      "/".intercalate ((segments fe av {} evs).map fun seg => ",".intercalate (seg.map showObs))
  | _, _, _ => "bad-op"

def handle (args : List String) : String :=
  match args with
  | ["h", fe, evs] => Ndn.Drv.C03.handle [fe, evs]
  | ["t", fe, av, evs] => handleTimed fe av evs
  | ["g", fe, dflt, bits, route] =>
    if !Gate.tableOk then "bad-table" else
    let fe? : Option FrontEnd := if fe == "v1" then some .v1 else if fe == "v2" then some .v2 else none
    match fe?, Ndn.Drv.C03.parseVerdict dflt, parseBits bits, parseRoute route with
    | some fe, some d, some p, some r =>
      let acts := onInterest fe d p r
      "ok " ++ (if acts.isEmpty then "-" else String.join (acts.map showAct))
    | _, _, _, _ => "bad-op"
  | _ => "bad-op"

end Ndn.Drv.C05
