import NdnModel.Gate
import NdnModel.Drv.C03
/-  Line protocol for C05:
    `C05 h <v1|v2> <history>`                      the PIT model, same history syntax and answer as C03
    `C05 g <v1|v2> <dflt> <params><sig><digestOk> <route>`   the incoming-Interest gate
        bits are 0/1, route ::= none | nocb | h:~ | h:<verdict>
        answer: `ok <acts>` with acts a string over d (digest check) v (validator) h (handler), `-` if empty -/
namespace Ndn.Drv.C05
open Ndn Ndn.Pit Ndn.Gate

def parseRoute (s : String) : Option Route :=
  if s == "none" then some .none
  else if s == "nocb" then some .noCallback
  else if s == "h:~" then some (.handler none)
  else if s.startsWith "h:" then (Ndn.Drv.C03.parseVerdict (s.drop 2).toString).map (fun v => .handler (some v))
  else none

def parseBits (s : String) : Option IntPkt :=
  match s.toList with
  | [a, b, c] => do
    let f := fun (ch : Char) => if ch == '1' then some true else if ch == '0' then some false else none
    pure ⟨← f a, ← f b, ← f c⟩
  | _ => none

def showAct : Act → String
  | .digestCheck => "d" | .validate => "v" | .handle => "h"

def handle (args : List String) : String :=
  match args with
  | ["h", fe, evs] => Ndn.Drv.C03.handle [fe, evs]
  | ["g", fe, dflt, bits, route] =>
    if !Gate.tableOk then "bad-table" else
    let fe? : Option FrontEnd := if fe == "v1" then some .v1 else if fe == "v2" then some .v2 else none
    match fe?, Ndn.Drv.C03.parseVerdict dflt, parseBits bits, parseRoute route with
    | some fe, some d, some p, some r =>
      let acts := onInterest fe d p r
      "ok " ++ (if acts.isEmpty then "-" else String.join (acts.map showAct))
    | _, _, _, _ => "bad-op"
  | _ => "bad-op"

end Ndn.Drv.C05
