import NdnModel.Drv.C06
import NdnModel.ReceiveBytes
import NdnModel.Sha256
import NdnGen.C10
/-  Line protocol for the C10 models.
    `C10 lp <hex>`                      → `ok <nack>:<tok>:<frag>` | `err <cls>`      (parse_lp_packet_v2)
    `C10 nack <reason> <interesthex>`   → `ok <hex>`                                   (make_network_nack)
    `C10 put <tokhex> <datahex>`        → `ok <hex>`                                   (_put_raw_packet_with_pit_token)
    `C10 replies <ev>;<ev>…`            → `ok <hex>,<hex>…`   ev ::= i:<tok|~> | r:<idx>:<datahex>
    `C10 recv <v2|v1> <pit> <fib> <pkt> …`   pkt ::= <typ>,<wirehex>,<int>,<data>[,<replyhex>]
        as `C06 recv`, but the envelope layer (parse_lp_packet_v2, parse_tl_num) is computed by the model.
        The answer continues with ` # ` and the trace of the byte-level pipeline `Ndn.RecvBytes.receiveBytes` (all four
        decoders computed from <wirehex> alone by the codec models of C07, SHA-256 of NdnModel/Sha256.lean; the given
        <int> / <data> outcomes are ignored): per packet `ok:<effects>^<pit after the packet>` | `err:<cls>`, where a
        handler invocation is written `I<prefix>:<token>` and, when the packet carries <replyhex> (the handler replies
        with these bytes at once), `I<prefix>:<token>><bytes written to the face>` (`Ndn.Lp.reply`). -/
namespace Ndn.Drv.C10
open Ndn Ndn.Recv Ndn.Lp Ndn.Drv.C06

def T : Table := Gen.C10.table

def showFacts (f : LpFacts) : String :=
  (match f.nack with | none => "~" | some none => "n" | some (some r) => toString r) ++ ":" ++
  showOptHex f.pitToken ++ ":" ++ showOptHex f.fragment

def parseEv (s : String) : Option Ev :=
  match s.splitOn ":" with
  | ["i", t] => (optHex t).map Ev.interest
  | ["r", i, d] => do pure (Ev.reply (← i.toNat?) (← fromHex d))
  | _ => none

def parsePkt (s : String) : Option (Nat × Bytes × Decoders × Option Bytes) :=
  match s.splitOn "," with
  | t :: w :: i :: d :: rest => do
    let r ← match rest with
      | [] => some none
      | [h] => (fromHex h).map some
      | _ => none
    let i ← outcome i parseIntFacts
    let d ← outcome d parseDataFacts
    pure (← t.toNat?, ← fromHex w, decoders T (fun _ => i) (fun _ => d), r)
  | _ => none

def runPkts (g : Guards) (st : State) : List (Nat × Bytes × Decoders × Option Bytes) → List String
  | [] => ["@" ++ showPit st.pit]
  | (t, w, D, _) :: r =>
    match receive g D st t w with
    | .ok (st', effs) =>
      ("ok:" ++ (if effs.isEmpty then "-" else "+".intercalate (effs.map showEff))) :: runPkts g st' r
    | .error e => ("err:" ++ e.name) :: runPkts g st r

/-- a handler invocation together with what its reply closure writes to the face for the reply `r` -/
def showEffB (reply : Option Bytes) : Effect → String
  | .invoke p t =>
    "I" ++ showName p ++ ":" ++ showOptHex t ++
      (match reply with | some r => ">" ++ toHex (Lp.reply T t r) | none => "")
  | e => showEff e

/-- the byte-level pipeline on the wires alone -/
def runBytes (g : Guards) (st : State) : List (Nat × Bytes × Decoders × Option Bytes) → List String
  | [] => []
  | (t, w, _, rep) :: r =>
    match RecvBytes.receiveBytes g Sha256.sha256 st t w with
    | .ok (st', effs) =>
      ("ok:" ++ (if effs.isEmpty then "-" else "+".intercalate (effs.map (showEffB rep))) ++ "^" ++ showPit st'.pit)
        :: runBytes g st' r
    | .error e => ("err:" ++ e.name) :: runBytes g st r

def handle (args : List String) : String :=
  match args with
  | ["lp", h] =>
    match fromHex h with
    | some w => showExcept showFacts (parseLp T w)
    | none => "bad-op"
  | ["nack", r, h] =>
    match r.toNat?, fromHex h with
    | some r, some i => "ok " ++ toHex (makeNetworkNack T i r)
    | _, _ => "bad-op"
  | ["put", t, d] =>
    match fromHex t, fromHex d with
    | some t, some d => "ok " ++ toHex (putWithPitToken T d t)
    | _, _ => "bad-op"
  | ["replies", evs] =>
    match (evs.splitOn ";").mapM parseEv with
    | some es => "ok " ++ toHexList (runReplies T [] es)
    | none => "bad-op"
  | "recv" :: fe :: pit :: fib :: pkts =>
    match (if fe == "v2" then some Gen.C10.v2 else if fe == "v1" then some Gen.C10.v1 else none),
          parsePit pit, parseFib fib, pkts.mapM parsePkt with
    | some g, some p, some f, some ps =>
      " ".intercalate (runPkts g { pit := p, fib := f } ps ++ "#" :: runBytes g { pit := p, fib := f } ps)
    | _, _, _, _ => "bad-op"
  | _ => "bad-op"

end Ndn.Drv.C10
