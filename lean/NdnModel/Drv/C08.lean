import NdnModel.CodecIO
/-  C08 protocol:
    `C08 enc <schemas> <values>`           → `ok <hex> <announcedLength>` | `err <PyErr>`
    `C08 parse <schemas> <ic 0|1> <hex>`   → `ok <values>` | `err <PyErr>`
    markers are printed as `_` here (offsets are compared in the packet properties). -/
namespace Ndn.Drv.C08
open Ndn Ndn.Codec

mutual
partial def hideMarkers : List Schema → List Value → List Value
  | s :: ss, v :: vs => hideMarker s v :: hideMarkers ss vs
  | _, vs => vs
partial def hideMarker : Schema → Value → Value
  | .marker, _ => .none
  | .model _ fs _, .model vs => .model (hideMarkers fs vs)
  | .repeated e, .list vs => .list (vs.map (hideMarker e))
  | .map _ v, .map es => .map (es.map fun (a, b) => (a, hideMarker v b))
  | _, v => v
end

def handle1 (args : List String) : String :=
  match args with
  | ["enc", ss, vs] =>
    match readSchemas ss, readValues vs with
    | some fs, some vals =>
      match encLenFields fs vals, encFields fs vals with
      | .ok n, .ok b => "ok " ++ toHex b ++ " " ++ toString n
      | .error e, _ => "err " ++ e.name
      | _, .error e => "err " ++ e.name
    | _, _ => "bad-op"
  | ["parse", ss, ic, hx] =>
    match readSchemas ss, fromHex hx with
    | some fs, some w =>
      match parse fs (ic == "1") w with
      | .ok vs => "ok " ++ showValues (hideMarkers fs vs)
      | .error e => "err " ++ e.name
    | _, _ => "bad-op"
  | _ => "bad-op"

/-- several questions on one line are separated by `;;` -/
partial def splitQ : List String → List (List String)
  | [] => [[]]
  | ";;" :: r => [] :: splitQ r
  | a :: r => match splitQ r with
    | q :: qs => (a :: q) :: qs
    | [] => [[a]]

def handle (args : List String) : String :=
  " ;; ".intercalate ((splitQ args).map handle1)

end Ndn.Drv.C08
