import NdnModel.CodecIO
import NdnModel.ClassMerge
/-  C08 protocol:
    `C08 enc <schemas> <values>`           → `ok <hex> <announcedLength>` | `err <PyErr>`
    `C08 parse <schemas> <ic 0|1> <hex>`   → `ok <values>` | `err <PyErr>`
    `C08 merge <bases> <body>`             → `ok -` | `ok <name>=<id>,…` | `err IncludeBaseError`
        the metaclass (`Ndn.Codec.mergeFields`); a field is an opaque decimal identifier here
        bases ::= - | base|base|…     base ::= ! (not a TlvModel) | . (no fields) | <name>=<id>,…
        body  ::= - | <name>=<decl>,…  decl ::= f<id> | i<index into bases; ≥ their number: not a base> | o
    markers are printed as `_` here (offsets are compared in the packet properties). -/
namespace Ndn.Drv.C08
open Ndn Ndn.Codec

mutual
partial def hideMarkers : List Schema → List Value → List Value
  | s :: ss, v :: vs => hideMarker s v :: hideMarkers ss vs
  | _, vs => vs
partial def hideMarker : Schema → Value → Value
  | .marker, _ => .none
  | .model _ fs _, .model vs => .model (hideMarkers fs vs)
  | .repeated e, .list vs => .list (vs.map (hideMarker e))
  | .map _ v, .map es => .map (es.map fun (a, b) => (a, hideMarker v b))
  | _, v => v
end

def pNatS (s : String) : Option Nat := if s.isNat then some s.toNat! else none

def pNamed (s : String) : Option (List Char × Nat) :=
  match s.splitOn "=" with
  | [n, v] => if n.isEmpty then none else (pNatS v).map fun i => (n.toList, i)
  | _ => none

def pBase (s : String) : Option (BaseCls (List Char) Nat) :=
  if s == "!" then some none
  else if s == "." then some (some [])
  else ((s.splitOn ",").mapM pNamed).map some

def pDecl (s : String) : Option (List Char × Decl Nat) :=
  match s.splitOn "=" with
  | [n, v] =>
    if n.isEmpty then none
    else match v.toList with
      | ['o'] => some (n.toList, .other)
      | 'f' :: r => (pNatS (String.ofList r)).map fun i => (n.toList, .field i)
      | 'i' :: r => (pNatS (String.ofList r)).map fun i => (n.toList, .includeBase i)
      | _ => none
  | _ => none

def handle1 (args : List String) : String :=
  match args with
  | ["merge", bs, body] =>
    match (if bs == "-" then some [] else (bs.splitOn "|").mapM pBase),
          (if body == "-" then some [] else (body.splitOn ",").mapM pDecl) with
    | some bases, some body =>
      match mergeFields bases body with
      | .ok [] => "ok -"
      | .ok fs => "ok " ++ ",".intercalate (fs.map fun (n, i) => String.ofList n ++ "=" ++ toString i)
      | .error .includeBaseError => "err IncludeBaseError"
    | _, _ => "bad-op"
  | ["enc", ss, vs] =>
    match readSchemas ss, readValues vs with
    | some fs, some vals =>
      match encLenFields fs vals, encFields fs vals with
      | .ok n, .ok b => "ok " ++ toHex b ++ " " ++ toString n
      | .error e, _ => "err " ++ e.name
      | _, .error e => "err " ++ e.name
    | _, _ => "bad-op"
  | ["parse", ss, ic, hx] =>
    match readSchemas ss, fromHex hx with
    | some fs, some w =>
      match parse fs (ic == "1") w with
      | .ok vs => "ok " ++ showValues (hideMarkers fs vs)
      | .error e => "err " ++ e.name
    | _, _ => "bad-op"
  | _ => "bad-op"

/-- several questions on one line are separated by `;;` -/
partial def splitQ : List String → List (List String)
  | [] => [[]]
  | ";;" :: r => [] :: splitQ r
  | a :: r => match splitQ r with
    | q :: qs => (a :: q) :: qs
    | [] => [[a]]

def handle (args : List String) : String :=
  " ;; ".intercalate ((splitQ args).map handle1)

end Ndn.Drv.C08
