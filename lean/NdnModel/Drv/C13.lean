import NdnModel.Lvs.CProto
/-  Driver of C13: the LVS line protocol (see NdnModel/Lvs/Proto.lean) extended with the compiler model
    (NdnModel/Lvs/CProto.lean).  -/
namespace Ndn.Drv.C13

def handle (args : List String) : String := Ndn.Lvs.CProto.handle args

end Ndn.Drv.C13
