import NdnModel.Lvs.Proto
/-  Driver of C13: the LVS line protocol (see NdnModel/Lvs/Proto.lean).  -/
namespace Ndn.Drv.C13

def handle (args : List String) : String := Ndn.Lvs.Proto.handle args

end Ndn.Drv.C13
