import NdnModel.Lvs.CProto
import NdnModel.Lvs.Load
/-  Driver of C13: the LVS line protocol (see NdnModel/Lvs/Proto.lean) extended with the compiler model
    (NdnModel/Lvs/CProto.lean) and with `Checker.load` on bytes (NdnModel/Lvs/Load.lean):

      loadbytes <wire hex> <env> <names>   →  ok <exception class>
                                            |  ok accepted-nocnt                  (no NamedPatternCnt in the bytes)
                                            |  ok accepted <matches> <checks>     (as `full`)  -/
namespace Ndn.Drv.C13
open Ndn Ndn.Lvs Ndn.Lvs.Proto

def handle (args : List String) : String :=
  match args with
  | ["loadbytes", ws, es, nss] =>
    match fromHex ws, parseEnv es, (nss.splitOn "/").mapM fromHexList with
    | some wire, some env, some names =>
      match loadBytes wire with
      | .error e => "ok " ++ e.name
      | .ok L =>
        if L.cntPresent then
          "ok accepted " ++ "/".intercalate (names.map (matchOne L.model env false)) ++ " " ++
            ",".intercalate (names.flatMap fun p => names.map fun k => checkOne L.model env p k)
        else "ok accepted-nocnt"
    | _, _, _ => "bad-op"
  | _ => Ndn.Lvs.CProto.handle args

end Ndn.Drv.C13
