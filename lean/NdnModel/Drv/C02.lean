import NdnModel.Drv.C01
import NdnModel.Signers
/-  C02 protocol = the C01 packet protocol (see Drv/C01.lean) plus the signers / checkers inside the model:
    `C02 hmac <key hex> <msg hex>`                      → HMAC-SHA256 as hex
    `C02 sha <msg hex>`                                 → SHA-256 as hex
    `C02 sdata <signer> <name comps> <meta value> <content value>`
    `C02 sint  <signer> <name comps> <(six mid values)> <appparam value>`
        signer = `dg` (DigestSha256Signer()) | `dg:<time>:<nonce>` (for_interest) | `hm:<key hex>:<KeyLocator name comps>`
        → `ok W=<wire> C=<covered list> N=<final name list>` | `err <PyErr>`   (make_* with the signer object)
    `C02 chk <data|int> <wire hex> <key hex> <key name comps>`
        → `ok T=<SignatureType|~> DG=<b> HV=<b> HC=<b> UN=<b> PC=<b>` | `err <PyErr>`
          verdicts (0/1) on the parsed packet of sha256_digest_checker, verify_hmac(key, .),
          HmacChecker.from_key(key name, key), union_checker(sha256_digest_checker, that HmacChecker),
          params_sha256_checker
    several questions on one line are separated by `;;`  -/
namespace Ndn.Drv.C02
open Ndn Ndn.Codec Ndn.Packet Ndn.Sign

def H := Sha256.sha256

def readSignerObj (s : String) : Option Signer :=
  match s.splitOn ":" with
  | ["dg"] => some (digestSigner H none)
  | ["dg", t, n] => do
    let t ← t.toNat?
    let n ← n.toNat?
    pure (digestSigner H (some (t, n)))
  | ["hm", k, kl] => do
    let k ← fromHex k
    let kl ← fromHexList kl
    pure (hmacSigner H kl k)
  | _ => none

def showSigned : Except PyErr Made → String
  | .ok m => "ok W=" ++ toHex m.wire ++ " C=" ++ toHexList m.covered ++ " N=" ++ toHexList m.finalName
  | .error e => "err " ++ e.name

def bit (b : Bool) : String := if b then "1" else "0"

def showVerdicts (key : Bytes) (keyName : List Bytes) (si : Value) (p : Ptrs) : String :=
  "ok T=" ++ (match sigTypeOf si with | some t => toString t | none => "~")
    ++ " DG=" ++ bit (digestChecker H si p)
    ++ " HV=" ++ bit (verifyHmac H key p)
    ++ " HC=" ++ bit (hmacChecker H keyName key si p)
    ++ " UN=" ++ bit (unionChecker [digestChecker H, hmacChecker H keyName key] si p)
    ++ " PC=" ++ bit (paramsChecker H si p)

def handle1 (args : List String) : String :=
  match args with
  | ["hmac", k, m] =>
    match fromHex k, fromHex m with
    | some k, some m => toHex (Hmac.hmacSha256 k m)
    | _, _ => "bad-op"
  | ["sha", m] =>
    match fromHex m with
    | some m => toHex (Sha256.sha256 m)
    | none => "bad-op"
  | ["sdata", sg, nm, mi, ct] =>
    match readSignerObj sg, fromHexList nm, C01.readValue mi, C01.readValue ct with
    | some sg, some n, some m, some c => showSigned (makeDataS sg n m c)
    | _, _, _, _ => "bad-op"
  | ["sint", sg, nm, mid, ap] =>
    match readSignerObj sg, fromHexList nm, readValues mid, C01.readValue ap with
    | some sg, some n, some m, some a => showSigned (makeInterestS H sg n m a)
    | _, _, _, _ => "bad-op"
  | ["chk", kind, hx, k, kn] =>
    match fromHex hx, fromHex k, fromHexList kn with
    | some w, some k, some kn =>
      if kind == "data" then
        match parseData w with
        | .ok (vals, p) => showVerdicts k kn (vals[8]?.getD .none) p
        | .error e => "err " ++ e.name
      else if kind == "int" then
        match parseInterest w with
        | .ok (vals, p) => showVerdicts k kn (vals[17]?.getD .none) p
        | .error e => "err " ++ e.name
      else "bad-op"
    | _, _, _ => "bad-op"
  | _ => C01.handle1 args

def handle (args : List String) : String :=
  " ;; ".intercalate ((C01.splitQ args).map handle1)

end Ndn.Drv.C02
