import NdnModel.NfdMgmt
import NdnModel.NfdBytes
import NdnModel.CodecIO
import NdnModel.Sha256
/-  Line protocol for the prefix-registration model (always the *repaired* configuration):

    `C17 sm <v2|v1> <t0> <ticks> <sleeps> <signs> <posts> <ev>;<ev>;…`
       lists: `,`-separated naturals or `.`       events (`.` = none):
       `c:r:<pfx>` `c:u:<pfx>`                      a register / unregister call
       `k:s:<code|~>:<0|1 body>:<0|1 sigOk>`        ControlResponse reply
       `k:g:<0|1 sigOk>` `k:n` `k:t` `k:x`          undecodable Data / Nack / timeout / canceled
       `o:<pfx>|<pfx>…` (`o:` = no routes)          connection established, starting_task runs
       `dn`                                         the connection is lost
       `f:<i>:<reply token without the leading k:>`  answer to the i-th command in flight outside the lock
                                                    (only `v1u`, the unchanged legacy front-end, has any)
    answer: `ok <out> … #<ticks used>,<sleeps used>,<signs used>,<posts used>,<last>`
       `C<id>:<r|u>:<pfx>:<a|m>@<ts>`  `R<id>=T|F|!<Err>`  `K`  `U`
    `<v2|v1>` may also be `v2u` / `v1u`: the unchanged tree (`Cfg.unchanged`), or `v1p`: the legacy front-end before
    C17-5 with the response fixes in — for replaying older trees against their configuration of the model

    composed model (`Ndn.NfdBytes.runW`): from the call to the bytes on the face and from the reply bytes to the result
    `C17 smw <v2|v1> <l|h> <t0> <ticks> <sleeps> <signs> <posts> <prefixes> <nonce32s> <nonce64s> <ev>;<ev>;…`
       prefixes: `|`-separated names, each a `,`-separated component hex list (`.` = the empty name); a call names
       a prefix by its index; nonce lists: the Nonce / SignatureNonce (legacy: nonce component) of the k-th command
       events as for `sm`, but a reply is `d:<wire hex>` (the bytes of a Data packet; any bytes) or `k:n` `k:t` `k:x`
    answer: as for `sm`, every command token followed by `=<wire hex>` (or `=!<Err>`): the command Interest on the face

    `C17 pr <code|~> <textHex|~> <body>`  body: `~` (absent) or `,`-separated `<field>=<val>` (`.` = no field)
       val: `u<nat>` `t<hex>` `n<hex>|<hex>…` (`n` = empty name)
    answer: `ok <key>=<val|~>,…`  or  `err <Class>`

    byte level (model `Ndn.NfdBytes`; values in the text format of `Ndn.Codec.readValues`, SHA-256 = `Ndn.Sha256`):
    `C17 cn <l|h> <moduleHex> <commandHex> <(16 ControlParametersValue values)>`      make_command_v2
       answer: `ok <component hex list>` | `err <Class>`
    `C17 ci <name hex list> <(6 Interest parameter values)> <SignatureTime> <SignatureNonce>`
       answer: `ok W=<wire> N=<final name> C=<signer input> | ok SC=<list> SV=<hex> DC=<list> DV=<hex> PC=<0|1> VS=<0|1>`
    `C17 lc <l|h> <moduleHex> <commandHex> <(16 values)> <timestamp> <nonce>`        make_command (legacy)
       answer: `ok <component hex list>` | `err <Class>`
    `C17 pre <code|~> <textHex|~> <(16 body values)|~>`                               the reply Content
       answer: `ok <wire hex>` | `err <Class>`
    `C17 prb <wire hex>`                                                               parse_response from bytes
       answer: `ok <key>=<val|~>,…`  or  `err <Class>`
    several requests on one line are separated by ` ;; `, and so are their answers -/
namespace Ndn.Drv.C17
open Ndn Ndn.NfdMgmt Ndn.NfdBytes Ndn.Codec Ndn.Packet

def parseBit (s : String) : Option Bool :=
  if s == "0" then some false else if s == "1" then some true else none

def parseEv (s : String) : Option Ev :=
  match s.splitOn ":" with
  | ["c", "r", p] => p.toNat?.map (Ev.call .register)
  | ["c", "u", p] => p.toNat?.map (Ev.call .unregister)
  | ["k", "s", c, b, g] => do
    let c ← if c == "~" then some none else c.toNat?.map some
    let b ← parseBit b
    let g ← parseBit g
    pure (.reply (.response c b g))
  | ["k", "g", g] => (parseBit g).map fun g => .reply (.undecodable g)
  | ["k", "n"] => some (.reply .nack)
  | ["k", "t"] => some (.reply .timeout)
  | ["k", "x"] => some (.reply .canceled)
  | ["dn"] => some .down
  | ["o", ps] => if ps == "" then some (.connect []) else ((ps.splitOn "|").mapM String.toNat?).map .connect
  | _ => none

def parseEvU (s : String) : Option Ev :=
  match s.splitOn ":" with
  | "f" :: i :: rest =>
    match i.toNat?, parseEv (":".intercalate ("k" :: rest)) with
    | some i, some (.reply k) => some (.replyU i k)
    | _, _ => none
  | _ => parseEv s

def parseWEv (s : String) : Option WEv :=
  match s.splitOn ":" with
  | ["c", "r", p] => p.toNat?.map (WEv.call .register)
  | ["c", "u", p] => p.toNat?.map (WEv.call .unregister)
  | ["d", hx] => (fromHex hx).map WEv.data
  | ["k", "n"] => some .nack
  | ["k", "t"] => some .timeout
  | ["k", "x"] => some .canceled
  | ["dn"] => some .down
  | ["o", ps] => if ps == "" then some (.connect []) else ((ps.splitOn "|").mapM String.toNat?).map .connect
  | _ => none

def parseCfg (fe : String) : Option Cfg :=
  if fe == "v2" then some (Cfg.repaired .v2) else if fe == "v1" then some (Cfg.repaired .legacy)
  else if fe == "v2u" then some (Cfg.unchanged .v2) else if fe == "v1u" then some (Cfg.unchanged .legacy)
  -- the legacy front-end before C17-5 (unregister outside the lock, no timestamp guard), response fixes in
  else if fe == "v1p" then some ⟨.legacy, true, true, true, false, false, false⟩
  else none

def showRes : Except PyErr Bool → String
  | .ok true => "T" | .ok false => "F" | .error e => "!" ++ e.name

def showOut : Out → String
  | .cmd r ts => "C" ++ toString r.id ++ ":" ++ (if r.verb == .register then "r" else "u") ++ ":" ++
      toString r.pfx ++ ":" ++ (if r.auto then "a" else "m") ++ "@" ++ toString ts
  | .ret r res => "R" ++ toString r.id ++ "=" ++ showRes res
  | .connected => "K"
  | .unmodelled => "U"

def envOf (ticks sleeps signs posts : List Nat) : Env :=
  { tick := fun i => ticks.getD i 0, sleepAdv := fun i => sleeps.getD i 0,
    signTick := fun i => signs.getD i 0, postTick := fun i => posts.getD i 0 }

def parseFVal (s : String) : Option FVal :=
  let body := (s.drop 1).toString
  if s.startsWith "u" then body.toNat?.map .uint
  else if s.startsWith "t" then (fromHex body).map .text
  else if s.startsWith "n" then
    if body == "" then some (.name []) else ((body.splitOn "|").mapM fromHex).map .name
  else none

def parseField (s : String) : Option (String × FVal) :=
  match s.splitOn "=" with
  | [k, v] => (parseFVal v).map fun v => (k, v)
  | _ => none

def showDVal : DVal → String
  | .none => "~"
  | .uint n => "u" ++ toString n
  | .text b => "t" ++ toHex b
  | .name c => "n" ++ "|".intercalate (c.map toHex)

def parseLoc (s : String) : Option Bool :=
  if s == "l" then some true else if s == "h" then some false else none

/-- the trace with the wire of every command behind its token -/
def showOutsW : List Out → List (Except PyErr Bytes) → List String
  | [], _ => []
  | .cmd r ts :: t, w :: ws =>
    (showOut (.cmd r ts) ++ "=" ++ (match w with | .ok b => toHex b | .error e => "!" ++ e.name)) :: showOutsW t ws
  | o :: t, ws => showOut o :: showOutsW t ws

def showNameRes : Except PyErr (List Bytes) → String
  | .ok n => "ok " ++ toHexList n
  | .error e => "err " ++ e.name

def handle1 (args : List String) : String :=
  match args with
  | ["sm", fe, t0, ticks, sleeps, signs, posts, evs] =>
    match parseCfg fe, t0.toNat?, natList ticks, natList sleeps, natList signs, natList posts,
          (if evs == "." then some [] else (evs.splitOn ";").mapM parseEvU) with
    | some cfg, some t0, some ti, some sl, some sg, some po, some es =>
      let r := run cfg (envOf ti sl sg po) (init t0) es
      let c := r.1.clock
      "ok " ++ " ".intercalate (r.2.map showOut) ++ " #" ++
        ",".intercalate ([c.ti, c.si, c.gi, c.pi, r.1.last].map toString)
    | _, _, _, _, _, _, _ => "bad-op"
  | ["smw", fe, loc, t0, ticks, sleeps, signs, posts, pfxs, n32s, n64s, evs] =>
    let fe? : Option FrontEnd := if fe == "v2" then some .v2 else if fe == "v1" then some .legacy else none
    match fe?, parseLoc loc, t0.toNat?, natList ticks, natList sleeps, natList signs, natList posts with
    | some fe, some l, some t0, some ti, some sl, some sg, some po =>
      match (pfxs.splitOn "|").mapM fromHexList, natList n32s, natList n64s,
            (if evs == "." then some [] else (evs.splitOn ";").mapM parseWEv) with
      | some ps, some n32, some n64, some es =>
        let w : Wire := { H := Sha256.sha256, isLocal := l, pfxName := fun i => ps.getD i [],
                          nonce32 := fun k => n32.getD k 0, nonce64 := fun k => n64.getD k 0 }
        let r := runW (Cfg.repaired fe) (envOf ti sl sg po) w (init t0) es
        let c := r.1.clock
        "ok " ++ " ".intercalate (showOutsW r.2.1 r.2.2) ++ " #" ++
          ",".intercalate ([c.ti, c.si, c.gi, c.pi, r.1.last].map toString)
      | _, _, _, _ => "bad-op"
    | _, _, _, _, _, _, _ => "bad-op"
  | ["pr", code, text, body] =>
    let code? : Option (Option Nat) := if code == "~" then some none else code.toNat?.map some
    let text? : Option (Option Bytes) := if text == "~" then some none else (fromHex text).map some
    let body? : Option (Option (List (String × FVal))) :=
      if body == "~" then some none
      else if body == "." then some (some [])
      else ((body.splitOn ",").mapM parseField).map some
    match code?, text?, body? with
    | some c, some t, some b =>
      match parseResponseRec true ⟨c, t, b⟩ with
      | .ok d => "ok " ++ ",".intercalate (d.map fun kv => kv.1 ++ "=" ++ showDVal kv.2)
      | .error e => "err " ++ e.name
    | _, _, _ => "bad-op"
  | ["cn", loc, m, c, cpv] =>
    match parseLoc loc, fromHex m, fromHex c, readValues cpv with
    | some l, some m, some c, some vs => showNameRes (commandName l m c vs)
    | _, _, _, _ => "bad-op"
  | ["lc", loc, m, c, cpv, ts, nonce] =>
    match parseLoc loc, fromHex m, fromHex c, readValues cpv, ts.toNat?, nonce.toNat? with
    | some l, some m, some c, some vs, some t, some n => showNameRes (legacyCommandName Sha256.sha256 l m c vs t n)
    | _, _, _, _, _, _ => "bad-op"
  | ["ci", nm, mid, time, nonce] =>
    match fromHexList nm, readValues mid, time.toNat?, nonce.toNat? with
    | some n, some mid, some t, some k =>
      match commandInterestV2 Sha256.sha256 n mid t k with
      | .error e => "err " ++ e.name
      | .ok m =>
        "ok W=" ++ toHex m.wire ++ " N=" ++ toHexList m.finalName ++ " C=" ++ toHex (concatB m.covered) ++ " | " ++
        (match parseInterest m.wire with
         | .error e => "err " ++ e.name
         | .ok (_, p) =>
           "ok SC=" ++ toHexList p.sigCovered ++ " SV=" ++ (match p.sigValue with | some b => toHex b | none => "~") ++
           " DC=" ++ toHexList p.digestCovered ++ " DV=" ++ (match p.digestValue with | some b => toHex b | none => "~") ++
           " PC=" ++ (if paramsCheck Sha256.sha256 p then "1" else "0") ++
           " VS=" ++ (if verifyPtrs (digestScheme Sha256.sha256) p then "1" else "0"))
    | _, _, _, _ => "bad-op"
  | ["pre", code, text, body] =>
    let code? : Option (Option Nat) := if code == "~" then some none else code.toNat?.map some
    let text? : Option (Option Bytes) := if text == "~" then some none else (fromHex text).map some
    let body? : Option (Option (List Value)) := if body == "~" then some none else (readValues body).map some
    match code?, text?, body? with
    | some c, some t, some b =>
      match encodeResponse c t b with
      | .ok w => "ok " ++ toHex w
      | .error e => "err " ++ e.name
    | _, _, _ => "bad-op"
  | ["prb", hx] =>
    match fromHex hx with
    | some w =>
      match parseResponse true w with
      | .ok d => "ok " ++ ",".intercalate (d.map fun kv => kv.1 ++ "=" ++ showDVal kv.2)
      | .error e => "err " ++ e.name
    | none => "bad-op"
  | _ => "bad-op"

/-- several questions on one line are separated by `;;` -/
def splitQ : List String → List (List String)
  | [] => [[]]
  | a :: r =>
    if a == ";;" then [] :: splitQ r
    else match splitQ r with
      | q :: qs => (a :: q) :: qs
      | [] => [[a]]

def handle (args : List String) : String :=
  " ;; ".intercalate ((splitQ args).map handle1)

end Ndn.Drv.C17
