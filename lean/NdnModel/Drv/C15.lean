import NdnModel.Keychain
import NdnModel.Sha256
/-  Line protocol for the keychain model:
    `C15 <cfg> <names> <op>;<op>;…`   (`.` = empty history), each op optionally suffixed `!k` (fault at its k-th
    fault point)
      cfg   ::= g | u          (TpmFile.generate_key as repaired / the code before the repair)
      names ::= - | <key>=<hex of the encoded key name>,…     (the NDN names the harness mapped the key names to;
                the file name of a key is SHA-256 of these bytes, of a key that is not listed a number above 2^256)
      ni:<i> | ti:<i> | nk:<i>:<e|x>:<spec> | ic:<key>:<cert> | sdi:<i> | sdk:<i>:<key> | sdc:<key>:<cert>
      di:<i> | dk:<key> | dc:<cert> | dcv:<key>:<cert> | gs:<sel>:<loc> | ro
      spec ::= r | h | b | x<n>      (key_id_type random / sha256 / unsupported, explicit key_id)
      key ::= <idn>.<kid>   kid ::= <p> | x<n> | h<p>   (random id of pair p / explicit id / sha256 of pair p's public key)
      cert ::= <key>.<iss>    sel ::= d | i<i> | k<key> | c<cert>    loc ::= ~ | <n>
    answer: one token per op  `<res>|<dump>`
      res  ::= ok | ok=<pair the signer signs with>,<loc> | E:<ExceptionClass>         loc ::= c<cert> | l<n>
      dump ::= D<0|1>#<len>{<id>;…}T{<file>=<pair>,…}      file ::= first 12 hex digits of the file name
      id   ::= <n>[*]#<len>(<keyv>,…)      keyv ::= <key>@<pair of the key bits>[*]#<len>[<cert>[*],…]
    everything sorted (ids by name; keys by kind-of-id,number,idn; certs likewise then iss; files by pair). -/
namespace Ndn.Drv.C15
open Ndn Ndn.Keychain

def isort {α} (le : α → α → Bool) : List α → List α
  | [] => []
  | a :: r => ins a (isort le r)
where ins (a : α) : List α → List α
  | [] => [a]
  | b :: r => if le a b then a :: b :: r else b :: ins a r

def lexLe : List Nat → List Nat → Bool
  | [], _ => true
  | _ :: _, [] => false
  | a :: r, b :: q => a < b || (a == b && lexLe r q)

def showKid : KeyId → String
  | .rnd p => toString p
  | .lit x => "x" ++ toString x
  | .hash p => "h" ++ toString p
def kidOrd : KeyId → List Nat
  | .rnd p => [0, p]
  | .lit x => [1, x]
  | .hash p => [2, p]
def showKey (k : KeyName) : String := toString k.idn ++ "." ++ showKid k.kid
def showCert (c : CertName) : String := showKey c.key ++ "." ++ toString c.iss
def star (b : Bool) : String := if b then "*" else ""
def keyOrd (k : KeyName) : List Nat := kidOrd k.kid ++ [k.idn]
def certOrd (c : CertName) : List Nat := keyOrd c.key ++ [c.iss]

def showKeyView (d : Db) (kr : Row KeyName) : String :=
  let cs := isort (fun a b => lexLe (certOrd a.name) (certOrd b.name)) (d.certs.rows.filter fun r => r.owner == kr.rid)
  showKey kr.name ++ "@" ++ toString kr.data ++ star kr.dflt ++ "#" ++ toString (certLen d kr.rid) ++ "["
    ++ ",".intercalate (cs.map fun c => showCert c.name ++ star c.dflt) ++ "]"

def showIdView (d : Db) (ir : Row Nat) : String :=
  let ks := isort (fun a b => lexLe (keyOrd a.name) (keyOrd b.name)) (d.keys.rows.filter fun r => r.owner == ir.rid)
  toString ir.name ++ star ir.dflt ++ "#" ++ toString (keyLen d ir.rid) ++ "("
    ++ ",".intercalate (ks.map (showKeyView d)) ++ ")"

def hexNat : Nat → Nat → List Char
  | 0, _ => []
  | d + 1, n => hexNat d (n / 16) ++ [hexDigit (n % 16)]

/-- the first 12 hex digits of a SHA-256 file name; `?<n>` for the stand-in name of an unlisted key -/
def showFile (f : FileName) : String :=
  if f < 2 ^ 256 then String.ofList ((hexNat 64 f).take 12) else "?" ++ toString (f - 2 ^ 256)

def showDump (s : Sys) : String :=
  let d := s.cur
  let is := isort (fun a b => a.name ≤ b.name) d.ids.rows
  let tp := isort (fun a b => lexLe [a.2, a.1] [b.2, b.1]) s.tpm
  "D" ++ (if (defaultId? d).isSome then "1" else "0") ++ "#" ++ toString (idLen d) ++ "{"
    ++ ";".intercalate (is.map (showIdView d)) ++ "}T{"
    ++ ",".intercalate (tp.map fun e => showFile e.1 ++ "=" ++ toString e.2) ++ "}"

def showLoc : Loc → String
  | .cert c => "c" ++ showCert c
  | .lit n => "l" ++ toString n

def showRes : Except KErr (Option Signer) → String
  | .ok none => "ok"
  | .ok (some sg) => "ok=" ++ toString sg.priv ++ "," ++ showLoc sg.loc
  | .error e => "E:" ++ e.name

def parseKid (s : String) : Option KeyId :=
  if s.startsWith "x" then (s.drop 1).toString.toNat?.map .lit
  else if s.startsWith "h" then (s.drop 1).toString.toNat?.map .hash
  else s.toNat?.map .rnd

def parseKey (s : String) : Option KeyName :=
  match s.splitOn "." with
  | [a, b] => do pure ⟨← a.toNat?, ← parseKid b⟩
  | _ => none

def parseCert (s : String) : Option CertName :=
  match s.splitOn "." with
  | [a, b, c] => do pure ⟨⟨← a.toNat?, ← parseKid b⟩, ← c.toNat?⟩
  | _ => none

def parseSpec (s : String) : Option KeyIdSpec :=
  if s == "r" then some .random
  else if s == "h" then some .sha256
  else if s == "b" then some .badType
  else if s.startsWith "x" then (s.drop 1).toString.toNat?.map .explicit
  else none

def parseSel (s : String) : Option Sel :=
  if s == "d" then some .dflt
  else if s.startsWith "i" then (s.drop 1).toString.toNat?.map .ident
  else if s.startsWith "k" then (parseKey (s.drop 1).toString).map .key
  else if s.startsWith "c" then (parseCert (s.drop 1).toString).map .cert
  else none

def parseLoc (s : String) : Option (Option Nat) :=
  if s == "~" then some none else s.toNat?.map some

def parseOp (s : String) : Option Op :=
  match s.splitOn ":" with
  | ["ni", i] => i.toNat?.map .newIdentity
  | ["ti", i] => i.toNat?.map .touchIdentity
  | ["nk", i, t, sp] => do
    let n ← i.toNat?
    let spec ← parseSpec sp
    if t == "e" then some (.newKey n false spec) else if t == "x" then some (.newKey n true spec) else none
  | ["ic", k, c] => do pure (.importCert (← parseKey k) (← parseCert c))
  | ["sdi", i] => i.toNat?.map .setDefaultIdentity
  | ["sdk", i, k] => do pure (.setDefaultKey (← i.toNat?) (← parseKey k))
  | ["sdc", k, c] => do pure (.setDefaultCert (← parseKey k) (← parseCert c))
  | ["di", i] => i.toNat?.map .delIdentity
  | ["dk", k] => (parseKey k).map .delKey
  | ["dc", c] => (parseCert c).map .delCert
  | ["dcv", k, c] => do pure (.delCertViaKey (← parseKey k) (← parseCert c))
  | ["gs", sel, loc] => do pure (.getSigner (← parseSel sel) (← parseLoc loc))
  | ["ro"] => some .reopen
  | _ => none

def parseOpF (s : String) : Option (Op × Option Nat) :=
  match s.splitOn "!" with
  | [o] => (parseOp o).map fun op => (op, none)
  | [o, k] => do pure (← parseOp o, some (← k.toNat?))
  | _ => none

def runShow (s : Sys) : List (Op × Option Nat) → List String
  | [] => []
  | o :: r =>
    let (res, s') := step s o
    (showRes res ++ "|" ++ showDump s') :: runShow s' r

def natOfBytes (bs : List UInt8) : Nat := bs.foldl (fun a b => a * 256 + b.toNat) 0

def parseNames (s : String) : Option (List (KeyName × Bytes)) :=
  if s == "-" then some [] else
  (s.splitOn ",").mapM fun e =>
    match e.splitOn "=" with
    | [k, h] => do pure (← parseKey k, ← fromHex h)
    | _ => none

/-- `TpmFile._to_file_name` over the names the harness uses; a stand-in above 2^256 (injective for the sizes in use)
    for a key the harness has no NDN name for -/
def fileNameOf (names : List (KeyName × Bytes)) (k : KeyName) : FileName :=
  match names.find? fun e => e.1 = k with
  | some e => natOfBytes (Sha256.sha256 e.2)
  | none =>
    match kidOrd k.kid with
    | [c, n] => 2 ^ 256 + (k.idn * 4 + c) * 1000000000 + n
    | _ => 2 ^ 256

def handle (args : List String) : String :=
  match args with
  | [cfg, names, ops] =>
    match parseNames names, (if ops == "." then some [] else (ops.splitOn ";").mapM parseOpF) with
    | some nm, some os =>
      if cfg == "g" then "ok " ++ " ".intercalate (runShow (Sys.init (fileNameOf nm)) os)
      else if cfg == "u" then "ok " ++ " ".intercalate (runShow (Sys.initUnchanged (fileNameOf nm)) os)
      else "bad-op"
    | _, _ => "bad-op"
  | _ => "bad-op"

end Ndn.Drv.C15
