import NdnModel.Keychain
/-  Line protocol for the keychain model:
    `C15 <op>;<op>;…`   (`.` = empty history), each op optionally suffixed `!k` (fault at its k-th fault point)
      ni:<i> | ti:<i> | nk:<i>:<e|x> | ic:<key>:<cert> | sdi:<i> | sdk:<i>:<key> | sdc:<key>:<cert>
      di:<i> | dk:<key> | dc:<cert> | dcv:<key>:<cert> | gs:<sel>:<loc> | ro
      key ::= <idn>.<kid>     cert ::= <idn>.<kid>.<iss>    sel ::= d | i<i> | k<key> | c<cert>    loc ::= ~ | <n>
    answer: one token per op  `<res>|<dump>`
      res  ::= ok | ok=<key>,<loc> | E:<ExceptionClass>         loc ::= c<cert> | l<n>
      dump ::= D<0|1>#<len>{<id>;…}T{<key>,…}
      id   ::= <n>[*]#<len>(<keyv>,…)      keyv ::= <key>[*]#<len>[<cert>[*],…]
    everything sorted (ids by name; keys by kid,idn; certs by kid,idn,iss). -/
namespace Ndn.Drv.C15
open Ndn Ndn.Keychain

def isort {α} (le : α → α → Bool) : List α → List α
  | [] => []
  | a :: r => ins a (isort le r)
where ins (a : α) : List α → List α
  | [] => [a]
  | b :: r => if le a b then a :: b :: r else b :: ins a r

def lexLe : List Nat → List Nat → Bool
  | [], _ => true
  | _ :: _, [] => false
  | a :: r, b :: q => a < b || (a == b && lexLe r q)

def showKey (k : KeyName) : String := toString k.idn ++ "." ++ toString k.kid
def showCert (c : CertName) : String := showKey c.key ++ "." ++ toString c.iss
def star (b : Bool) : String := if b then "*" else ""
def keyOrd (k : KeyName) : List Nat := [k.kid, k.idn]
def certOrd (c : CertName) : List Nat := [c.key.kid, c.key.idn, c.iss]

def showKeyView (d : Db) (kr : Row KeyName) : String :=
  let cs := isort (fun a b => lexLe (certOrd a.name) (certOrd b.name)) (d.certs.rows.filter fun r => r.owner == kr.rid)
  showKey kr.name ++ star kr.dflt ++ "#" ++ toString (certLen d kr.rid) ++ "["
    ++ ",".intercalate (cs.map fun c => showCert c.name ++ star c.dflt) ++ "]"

def showIdView (d : Db) (ir : Row Nat) : String :=
  let ks := isort (fun a b => lexLe (keyOrd a.name) (keyOrd b.name)) (d.keys.rows.filter fun r => r.owner == ir.rid)
  toString ir.name ++ star ir.dflt ++ "#" ++ toString (keyLen d ir.rid) ++ "("
    ++ ",".intercalate (ks.map (showKeyView d)) ++ ")"

def showDump (s : Sys) : String :=
  let d := s.cur
  let is := isort (fun a b => a.name ≤ b.name) d.ids.rows
  let tp := isort (fun a b => lexLe (keyOrd a) (keyOrd b)) s.tpm
  "D" ++ (if (defaultId? d).isSome then "1" else "0") ++ "#" ++ toString (idLen d) ++ "{"
    ++ ";".intercalate (is.map (showIdView d)) ++ "}T{" ++ ",".intercalate (tp.map showKey) ++ "}"

def showLoc : Loc → String
  | .cert c => "c" ++ showCert c
  | .lit n => "l" ++ toString n

def showRes : Except KErr (Option Signer) → String
  | .ok none => "ok"
  | .ok (some sg) => "ok=" ++ showKey sg.key ++ "," ++ showLoc sg.loc
  | .error e => "E:" ++ e.name

def parseKey (s : String) : Option KeyName :=
  match s.splitOn "." with
  | [a, b] => do pure ⟨← a.toNat?, ← b.toNat?⟩
  | _ => none

def parseCert (s : String) : Option CertName :=
  match s.splitOn "." with
  | [a, b, c] => do pure ⟨⟨← a.toNat?, ← b.toNat?⟩, ← c.toNat?⟩
  | _ => none

def parseSel (s : String) : Option Sel :=
  if s == "d" then some .dflt
  else if s.startsWith "i" then (s.drop 1).toString.toNat?.map .ident
  else if s.startsWith "k" then (parseKey (s.drop 1).toString).map .key
  else if s.startsWith "c" then (parseCert (s.drop 1).toString).map .cert
  else none

def parseLoc (s : String) : Option (Option Nat) :=
  if s == "~" then some none else s.toNat?.map some

def parseOp (s : String) : Option Op :=
  match s.splitOn ":" with
  | ["ni", i] => i.toNat?.map .newIdentity
  | ["ti", i] => i.toNat?.map .touchIdentity
  | ["nk", i, t] => do
    let n ← i.toNat?
    if t == "e" then some (.newKey n false) else if t == "x" then some (.newKey n true) else none
  | ["ic", k, c] => do pure (.importCert (← parseKey k) (← parseCert c))
  | ["sdi", i] => i.toNat?.map .setDefaultIdentity
  | ["sdk", i, k] => do pure (.setDefaultKey (← i.toNat?) (← parseKey k))
  | ["sdc", k, c] => do pure (.setDefaultCert (← parseKey k) (← parseCert c))
  | ["di", i] => i.toNat?.map .delIdentity
  | ["dk", k] => (parseKey k).map .delKey
  | ["dc", c] => (parseCert c).map .delCert
  | ["dcv", k, c] => do pure (.delCertViaKey (← parseKey k) (← parseCert c))
  | ["gs", sel, loc] => do pure (.getSigner (← parseSel sel) (← parseLoc loc))
  | ["ro"] => some .reopen
  | _ => none

def parseOpF (s : String) : Option (Op × Option Nat) :=
  match s.splitOn "!" with
  | [o] => (parseOp o).map fun op => (op, none)
  | [o, k] => do pure (← parseOp o, some (← k.toNat?))
  | _ => none

def runShow (s : Sys) : List (Op × Option Nat) → List String
  | [] => []
  | o :: r =>
    let (res, s') := step s o
    (showRes res ++ "|" ++ showDump s') :: runShow s' r

def handle (args : List String) : String :=
  match args with
  | [ops] =>
    match (if ops == "." then some [] else (ops.splitOn ";").mapM parseOpF) with
    | some os => "ok " ++ " ".intercalate (runShow Sys.init os)
    | none => "bad-op"
  | _ => "bad-op"

end Ndn.Drv.C15
