import NdnModel.Cascade
/-  Line protocol for the cascade / trust-schema validator model:
    `C14 <fuel> <objs> <world> <insts> <steps>`
      objs  ::= obj;obj;…          obj  ::= <name>:<kl|~>:<h|r|e|d|o>:<signer key id|~>:<content|~>
                                   content ::= <e|r|d|b><key id>      (EC, RSA, Ed25519, not-a-key)
      world ::= . | <name>=D<obj index>,<name>=N,<name>=T,…
      insts ::= . | inst;inst;…    inst ::= <anchor obj index>/<userfns 0|1>/<roots>/<matched>/<allowed>
                                   roots, matched ::= . | rule,rule,…     allowed ::= . | <pkt name>-<key name>,…
      steps ::= . | <inst>:<obj index>,…
    The ground truth "who signed" instantiates `crypto`: the library verifies o under k iff o was
    signed with the private key of k.
    answer: `ok <inst results> <step results>`; inst result ::= ok | err:<class>;
      step result ::= <A|R|F|E:<class>|X>@<fetched names joined by .>   (X: instance was not built) -/
namespace Ndn.Drv.C14
open Ndn Ndn.Cascade

def splitList (s : String) (sep : String) : List String :=
  if s == "." then [] else s.splitOn sep

def parseOptNat (s : String) : Option (Option Nat) :=
  if s == "~" then some none else s.toNat?.map some

def parseSigType (s : String) : Option SigType :=
  if s == "h" then some .hmac else if s == "r" then some .rsa else if s == "e" then some .ecdsa
  else if s == "d" then some .ed25519 else if s == "o" then some .other else none

def parseKey (s : String) : Option (Option Key) :=
  if s == "~" then some none else
  match s.toList with
  | c :: rest =>
    match (String.ofList rest).toNat? with
    | none => none
    | some n =>
      if c == 'e' then some (some ⟨.ec, n⟩) else if c == 'r' then some (some ⟨.rsa, n⟩)
      else if c == 'd' then some (some ⟨.ed, n⟩) else if c == 'b' then some (some ⟨.bad, n⟩) else none
  | [] => none

def parseObj (s : String) : Option Obj :=
  match s.splitOn ":" with
  | [n, kl, t, sg, c] => do
    let n ← n.toNat?
    let kl ← parseOptNat kl
    let t ← parseSigType t
    let sg ← parseOptNat sg
    let c ← parseKey c
    pure ⟨n, kl, t, sg, c⟩
  | _ => none

def parseWorldEntry (objs : List Obj) (s : String) : Option (Name × Outcome) :=
  match s.splitOn "=" with
  | [n, o] => do
    let n ← n.toNat?
    if o == "N" then pure (n, .nack)
    else if o == "T" then pure (n, .timeout)
    else if o.startsWith "D" then do
      let i ← (o.drop 1).toString.toNat?
      let c ← objs[i]?
      pure (n, .data c)
    else none
  | _ => none

def lookupWorld : List (Name × Outcome) → Name → Option Outcome
  | [], _ => none
  | (m, o) :: r, n => if m = n then some o else lookupWorld r n

def parsePair (s : String) : Option (Nat × Nat) :=
  match s.splitOn "-" with
  | [a, b] => do pure (← a.toNat?, ← b.toNat?)
  | _ => none

structure InstSpec where
  setup   : Setup
  allowed : List (Nat × Nat)

def parseInst (objs : List Obj) (s : String) : Option InstSpec :=
  match s.splitOn "/" with
  | [a, u, roots, matched, allowed] => do
    let a ← a.toNat?
    let anchor ← objs[a]?
    let key ← anchor.content
    let u ← if u == "1" then some true else if u == "0" then some false else none
    let al ← (splitList allowed ",").mapM parsePair
    pure ⟨⟨u, splitList roots ",", splitList matched ",", anchor, key⟩, al⟩
  | _ => none

def parseStep (s : String) : Option (Nat × Nat) :=
  match s.splitOn ":" with
  | [a, b] => do pure (← a.toNat?, ← b.toNat?)
  | _ => none

def groundCrypto (k : Key) (o : Obj) : Bool := o.sig == some k.id

def showVerdict : Option Verdict → String
  | none => "F"
  | some .accept => "A"
  | some .reject => "R"
  | some (.raise e) => "E:" ++ e.name

def showLog (l : List Name) : String := ".".intercalate (l.map toString)

/-- instances that could be built, with their environment -/
def buildInst (world : Name → Option Outcome) (i : InstSpec) : Except PyErr Env :=
  match construct groundCrypto i.setup with
  | .ok (n, k) => .ok ⟨fun a b => i.allowed.contains (a, b), groundCrypto, world, n, k⟩
  | .error e => .error e

def dummyEnv : Env := ⟨fun _ _ => false, groundCrypto, fun _ => none, 0, ⟨.bad, 0⟩⟩

def runSteps (insts : List (Except PyErr Env)) (objs : List Obj) (fuel : Nat) :
    (Nat → Cache) → List (Nat × Nat) → Option (List String)
  | _, [] => some []
  | cs, (i, oi) :: r =>
    match insts[i]?, objs[oi]? with
    | some (.ok E), some o =>
      let x := validate E fuel (cs i) o
      (runSteps insts objs fuel (setCache cs i x.cache) r).map
        ((showVerdict x.verdict ++ "@" ++ showLog x.log) :: ·)
    | some (.error _), some _ => (runSteps insts objs fuel cs r).map ("X@" :: ·)
    | _, _ => none

def handle (args : List String) : String :=
  match args with
  | [fuel, objs, world, insts, steps] =>
    match fuel.toNat?, (splitList objs ";").mapM parseObj with
    | some fuel, some objs =>
      match (splitList world ",").mapM (parseWorldEntry objs), (splitList insts ";").mapM (parseInst objs),
            (splitList steps ",").mapM parseStep with
      | some w, some is, some ss =>
        let built := is.map (buildInst (lookupWorld w))
        let ir := built.map fun b => match b with
          | .ok _ => "ok"
          | .error e => "err:" ++ e.name
        match runSteps built objs fuel (fun _ => []) ss with
        | some sr => "ok " ++ (if ir.isEmpty then "." else ",".intercalate ir) ++ " " ++
                     (if sr.isEmpty then "." else ",".intercalate sr)
        | none => "bad-op"
      | _, _, _ => "bad-op"
    | _, _ => "bad-op"
  | _ => "bad-op"

end Ndn.Drv.C14
