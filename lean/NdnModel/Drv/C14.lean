import NdnModel.Cascade
import NdnModel.CascadeLvs
import NdnModel.Lvs.Proto
/-  Line protocol for the cascade / trust-schema validator model.

    The composed model (cascade validator over the Light VerSec checker), a whole PKI per line:
    `C14 pki <fuel> <names> <models> <objs> <world> <insts> <steps>`
      names  ::= <name>/<name>/…      (tokens of NdnModel/Lvs/Proto.lean: `,`-separated hex components, `.` = empty name)
      models ::= . | <model>@<model>@…   (compiled LVS models, tokens of NdnModel/Lvs/Proto.lean)
      objs   ::= obj;obj;…            obj  ::= <name idx>:<key locator name idx|~>:<h|r|e|d|o>:<signer key id|~>:<content|~>
                                      content ::= <e|r|d|b><key id>      (EC, RSA, Ed25519, not-a-key)
      world  ::= . | <name idx>=D<obj index>,<name idx>=N,<name idx>=T,…     (what the network returns for an Interest of that name)
      insts  ::= . | inst;inst;…      inst ::= <anchor obj index>/<model idx>/<env>[/<store>]      env ::= . | $eq,$eq_type,…
                                      store ::= E (an EmptyKeyStorage) | M<n> (the MemoryKeyStorage object number n; the same n for every
                                      instance that was handed that object); absent: M<index of the instance> (an object of its own)
      steps  ::= . | step,…           step ::= <inst>:<obj index>                     (the instance validates the object)
                                             | W<name idx>=D<obj index> | W<name idx>=N | W<name idx>=T | W<name idx>=A
                                               (from now on the network answers an Interest of that name with that Data / a Nack /
                                                not at all [T: the world says timeout, A: nothing known under the name])
    The steps are run by `Ndn.Cascade.stepD` / `validateD` (the model with `world` events and explicit storage objects).
    The ground truth "who signed" instantiates `crypto`: the library verifies o under k iff o was
    signed with the private key of k.  NOTHING the real checker answered is an input: every link's `allowed` is
    `Ndn.Lvs.check` on the model, the construction is `constructLvs` (`validate_user_fns`, `root_of_trust`, `match`).
    answer: `ok <inst results> <step results> <inst infos>`; inst result ::= ok | err:<class>;
      step result ::= <A|R|F|E:<class>|X>@<Interests joined by .>   (X: instance was not built), one per validation step
      Interest ::= <name idx>^<CanBePrefix 0|1>^<MustBeFresh 0|1>^<lifetime ms>
      inst info ::= <validate_user_fns 0|1>~<root_of_trust rule names ,-separated|.>~<anchor's matched rule names|.|E:<class>>~<links>
      links ::= per object, `+`-separated:  - (no key locator name) | 1 | 0 | E:<class>   = Checker.check(name, key locator)

    The validator over a Light VerSec model, anchor-signed packets only (tokens of NdnModel/Lvs/Proto.lean):
    `C14 lvs <model> <env> <name>/<name>/… <links>`       links ::= . | <a>:<p>:<0|1>,…
    answer: `ok <0|1 validate_user_fns> <root_of_trust rule names , -separated | .> <r>/<r>/… <verdicts>`
      with, per candidate anchor name,  r ::= <matched rule names , -separated | . | E:<class>>~<ok | err:<class>>
      where the second part is `lvs_validator`'s outcome for a properly self-signed anchor of that name
      (`constructLvs` with a crypto that verifies the anchor), and, per link `<a>:<p>:<b>`, the verdict
      (`A`/`R`/`E:<class>`/`F`, `X` if the validator could not be built) of the validator anchored at name number `a`
      on a packet named name number `p` whose key locator is the anchor's name and whose signature does
      (1) / does not (0) verify under the anchor's key. -/
namespace Ndn.Drv.C14
open Ndn Ndn.Cascade

def splitList (s : String) (sep : String) : List String :=
  if s == "." then [] else s.splitOn sep

def parseOptNat (s : String) : Option (Option Nat) :=
  if s == "~" then some none else s.toNat?.map some

def parseSigType (s : String) : Option SigType :=
  if s == "h" then some .hmac else if s == "r" then some .rsa else if s == "e" then some .ecdsa
  else if s == "d" then some .ed25519 else if s == "o" then some .other else none

def parseKey (s : String) : Option (Option Key) :=
  if s == "~" then some none else
  match s.toList with
  | c :: rest =>
    match (String.ofList rest).toNat? with
    | none => none
    | some n =>
      if c == 'e' then some (some ⟨.ec, n⟩) else if c == 'r' then some (some ⟨.rsa, n⟩)
      else if c == 'd' then some (some ⟨.ed, n⟩) else if c == 'b' then some (some ⟨.bad, n⟩) else none
  | [] => none

def parseObj (s : String) : Option (Obj Name) :=
  match s.splitOn ":" with
  | [n, kl, t, sg, c] => do
    let n ← n.toNat?
    let kl ← parseOptNat kl
    let t ← parseSigType t
    let sg ← parseOptNat sg
    let c ← parseKey c
    pure ⟨n, kl, t, sg, c⟩
  | _ => none

def parseWorldEntry (objs : List (Obj LName)) (names : List LName) (s : String) : Option (LName × Outcome LName) :=
  match s.splitOn "=" with
  | [n, o] => do
    let n ← n.toNat?
    let nm ← names[n]?
    if o == "N" then pure (nm, .nack)
    else if o == "T" then pure (nm, .timeout)
    else if o.startsWith "D" then do
      let i ← (o.drop 1).toString.toNat?
      let c ← objs[i]?
      pure (nm, .data c)
    else none
  | _ => none

def lookupWorld : List (LName × Outcome LName) → LName → Option (Outcome LName)
  | [], _ => none
  | (m, o) :: r, n => if m = n then some o else lookupWorld r n

/-- an object over name indices → over real names -/
def realObj (names : List LName) (o : Obj Name) : Option (Obj LName) := do
  let n ← names[o.name]?
  let kl ← match o.keyLoc with
    | none => some none
    | some k => (names[k]?).map some
  pure ⟨n, kl, o.sigType, o.sig, o.content⟩

structure InstSpec where
  anchor : Obj LName
  key    : Key
  model  : Lvs.Model
  env    : Lvs.FnEnv
  store  : StoreRef

def parseStore (s : String) : Option StoreRef :=
  if s == "E" then some .empty
  else if s.startsWith "M" then (s.drop 1).toString.toNat?.map .mem
  else none

def parseInst (objs : List (Obj LName)) (models : List Lvs.Model) (idx : Nat) (s : String) : Option InstSpec :=
  let go (a mi es : String) (store : StoreRef) : Option InstSpec := do
    let a ← a.toNat?
    let anchor ← objs[a]?
    let key ← anchor.content
    let m ← models[← mi.toNat?]?
    let env ← Lvs.Proto.parseEnv es
    pure ⟨anchor, key, m, env, store⟩
  match s.splitOn "/" with
  | [a, mi, es] => go a mi es (.mem idx)
  | [a, mi, es, st] => do go a mi es (← parseStore st)
  | _ => none

/-- a step of the history: a validation, or a change of what the network answers under one name -/
inductive StepSpec where
  | val (i oi : Nat)
  | chg (nm : LName) (out : Option (Outcome LName))

def parseStep (objs : List (Obj LName)) (names : List LName) (s : String) : Option StepSpec :=
  if s.startsWith "W" then
    match (s.drop 1).toString.splitOn "=" with
    | [n, o] => do
      let n ← n.toNat?
      let nm ← names[n]?
      if o == "A" then pure (.chg nm none)
      else do
        let e ← parseWorldEntry objs names ((s.drop 1).toString)
        pure (.chg nm (some e.2))
    | _ => none
  else
    match s.splitOn ":" with
    | [a, b] => do pure (.val (← a.toNat?) (← b.toNat?))
    | _ => none

def groundCrypto {N : Type} (k : Key) (o : Obj N) : Bool := o.sig == some k.id

def showVerdict : Option Verdict → String
  | none => "F"
  | some .accept => "A"
  | some .reject => "R"
  | some (.raise e) => "E:" ++ e.name

def showInterest (names : List LName) (i : Interest LName) : String :=
  toString (names.idxOf i.name) ++ "^" ++ (if i.canBePrefix then "1" else "0") ++ "^" ++
    (if i.mustBeFresh then "1" else "0") ++ "^" ++ toString i.lifetime

def showLog (names : List LName) (l : List (Interest LName)) : String := ".".intercalate (l.map (showInterest names))

/-- instances that could be built (`constructLvs`), as configurations of the model with events -/
def buildInst (i : InstSpec) : Except PyErr (Cfg LName) :=
  match constructLvs groundCrypto i.model i.env i.anchor i.key with
  | .ok (n, k) => .ok (Inst.cfg ⟨i.model, i.env, groundCrypto, fun _ => none, n, k⟩ i.store)
  | .error e => .error e

/-- the configurations as a function of the instance number (an instance that was not built never validates) -/
def cfgFn (insts : List (Except PyErr (Cfg LName))) (i : Nat) : Cfg LName :=
  match insts[i]? with
  | some (.ok c) => c
  | _ => ⟨fun _ _ => .ok false, groundCrypto, [], ⟨.bad, 0⟩, .empty⟩

def runSteps (names : List LName) (insts : List (Except PyErr (Cfg LName))) (objs : List (Obj LName)) (fuel : Nat) :
    DState LName → List StepSpec → Option (List String)
  | _, [] => some []
  | st, .chg nm out :: r =>
    runSteps names insts objs fuel (stepD (cfgFn insts) st (.world fun i => if i.name = nm then out else st.world i)) r
  | st, .val i oi :: r =>
    match insts[i]?, objs[oi]? with
    | some (.ok _), some o =>
      let x := validateD (cfgFn insts) st i fuel o
      (runSteps names insts objs fuel (stepD (cfgFn insts) st (.validate i fuel o)) r).map
        ((showVerdict x.verdict ++ "@" ++ showLog names x.log) :: ·)
    | some (.error _), some _ => (runSteps names insts objs fuel st r).map ("X@" :: ·)
    | _, _ => none

def joinOr (l : List String) : String := if l.isEmpty then "." else ",".intercalate l

/-- the signature token says whether the anchor's key (id 0) produced it -/
def lvsCrypto (k : Key) (o : Obj LName) : Bool := o.sig == some k.id

/-- a properly self-signed anchor of the given name -/
def lvsAnchor (name : LName) : Obj LName := ⟨name, some name, .ecdsa, some 0, some ⟨.ec, 0⟩⟩

def lvsOne (m : Lvs.Model) (env : Lvs.FnEnv) (name : LName) : String :=
  (match anchorMatches m env name with
    | .ok l => joinOr l
    | .error e => "E:" ++ e.name) ++ "~" ++
  (match constructLvs lvsCrypto m env (lvsAnchor name) ⟨.ec, 0⟩ with
    | .ok _ => "ok"
    | .error e => "err:" ++ e.name)

def parseLink (s : String) : Option (Nat × Nat × Bool) :=
  match s.splitOn ":" with
  | [a, p, b] => do
    let a ← a.toNat?
    let p ← p.toNat?
    let b ← if b == "1" then some true else if b == "0" then some false else none
    pure (a, p, b)
  | _ => none

def lvsLink (m : Lvs.Model) (env : Lvs.FnEnv) (names : List LName) (l : Nat × Nat × Bool) : Option String :=
  match names[l.1]?, names[l.2.1]? with
  | some an, some pn =>
    match constructLvs lvsCrypto m env (lvsAnchor an) ⟨.ec, 0⟩ with
    | .error _ => some "X"
    | .ok (n, k) =>
      let I : Inst := ⟨m, env, lvsCrypto, fun _ => none, n, k⟩
      some (showVerdict (validate I.env 3 [] ⟨pn, some an, .ecdsa, some (if l.2.2 then 0 else 1), none⟩).verdict)
  | _, _ => none

def handleLvs (args : List String) : String :=
  match args with
  | ["lvs", ms, es, nss, links] =>
    match Lvs.Proto.parseModel ms, Lvs.Proto.parseEnv es, (nss.splitOn "/").mapM fromHexList,
          (splitList links ",").mapM parseLink with
    | some m, some env, some names, some links =>
      match links.mapM (lvsLink m env names) with
      | some vs =>
        "ok " ++ (if userFnsOk m env then "1" else "0") ++ " " ++ joinOr (rootOfTrust m) ++ " " ++
          "/".intercalate (names.map (lvsOne m env)) ++ " " ++ joinOr vs
      | none => "bad-op"
    | _, _, _, _ => "bad-op"
  | _ => "bad-op"

def showLink (i : InstSpec) (o : Obj LName) : String :=
  match o.keyLoc with
  | none => "-"
  | some kn =>
    match lvsAllowed i.model i.env o.name kn with
    | .ok true => "1"
    | .ok false => "0"
    | .error e => "E:" ++ e.name

def instInfo (objs : List (Obj LName)) (i : InstSpec) : String :=
  (if userFnsOk i.model i.env then "1" else "0") ++ "~" ++ joinOr (rootOfTrust i.model) ++ "~" ++
  (match anchorMatches i.model i.env i.anchor.name with
    | .ok l => joinOr l
    | .error e => "E:" ++ (pyOfLvs e).name) ++ "~" ++
  (if objs.isEmpty then "." else "+".intercalate (objs.map (showLink i)))

def handlePki (args : List String) : String :=
  match args with
  | ["pki", fuel, nss, mss, objs, world, insts, steps] =>
    match fuel.toNat?, (nss.splitOn "/").mapM fromHexList, (splitList mss "@").mapM Lvs.Proto.parseModel,
          (splitList objs ";").mapM parseObj with
    | some fuel, some names, some models, some iobjs =>
      match iobjs.mapM (realObj names) with
      | some objs =>
        match (splitList world ",").mapM (parseWorldEntry objs names),
              (splitList insts ";").zipIdx.mapM (fun x => parseInst objs models x.2 x.1),
              (splitList steps ",").mapM (parseStep objs names) with
        | some w, some is, some ss =>
          let wf : Interest LName → Option (Outcome LName) := fun i => lookupWorld w i.name
          let built := is.map buildInst
          let ir := built.map fun b => match b with
            | .ok _ => "ok"
            | .error e => "err:" ++ e.name
          match runSteps names built objs fuel ⟨wf, fun _ => []⟩ ss with
          | some sr => "ok " ++ (if ir.isEmpty then "." else ",".intercalate ir) ++ " " ++
                       (if sr.isEmpty then "." else ",".intercalate sr) ++ " " ++
                       (if is.isEmpty then "." else ";".intercalate (is.map (instInfo objs)))
          | none => "bad-op"
        | _, _, _ => "bad-op"
      | none => "bad-op"
    | _, _, _, _ => "bad-op"
  | _ => "bad-op"

def handle (args : List String) : String :=
  match args with
  | "lvs" :: _ => handleLvs args
  | "pki" :: _ => handlePki args
  | _ => "bad-op"

end Ndn.Drv.C14
