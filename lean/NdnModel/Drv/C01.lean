import NdnModel.CodecIO
import NdnModel.PacketEnc
import NdnModel.Sha256
/-  C01 / C02 protocol (one request per line):
    `C01 data <name comps hexlist> <meta value> <content value> <siginfo value> <reserved:sighex | ~>`
    `C01 int  <name comps hexlist> <(six mid values)> <appparam value> <siginfo value> <reserved:sighex | ~>`
        → `ok W=<wire> C=<covered list> N=<final name list> D=<digest covered> | <parse answer of W>` | `err <PyErr>`
    `C01 pdata <hex>` / `C01 pint <hex>`
        → `ok P=<values> SC=<list> SV=<hex|~> DC=<list> DV=<hex|~>` | `err <PyErr>`  -/
namespace Ndn.Drv.C01
open Ndn Ndn.Codec Ndn.Packet

def readValue (s : String) : Option Value :=
  match pValue s.toList with
  | some (v, []) => some v
  | _ => none

def readSigner (s : String) : Option (Option SignerOut) :=
  if s == "~" then some none
  else match s.splitOn ":" with
    | [r, h] => do
      let n ← r.toNat?
      let b ← fromHex h
      pure (some { reserved := n, sig := b })
    | _ => none

def optHex : Option Bytes → String
  | some b => toHex b
  | none => "~"

mutual
partial def hideMarkers : List Schema → List Value → List Value
  | s :: ss, v :: vs => hideMarker s v :: hideMarkers ss vs
  | _, vs => vs
partial def hideMarker : Schema → Value → Value
  | .marker, _ => .none
  | .model _ fs _, .model vs => .model (hideMarkers fs vs)
  | .repeated e, .list vs => .list (vs.map (hideMarker e))
  | _, v => v
end

def showParsed (fs : List Schema) : Except PyErr (List Value × Ptrs) → String
  | .ok (vs, p) => "ok P=" ++ showValues (hideMarkers fs vs) ++ " SC=" ++ toHexList p.sigCovered ++ " SV=" ++ optHex p.sigValue
      ++ " DC=" ++ toHexList p.digestCovered ++ " DV=" ++ optHex p.digestValue
      ++ " PC=" ++ (if paramsCheck Sha256.sha256 p then "1" else "0")
  | .error e => "err " ++ e.name

def showMade (fs : List Schema) (parse : Bytes → Except PyErr (List Value × Ptrs)) : Except PyErr Made → String
  | .ok m => "ok W=" ++ toHex m.wire ++ " C=" ++ toHexList m.covered ++ " N=" ++ toHexList m.finalName
      ++ " D=" ++ toHex m.digestCovered ++ " | " ++ showParsed fs (parse m.wire)
  | .error e => "err " ++ e.name

def handle1 (args : List String) : String :=
  match args with
  | ["data", nm, mi, ct, si, sg] =>
    match fromHexList nm, readValue mi, readValue ct, readValue si, readSigner sg with
    | some n, some m, some c, some s, some g => showMade dataFs parseData (makeData n m c s g)
    | _, _, _, _, _ => "bad-op"
  | ["int", nm, mid, ap, si, sg] =>
    match fromHexList nm, readValues mid, readValue ap, readValue si, readSigner sg with
    | some n, some m, some a, some s, some g =>
      showMade interestFs parseInterest (makeInterest Sha256.sha256 n m a s g)
    | _, _, _, _, _ => "bad-op"
  | ["pdata", hx] =>
    match fromHex hx with
    | some w => showParsed dataFs (parseData w)
    | none => "bad-op"
  | ["pint", hx] =>
    match fromHex hx with
    | some w => showParsed interestFs (parseInterest w)
    | none => "bad-op"
  | _ => "bad-op"

/-- several questions on one line are separated by `;;` -/
partial def splitQ : List String → List (List String)
  | [] => [[]]
  | ";;" :: r => [] :: splitQ r
  | a :: r => match splitQ r with
    | q :: qs => (a :: q) :: qs
    | [] => [[a]]

def handle (args : List String) : String :=
  " ;; ".intercalate ((splitQ args).map handle1)

end Ndn.Drv.C01
