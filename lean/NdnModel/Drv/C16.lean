import NdnModel.CodecIO
import NdnModel.CertTime
/-  C16 protocol:
    `C16 cert <keyName hexlist> <issuer hex> <version hex> <pubkey hex> <(five signer-info values)> <issue> <reserved:sighex>`
       → `ok W=<wire> C=<covered> N=<name list> | ok P=<values>` | `err <PyErr>`
    `C16 times <issue>` → `ok <notBefore hex> <notAfter hex>` | `err <PyErr>`
       <issue> = `derive:<ord>,<sec>,<us>,<fold 0|1>,<offset seconds | n>,<other offset seconds>,<expire_sec>`
                 | `req:<ord>,<sec>,<us>` | `self:<ord>,<sec>,<us>`
       (the model computes the calendar fields of the validity period itself; the tzinfo of an aware start_time is
        the zone that reports <offset> for the start reading with that fold and <other offset> for every other
        reading)
    calendar stream (instant <inst> = `o:<ord>,<sec>,<us>` | `f:<y>,<mo>,<d>,<h>,<mi>,<s>,<us>`):
    `C16 cal ymd2ord <y>,<mo>,<d>` → `ok <ord>` | `err ValueError`
    `C16 cal ord2ymd <n>` → `ok <y>,<mo>,<d>` | `err ValueError`
    `C16 cal range <lo> <count>` → `ok <y>,<mo>,<d0>,<k>;…`: `_ord2ymd` of every ordinal lo .. lo+count-1, runs of
       consecutive days of one month written once (year, month, first day, number of days)
    `C16 cal add <inst> <n>` / `cal utc <inst> <offset seconds>` / `cal addyears <inst> <k>`
       → `ok <ord>,<sec>,<us>;<y>,<mo>,<d>,<h>,<mi>,<s>` | `err <PyErr>`
    `C16 cal fmt <inst>` → `ok <hex>` -/
namespace Ndn.Drv.C16
open Ndn Ndn.Codec Ndn.Packet Ndn.Cert Ndn.Calendar

def intList (s : String) : Option (List Int) := (s.splitOn ",").mapM String.toInt?

def mkInstant (o s u : Int) : Option Instant :=
  if 0 ≤ o ∧ 0 ≤ s ∧ 0 ≤ u then
    let t : Instant := { ord := o.toNat, sec := s.toNat, us := u.toNat }
    if t.valid then some t else none
  else none

def readIssue (s : String) : Option Issue :=
  match s.splitOn ":" with
  | ["derive", r] =>
    match r.splitOn "," with
    | [o, sec, us, fold, off, off2, n] => do
      let t ← mkInstant (← o.toInt?) (← sec.toInt?) (← us.toInt?)
      let fold ← (if fold == "0" then some false else if fold == "1" then some true else none)
      let off2 ← off2.toInt?
      let zone ← (if off == "n" then some none
        else off.toInt?.map (fun o => some (fun w f => if w = t ∧ f = fold then o else off2)) : Option (Option Zone))
      pure (.derive t fold zone (← n.toInt?))
    | _ => none
  | ["req", r] =>
    match intList r with
    | some [o, sec, us] => do let t ← mkInstant o sec us; pure (.req t t)
    | _ => none
  | ["self", r] =>
    match intList r with
    | some [o, sec, us] => do let t ← mkInstant o sec us; pure (.self t)
    | _ => none
  | _ => none

def readInstant (s : String) : Option Instant :=
  match s.splitOn ":" with
  | ["o", r] =>
    match intList r with
    | some [o, sec, us] => mkInstant o sec us
    | _ => none
  | ["f", r] =>
    match natList r with
    | some [y, mo, d, h, mi, sec, us] =>
      match mkDate y mo d with
      | .ok o => if h < 24 ∧ mi < 60 ∧ sec < 60 then mkInstant o (h * 3600 + mi * 60 + sec) us else none
      | .error _ => none
    | _ => none
  | _ => none

def showInstant (t : Instant) : String :=
  let f := fields t
  showNatList [t.ord, t.sec, t.us] ++ ";" ++ showNatList [f.1, f.2.1, f.2.2.1, f.2.2.2.1, f.2.2.2.2.1, f.2.2.2.2.2]

/-- `ord2ymd` of `count` consecutive ordinals, as runs of consecutive days within a month -/
def rangeRuns (lo count : Nat) : List (List Nat) :=
  ((List.range count).foldl (fun (acc : List (List Nat)) i =>
    let r := ord2ymd (lo + i)
    match acc with
    | [y, m, d0, c] :: rest =>
      if r.1 == y && r.2.1 == m && r.2.2 == d0 + c then [y, m, d0, c + 1] :: rest else [r.1, r.2.1, r.2.2, 1] :: acc
    | _ => [r.1, r.2.1, r.2.2, 1] :: acc) []).reverse

mutual
partial def hideMarkers : List Schema → List Value → List Value
  | s :: ss, v :: vs => hideMarker s v :: hideMarkers ss vs
  | _, vs => vs
partial def hideMarker : Schema → Value → Value
  | .marker, _ => .none
  | .model _ fs _, .model vs => .model (hideMarkers fs vs)
  | .repeated e, .list vs => .list (vs.map (hideMarker e))
  | _, v => v
end

def handle (args : List String) : String :=
  match args with
  | ["cert", kn, iss, ver, pk, si, is, sg] =>
    match fromHexList kn, fromHex iss, fromHex ver, fromHex pk, readValues si, readIssue is,
        (match sg.splitOn ":" with
          | [r, h] => (do let n ← r.toNat?; let b ← fromHex h; pure (SignerOut.mk n b) : Option SignerOut)
          | _ => none) with
    | some k, some i, some v, some p, some s, some t, some g =>
      match issueCert k i v p s t g with
      | .ok m =>
        "ok W=" ++ toHex m.wire ++ " C=" ++ toHexList m.covered ++ " N=" ++ toHexList m.finalName ++ " | " ++
          (match parseCert m.wire with
            | .ok vs => "ok P=" ++ showValues (hideMarkers certFs vs)
            | .error e => "err " ++ e.name)
      | .error e => "err " ++ e.name
    | _, _, _, _, _, _, _ => "bad-op"
  | ["times", is] =>
    match readIssue is with
    | some t =>
      match t.validity with
      | .ok (a, b) => "ok " ++ toHex a ++ " " ++ toHex b
      | .error e => "err " ++ e.name
    | none => "bad-op"
  | ["cal", "ymd2ord", a] =>
    match natList a with
    | some [y, mo, d] => showExcept toString (mkDate y mo d)
    | _ => "bad-op"
  | ["cal", "ord2ymd", a] =>
    match a.toNat? with
    | some n => showExcept (fun r => showNatList [r.1, r.2.1, r.2.2]) (fromOrdinal n)
    | none => "bad-op"
  | ["cal", "range", a, b] =>
    match a.toNat?, b.toNat? with
    | some lo, some cnt =>
      if 1 ≤ lo ∧ lo + cnt ≤ maxOrdinal + 1 then "ok " ++ ";".intercalate ((rangeRuns lo cnt).map showNatList) else "bad-op"
    | _, _ => "bad-op"
  | ["cal", "add", t, n] =>
    match readInstant t, n.toInt? with
    | some t, some n => showExcept showInstant (addSeconds t n)
    | _, _ => "bad-op"
  | ["cal", "utc", t, o] =>
    match readInstant t, o.toInt? with
    | some t, some o => showExcept showInstant (toUtc t (some o))
    | _, _ => "bad-op"
  | ["cal", "addyears", t, k] =>
    match readInstant t, k.toNat? with
    | some t, some k => showExcept showInstant (addYears t k)
    | _, _ => "bad-op"
  | ["cal", "fmt", t] =>
    match readInstant t with
    | some t => "ok " ++ toHex (fmtInstant t)
    | none => "bad-op"
  | _ => "bad-op"

end Ndn.Drv.C16
