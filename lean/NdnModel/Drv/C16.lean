import NdnModel.CodecIO
import NdnModel.Cert
/-  C16 protocol:
    `C16 cert <keyName hexlist> <issuer hex> <version hex> <pubkey hex> <(five signer-info values)> <y,mo,d,h,mi,s> <y,mo,d,h,mi,s> <reserved:sighex>`
       → `ok W=<wire> C=<covered> N=<name list> | ok P=<values>` | `err <PyErr>`
    `C16 fmt <y,mo,d,h,mi,s>` → `ok <hex>` -/
namespace Ndn.Drv.C16
open Ndn Ndn.Codec Ndn.Packet Ndn.Cert

def readTime (s : String) : Option Bytes :=
  match natList s with
  | some [y, mo, d, h, mi, sec] => some (formatTime y mo d h mi sec)
  | _ => none

mutual
partial def hideMarkers : List Schema → List Value → List Value
  | s :: ss, v :: vs => hideMarker s v :: hideMarkers ss vs
  | _, vs => vs
partial def hideMarker : Schema → Value → Value
  | .marker, _ => .none
  | .model _ fs _, .model vs => .model (hideMarkers fs vs)
  | .repeated e, .list vs => .list (vs.map (hideMarker e))
  | _, v => v
end

def handle (args : List String) : String :=
  match args with
  | ["cert", kn, iss, ver, pk, si, t0, t1, sg] =>
    match fromHexList kn, fromHex iss, fromHex ver, fromHex pk, readValues si, readTime t0, readTime t1,
        (match sg.splitOn ":" with
          | [r, h] => (do let n ← r.toNat?; let b ← fromHex h; pure (SignerOut.mk n b) : Option SignerOut)
          | _ => none) with
    | some k, some i, some v, some p, some s, some a, some b, some g =>
      match newCert k i v p s a b g with
      | .ok m =>
        "ok W=" ++ toHex m.wire ++ " C=" ++ toHexList m.covered ++ " N=" ++ toHexList m.finalName ++ " | " ++
          (match parseCert m.wire with
            | .ok vs => "ok P=" ++ showValues (hideMarkers certFs vs)
            | .error e => "err " ++ e.name)
      | .error e => "err " ++ e.name
    | _, _, _, _, _, _, _, _ => "bad-op"
  | ["fmt", t] =>
    match readTime t with
    | some b => "ok " ++ toHex b
    | none => "bad-op"
  | _ => "bad-op"

end Ndn.Drv.C16
