import NdnModel.SegFetch
import NdnModel.SegFetchNames
import NdnModel.SegFetchTimed
/-  Line protocol for the segmented-fetch model:
    `C19 <obj> <disc> <limit> <script>`
        obj ::= u | s:. | s:<fbi>,<fbi>,…   (fbi ::= ~ | n; segment i has content id i, the unsegmented object 999)
        script ::= . | string over d t n v
    answer `ok <yielded ids | .> <log | .> <end>`   log ::= entry,entry,…  entry ::= (D | S<i>)<outcome letter>

    With two more arguments `<prefix> <base>` (names as `,`-separated hex components, `.` = the empty name; for an
    unsegmented object `<base>` is the full name of its Data) the names-level model runs as well
    (`Ndn.SegFetch.fetchB` against `producer`: it builds every Interest name itself, `name[-1] = from_segment(n)`),
    and the answer gets three more tokens: `<yielded> <end> <namelog | .>`,
    namelog ::= entry;entry;…  entry ::= <name>:<outcome letter> — every Interest name byte for byte.

    Timed model (`Ndn.SegFetchT.fetchT`: the generator over the pending-Interest table `Ndn.Pit`, answers take time):
    `C19 T <obj> <disc> <limit> <lifetime> <nack reason> <tscript>`
        tscript ::= . | entry,entry,…   entry ::= <outcome letter><delay in ms>   (what the producer does with the n-th
        Interest and how long the answer travels; `t` needs no delay)
    `C19 B <obj> <disc> <limit> <script> <prefix> <base> | <obj> <disc> <limit> <lifetime> <nack reason> <tscript>`
        both questions on one line, the two answers joined by ` | `
    answer `ok <yielded ids | .> <sent | .> <end> <seen | .>`
        sent ::= (D | S<i>)@<time>,…   every Interest the producer saw and when
        seen ::= (D | S<i>)(d<data id> | t | n<reason> | x),…   what each awaitable came to -/
namespace Ndn.Drv.C19
open Ndn Ndn.SegFetch

def pOutcome : Char → Option Outcome
  | 'd' => some .data | 't' => some .timeout | 'n' => some .nack | 'v' => some .invalid | _ => none

def sOutcome : Outcome → String
  | .data => "d" | .timeout => "t" | .nack => "n" | .invalid => "v"

def pFbi (s : String) : Option (Option Nat) := if s == "~" then some none else s.toNat?.map some

def number (i : Nat) : List (Option Nat) → List Seg
  | [] => []
  | f :: r => ⟨i, f⟩ :: number (i + 1) r

def pObj (s : String) : Option Obj :=
  if s == "u" then some (.unseg 999)
  else if s == "s:." then some (.segs [])
  else if s.startsWith "s:" then ((s.drop 2).toString.splitOn ",").mapM pFbi |>.map fun l => .segs (number 0 l)
  else none

def sReq : Req → String
  | .disc => "D" | .seg i => "S" ++ toString i

def sEnd : End → String
  | .done => "done" | .timeout => "InterestTimeout" | .nack => "InterestNack" | .invalid => "ValidationFailure"
  | .fuel => "FUEL"

def sEndB : EndB → String
  | .fin e => sEnd e
  | .raised e => "raised:" ++ e.name

def objB (o : Obj) (base : List Bytes) : ObjB × Nat :=
  match o with
  | .unseg c => (.unseg base c, 1)
  | .segs l => (.segs base l, l.length + 1)

def pTimed (s : String) : Option (Outcome × Nat) :=
  match s.toList with
  | c :: r => match pOutcome c, (if r.isEmpty then some 0 else (String.ofList r).toNat?) with
    | some o, some d => some (o, d)
    | _, _ => none
  | [] => none

def sSeen : Pit.Outcome → String
  | .data d => "d" ++ toString d
  | .timeout => "t"
  | .nack r => "n" ++ toString r
  | _ => "x"

def handleTimed (obj disc limit life reason script : String) : String :=
  match pObj obj, disc.toNat?, limit.toNat?, life.toNat?, reason.toNat?,
      (if script == "." then some [] else (script.splitOn ",").mapM pTimed) with
  | some o, some d, some l, some lf, some rs, some sc =>
    let r := SegFetchT.fetchT ⟨⟨o, d, lf, rs⟩, l, sc⟩
    "ok " ++ showNatList r.1.yielded ++ " " ++
      (if r.2.sent.isEmpty then "." else ",".intercalate (r.2.sent.map fun e => sReq e.1 ++ "@" ++ toString e.2)) ++ " " ++
      sEnd r.1.end_ ++ " " ++
      (if r.1.log.isEmpty then "." else ",".intercalate (r.1.log.map fun e => sReq e.1 ++ sSeen e.2))
  | _, _, _, _, _, _ => "bad-op"

def handleUntimed (args : List String) : String :=
  match args with
  | [obj, disc, limit, script, pre, base] =>
    match pObj obj, disc.toNat?, limit.toNat?, (if script == "." then some [] else script.toList.mapM pOutcome),
        fromHexList pre, fromHexList base with
    | some o, some d, some l, some sc, some p, some b =>
      let r := fetch ⟨o, d, sc, l⟩
      let (ob, fuel) := objB o b
      let rb := fetchB l (producer p ob d) p fuel sc
      "ok " ++ showNatList r.yielded ++ " " ++
        (if r.log.isEmpty then "." else ",".intercalate (r.log.map fun e => sReq e.1 ++ sOutcome e.2)) ++ " " ++ sEnd r.end_ ++
        " " ++ showNatList rb.yielded ++ " " ++ sEndB rb.end_ ++ " " ++
        (if rb.log.isEmpty then "." else ";".intercalate (rb.log.map fun e => toHexList e.1 ++ ":" ++ sOutcome e.2))
    | _, _, _, _, _, _ => "bad-op"
  | [obj, disc, limit, script] =>
    match pObj obj, disc.toNat?, limit.toNat?, (if script == "." then some [] else script.toList.mapM pOutcome) with
    | some o, some d, some l, some sc =>
      let r := fetch ⟨o, d, sc, l⟩
      "ok " ++ showNatList r.yielded ++ " " ++
        (if r.log.isEmpty then "." else ",".intercalate (r.log.map fun e => sReq e.1 ++ sOutcome e.2)) ++ " " ++ sEnd r.end_
    | _, _, _, _ => "bad-op"
  | _ => "bad-op"

def handle (args : List String) : String :=
  match args with
  | ["T", obj, disc, limit, life, reason, script] =>
    if Pit.tableOk then handleTimed obj disc limit life reason script else "bad-table"
  | ["B", obj, disc, limit, script, pre, base, "|", obj2, disc2, limit2, life, reason, tscript] =>
    -- both: the untimed models and the timed one (answers joined by ` | `)
    handleUntimed [obj, disc, limit, script, pre, base] ++ " | " ++
      (if Pit.tableOk then handleTimed obj2 disc2 limit2 life reason tscript else "bad-table")
  | _ => handleUntimed args

end Ndn.Drv.C19
