import NdnModel.SegFetch
/-  Line protocol for the segmented-fetch model:
    `C19 <obj> <disc> <limit> <script>`
        obj ::= u | s:. | s:<fbi>,<fbi>,…   (fbi ::= ~ | n; segment i has content id i, the unsegmented object 999)
        script ::= . | string over d t n v
    answer `ok <yielded ids | .> <log | .> <end>`   log ::= entry,entry,…  entry ::= (D | S<i>)<outcome letter> -/
namespace Ndn.Drv.C19
open Ndn Ndn.SegFetch

def pOutcome : Char → Option Outcome
  | 'd' => some .data | 't' => some .timeout | 'n' => some .nack | 'v' => some .invalid | _ => none

def sOutcome : Outcome → String
  | .data => "d" | .timeout => "t" | .nack => "n" | .invalid => "v"

def pFbi (s : String) : Option (Option Nat) := if s == "~" then some none else s.toNat?.map some

def number (i : Nat) : List (Option Nat) → List Seg
  | [] => []
  | f :: r => ⟨i, f⟩ :: number (i + 1) r

def pObj (s : String) : Option Obj :=
  if s == "u" then some (.unseg 999)
  else if s == "s:." then some (.segs [])
  else if s.startsWith "s:" then ((s.drop 2).toString.splitOn ",").mapM pFbi |>.map fun l => .segs (number 0 l)
  else none

def sReq : Req → String
  | .disc => "D" | .seg i => "S" ++ toString i

def sEnd : End → String
  | .done => "done" | .timeout => "InterestTimeout" | .nack => "InterestNack" | .invalid => "ValidationFailure"
  | .fuel => "FUEL"

def handle (args : List String) : String :=
  match args with
  | [obj, disc, limit, script] =>
    match pObj obj, disc.toNat?, limit.toNat?, (if script == "." then some [] else script.toList.mapM pOutcome) with
    | some o, some d, some l, some sc =>
      let r := fetch ⟨o, d, sc, l⟩
      "ok " ++ showNatList r.yielded ++ " " ++
        (if r.log.isEmpty then "." else ",".intercalate (r.log.map fun e => sReq e.1 ++ sOutcome e.2)) ++ " " ++ sEnd r.end_
    | _, _, _, _ => "bad-op"
  | _ => "bad-op"

end Ndn.Drv.C19
