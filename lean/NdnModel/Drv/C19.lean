import NdnModel.SegFetch
import NdnModel.SegFetchNames
/-  Line protocol for the segmented-fetch model:
    `C19 <obj> <disc> <limit> <script>`
        obj ::= u | s:. | s:<fbi>,<fbi>,…   (fbi ::= ~ | n; segment i has content id i, the unsegmented object 999)
        script ::= . | string over d t n v
    answer `ok <yielded ids | .> <log | .> <end>`   log ::= entry,entry,…  entry ::= (D | S<i>)<outcome letter>

    With two more arguments `<prefix> <base>` (names as `,`-separated hex components, `.` = the empty name; for an
    unsegmented object `<base>` is the full name of its Data) the names-level model runs as well
    (`Ndn.SegFetch.fetchB` against `producer`: it builds every Interest name itself, `name[-1] = from_segment(n)`),
    and the answer gets three more tokens: `<yielded> <end> <namelog | .>`,
    namelog ::= entry;entry;…  entry ::= <name>:<outcome letter> — every Interest name byte for byte. -/
namespace Ndn.Drv.C19
open Ndn Ndn.SegFetch

def pOutcome : Char → Option Outcome
  | 'd' => some .data | 't' => some .timeout | 'n' => some .nack | 'v' => some .invalid | _ => none

def sOutcome : Outcome → String
  | .data => "d" | .timeout => "t" | .nack => "n" | .invalid => "v"

def pFbi (s : String) : Option (Option Nat) := if s == "~" then some none else s.toNat?.map some

def number (i : Nat) : List (Option Nat) → List Seg
  | [] => []
  | f :: r => ⟨i, f⟩ :: number (i + 1) r

def pObj (s : String) : Option Obj :=
  if s == "u" then some (.unseg 999)
  else if s == "s:." then some (.segs [])
  else if s.startsWith "s:" then ((s.drop 2).toString.splitOn ",").mapM pFbi |>.map fun l => .segs (number 0 l)
  else none

def sReq : Req → String
  | .disc => "D" | .seg i => "S" ++ toString i

def sEnd : End → String
  | .done => "done" | .timeout => "InterestTimeout" | .nack => "InterestNack" | .invalid => "ValidationFailure"
  | .fuel => "FUEL"

def sEndB : EndB → String
  | .fin e => sEnd e
  | .raised e => "raised:" ++ e.name

def objB (o : Obj) (base : List Bytes) : ObjB × Nat :=
  match o with
  | .unseg c => (.unseg base c, 1)
  | .segs l => (.segs base l, l.length + 1)

def handle (args : List String) : String :=
  match args with
  | [obj, disc, limit, script, pre, base] =>
    match pObj obj, disc.toNat?, limit.toNat?, (if script == "." then some [] else script.toList.mapM pOutcome),
        fromHexList pre, fromHexList base with
    | some o, some d, some l, some sc, some p, some b =>
      let r := fetch ⟨o, d, sc, l⟩
      let (ob, fuel) := objB o b
      let rb := fetchB l (producer p ob d) p fuel sc
      "ok " ++ showNatList r.yielded ++ " " ++
        (if r.log.isEmpty then "." else ",".intercalate (r.log.map fun e => sReq e.1 ++ sOutcome e.2)) ++ " " ++ sEnd r.end_ ++
        " " ++ showNatList rb.yielded ++ " " ++ sEndB rb.end_ ++ " " ++
        (if rb.log.isEmpty then "." else ";".intercalate (rb.log.map fun e => toHexList e.1 ++ ":" ++ sOutcome e.2))
    | _, _, _, _, _, _ => "bad-op"
  | [obj, disc, limit, script] =>
    match pObj obj, disc.toNat?, limit.toNat?, (if script == "." then some [] else script.toList.mapM pOutcome) with
    | some o, some d, some l, some sc =>
      let r := fetch ⟨o, d, sc, l⟩
      "ok " ++ showNatList r.yielded ++ " " ++
        (if r.log.isEmpty then "." else ",".intercalate (r.log.map fun e => sReq e.1 ++ sOutcome e.2)) ++ " " ++ sEnd r.end_
    | _, _, _, _ => "bad-op"
  | _ => "bad-op"

end Ndn.Drv.C19
