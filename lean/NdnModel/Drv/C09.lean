import NdnModel.Name
/-  Line protocol of the name model.  A request line is `C09 <op> <op> …`; every op is a token
    `<name>:<arg>:<arg>…` and is answered by one token `ok=<payload>` / `err=<PythonClass>` /
    `bad-op`.  Bytes are lowercase hex (`-` = empty), text is the hex of its UTF-8 bytes, a name is
    a `,`-separated list of hex components (`.` = no component), numbers are decimal.

      fb:<typ>:<val>      Component.from_bytes           fn:<int>:<typ>   Component.from_number
      fs:<text>           Component.from_str             es:<text>        Component.escape_str
      ts:<comp>           Component.to_str               tc:<comp>        Component.to_canonical_uri
      gt:<comp>           Component.get_type             gv:<comp>        Component.get_value
      tn:<comp>           Component.to_number
      nfs:<text>          Name.from_str                  nts:<name> / ntc:<name>   Name.to_str / to_canonical_uri
      enc:<name>          Name.encode                    dec:<wire>       Name.decode  → <name>@<consumed>
      nrm:<e>,<e>…        Name.normalize of a list, e ::= s<text> | b<comp>
      nrs:<text>          Name.normalize of a str        nrw:<wire>       Name.normalize of a wire
      pre:<name>:<name>   Name.is_prefix
      lt:<bytes>:<bytes>  bytes <                        nlt:<name>:<name>   list-of-bytes <
      flt:<name>:<name>   b''.join(a) < b''.join(b)                                                  -/
namespace Ndn.Drv.C09
open Ndn

def textOfHex (s : String) : Option Str := do
  let bs ← fromHex s
  let str ← String.fromUTF8? (ByteArray.mk bs.toArray)
  pure str.toList

def hexOfText (s : Str) : String := toHex (String.ofList s).toUTF8.toList

def showE {α} (f : α → String) : Except PyErr α → String
  | .ok a => "ok=" ++ f a
  | .error e => "err=" ++ e.name

def showB (b : Bool) : String := if b then "T" else "F"

def parseInt (s : String) : Option Int :=
  if s.startsWith "-" then (s.drop 1).toString.toNat?.map fun n => - (n : Int)
  else s.toNat?.map fun n => (n : Int)

def parseElem (s : String) : Option (Str ⊕ Bytes) :=
  if s.startsWith "s" then (textOfHex (s.drop 1).toString).map .inl
  else if s.startsWith "b" then (fromHex (s.drop 1).toString).map .inr
  else none

def op (tok : String) : String :=
  match tok.splitOn ":" with
  | ["fb", t, v] =>
    match t.toNat?, fromHex v with
    | some t, some v => showE toHex (Comp.fromBytes v t)
    | _, _ => "bad-op"
  | ["fn", n, t] =>
    match parseInt n, t.toNat? with
    | some n, some t => showE toHex (Comp.fromNumber n t)
    | _, _ => "bad-op"
  | ["fs", s] => match textOfHex s with
    | some s => showE toHex (Comp.fromStr s)
    | none => "bad-op"
  | ["es", s] => match textOfHex s with
    | some s => "ok=" ++ hexOfText (Comp.escapeStr s)
    | none => "bad-op"
  | ["ts", c] => match fromHex c with
    | some c => showE hexOfText (Comp.toStr c)
    | none => "bad-op"
  | ["tc", c] => match fromHex c with
    | some c => showE hexOfText (Comp.toCanonicalUri c)
    | none => "bad-op"
  | ["gt", c] => match fromHex c with
    | some c => showE toString (Comp.getType c)
    | none => "bad-op"
  | ["gv", c] => match fromHex c with
    | some c => showE toHex (Comp.getValue c)
    | none => "bad-op"
  | ["tn", c] => match fromHex c with
    | some c => showE toString (Comp.toNumber c)
    | none => "bad-op"
  | ["nfs", s] => match textOfHex s with
    | some s => showE toHexList (Name.fromStr s)
    | none => "bad-op"
  | ["nts", n] => match fromHexList n with
    | some n => showE hexOfText (Name.toStr n)
    | none => "bad-op"
  | ["ntc", n] => match fromHexList n with
    | some n => showE hexOfText (Name.toCanonicalUri n)
    | none => "bad-op"
  | ["enc", n] => match fromHexList n with
    | some n => "ok=" ++ toHex (Name.encode n)
    | none => "bad-op"
  | ["dec", w] => match fromHex w with
    | some w => showE (fun r => toHexList r.1 ++ "@" ++ toString r.2) (Name.decode w)
    | none => "bad-op"
  | ["nrm", l] =>
    match (if l == "." then some [] else (l.splitOn ",").mapM parseElem) with
    | some l => showE toHexList (Name.normalize (.list l))
    | none => "bad-op"
  | ["nrs", s] => match textOfHex s with
    | some s => showE toHexList (Name.normalize (.str s))
    | none => "bad-op"
  | ["nrw", w] => match fromHex w with
    | some w => showE toHexList (Name.normalize (.wire w))
    | none => "bad-op"
  | ["pre", a, b] => match fromHexList a, fromHexList b with
    | some a, some b => "ok=" ++ showB (Name.isPrefix a b)
    | _, _ => "bad-op"
  | ["lt", a, b] => match fromHex a, fromHex b with
    | some a, some b => "ok=" ++ showB (bytesLt a b)
    | _, _ => "bad-op"
  | ["nlt", a, b] => match fromHexList a, fromHexList b with
    | some a, some b => "ok=" ++ showB (nameLt a b)
    | _, _ => "bad-op"
  | ["flt", a, b] => match fromHexList a, fromHexList b with
    | some a, some b => "ok=" ++ showB (bytesLt a.flatten b.flatten)
    | _, _ => "bad-op"
  | _ => "bad-op"

def handle (args : List String) : String :=
  if args.isEmpty then "bad-op" else " ".intercalate (args.map op)

end Ndn.Drv.C09
