import NdnModel.Fib
/-  Line protocol for the handler-table model (one history per line):
      `C04 <fe> <ev>;<ev>;…`        fe ::= v2 | v1 | disp        (`.` = empty history)
      ev ::= a/<name>/<hid or ~>                     attach          → ok | ValueError
           | d/<name>                                detach          → ok | KeyError
           | u/<name>                                legacy unregister() coroutine → ok (entry removed if there is one)
           | i/<name>/<arrival>/<lifetime or ~>/<tokHex or ~>/<up|down>/<replies>
                                                     incoming Interest
      name ::= `.` (root) or comma-separated component hex;  replies ::= `.` or `+`-joined `<now>:<dataHex>`
    answer: one token per event.  Interest token:
      v2/v1:  `h<hid>` or `none`, then per reply `|T=<pkts>` `|F=<pkts>` `|N=<pkts>` `|E=Other`
              (T/F = returned True/False, N = returned None (legacy put_raw_packet), pkts = hex list)
      disp:   `h<hid>:True` | `none:False` | `err:TypeError`
    `bad-table` when an entry of lean/NdnGen/C04.lean the model computes with was not recognised                                        -/
namespace Ndn.Drv.C04
open Ndn Ndn.Fib

inductive Ev where
  | op (o : Op)
  | unreg (p : Name)
  | interest (n : Name) (arrival : Nat) (lifetime : Option Nat) (tok : Option Bytes) (running : Bool)
      (replies : List (Nat × Bytes))

def optTok {α} (s : String) (f : String → Option α) : Option (Option α) :=
  if s == "~" then some none else (f s).map some

def parseReply (s : String) : Option (Nat × Bytes) :=
  match s.splitOn ":" with
  | [a, b] => do
    let t ← a.toNat?
    let d ← fromHex b
    pure (t, d)
  | _ => none

def parseEv (s : String) : Option Ev :=
  match s.splitOn "/" with
  | ["a", n, h] => do
    let n ← fromHexList n
    let h ← optTok h String.toNat?
    pure (.op (.attach n h))
  | ["d", n] => do
    let n ← fromHexList n
    pure (.op (.detach n))
  | ["u", n] => do
    let n ← fromHexList n
    pure (.unreg n)
  | ["i", n, t, l, k, r, reps] => do
    let n ← fromHexList n
    let t ← t.toNat?
    let l ← optTok l String.toNat?
    let k ← optTok k fromHex
    let r ← if r == "up" then some true else if r == "down" then some false else none
    let reps ← if reps == "." then some [] else (reps.splitOn "+").mapM parseReply
    pure (.interest n t l k r reps)
  | _ => none

def showRes : Res → String
  | .ok => "ok"
  | .err e => e.name

def showReplyV2 (running : Bool) (pd : Pending) (r : Nat × Bytes) : String :=
  match reply running pd r.1 r.2 with
  | .ok (true, sent) => "|T=" ++ toHexList sent
  | .ok (false, sent) => "|F=" ++ toHexList sent
  | .error e => "|E=" ++ e.name

def showReplyV1 (running : Bool) (r : Nat × Bytes) : String :=
  match putRawPacket running r.2 with
  | .ok sent => "|N=" ++ toHexList sent
  | .error e => "|E=" ++ e.name

def showInterest (fe : String) (f : Fib) : Ev → String
  | .op _ => "bad-op"
  | .unreg _ => "bad-op"
  | .interest n t l k running reps =>
    if fe == "disp" then
      match dispatcherDispatch f n with
      | .ok (some h) => "h" ++ toString h ++ ":True"
      | .ok none => "none:False"
      | .error e => "err:" ++ e.name
    else
      match onInterest f n with
      | .deliver _ h =>
        "h" ++ toString h ++
          (if fe == "v2" then String.join (reps.map (showReplyV2 running (mkPending t l k)))
           else String.join (reps.map (showReplyV1 running)))
      | _ => "none"

def runShow (fe : String) (f : Fib) : List Ev → List String
  | [] => []
  | .op o :: r =>
    let s := step f o
    showRes s.2 :: runShow fe s.1 r
  | .unreg p :: r => "ok" :: runShow fe (unregisterV1 f p) r
  | e :: r => showInterest fe f e :: runShow fe f r

def handle (args : List String) : String :=
  match args with
  | [fe, evs] =>
    if !tableOk then "bad-table" else
    if fe != "v2" && fe != "v1" && fe != "disp" then "bad-op" else
    match (if evs == "." then some [] else (evs.splitOn ";").mapM parseEv) with
    | some es => "ok " ++ " ".intercalate (runShow fe [] es)
    | none => "bad-op"
  | _ => "bad-op"

end Ndn.Drv.C04
