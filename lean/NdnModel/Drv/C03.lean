import NdnModel.Pit
/-  Line protocol for the PIT model:
    `C03 <v1|v2> <t>@<ev>;<t>@<ev>;…`     (`.` = empty history); every event is preceded by `tick t`
      ev ::= x:<name>:<imp>:<cbp>:<lifetime>:<verdict>:<lat> | d:<name>:<digest>:<dataId>
           | n:<name>:<imp>:<reason> | c:<i> | s | t
      name ::= c1.c2.…  (`~` = empty)     imp ::= ~ | <digestId>
    answer: `ok <nodes>/<entries>/<errs> … | <i>=<state> … | <i>.<d>.<t> …`
      (PIT size and error count after each event, final state of every Interest, validator calls) -/
namespace Ndn.Drv.C03
open Ndn Ndn.Pit

def parseName (s : String) : Option Name :=
  if s == "~" then some [] else (s.splitOn ".").mapM String.toNat?

def parseOpt (s : String) : Option (Option Nat) :=
  if s == "~" then some none else s.toNat?.map some

def parseVerdict : String → Option Verdict
  | "FAIL" => some .fail | "TIMEOUT" => some .timeout | "SILENCE" => some .silence | "PASS" => some .pass
  | "ALLOW_BYPASS" => some .allowBypass | "RAISE_TIMEOUT" => some .raiseTimeout | "RAISE_OTHER" => some .raiseOther
  | _ => none

def showVerdict : Verdict → String
  | .fail => "FAIL" | .timeout => "TIMEOUT" | .silence => "SILENCE" | .pass => "PASS"
  | .allowBypass => "ALLOW_BYPASS" | .raiseTimeout => "RAISE_TIMEOUT" | .raiseOther => "RAISE_OTHER"

def parseBool : String → Option Bool
  | "0" => some false | "1" => some true | _ => none

def parseEv (s : String) : Option Ev :=
  match s.splitOn ":" with
  | ["x", nm, imp, cbp, life, v, lat] => do
    let life ← life.toNat?
    if life = 0 then none
    pure (.express (← parseName nm) (← parseOpt imp) (← parseBool cbp) life (← parseVerdict v) (← lat.toNat?))
  | ["d", nm, dg, d] => do pure (.data (← parseName nm) (← dg.toNat?) (← d.toNat?))
  | ["n", nm, imp, r] => do pure (.nack (← parseName nm) (← parseOpt imp) (← r.toNat?))
  | ["c", i] => do pure (.cancel (← i.toNat?))
  | ["s"] => some .shutdown
  | _ => none

/-- `<t>@<ev>` → `[tick t, ev]`; `<t>@t` → `[tick t]` -/
def parseTimed (s : String) : Option (List Ev) :=
  match s.splitOn "@" with
  | [t, e] => do
    let t ← t.toNat?
    if e == "t" then pure [.tick t] else pure [.tick t, ← parseEv e]
  | _ => none

def showOutcome : Outcome → String
  | .data d => "D" ++ toString d
  | .nack r => "N" ++ toString r
  | .timeout => "T"
  | .cancelled => "C"
  | .valFail d v => "F" ++ toString d ++ "." ++ showVerdict v
  | .validatorError d => "E" ++ toString d

def showSt : IState → String
  | .waiting => "W"
  | .validating d fin => "V" ++ toString d ++ "@" ++ toString fin
  | .done o t => showOutcome o ++ "@" ++ toString t

def showObs (σ : State) : String :=
  let p := pitSize σ
  toString p.1 ++ "/" ++ toString p.2 ++ "/" ++ toString σ.errs.length

def runShow (fe : FrontEnd) (σ : State) : List (List Ev) → List String × State
  | [] => ([], σ)
  | g :: r =>
    let σ' := g.foldl (step fe) σ
    let (os, σf) := runShow fe σ' r
    (showObs σ' :: os, σf)

def showFinal (σ : State) : String :=
  let is := (List.range σ.sts.length).zip σ.sts
  let a := if is.isEmpty then "." else " ".intercalate (is.map fun p => toString p.1 ++ "=" ++ showSt p.2)
  let b := if σ.vcalls.isEmpty then "." else
    " ".intercalate (σ.vcalls.map fun c => toString c.1 ++ "." ++ toString c.2.1 ++ "." ++ toString c.2.2)
  a ++ " | " ++ b

def handle (args : List String) : String :=
  match args with
  | [fe, evs] =>
    let fe? : Option FrontEnd := if fe == "v1" then some .v1 else if fe == "v2" then some .v2 else none
    match fe?, (if evs == "." then some [] else (evs.splitOn ";").mapM parseTimed) with
    | some fe, some gs =>
      let (os, σ) := runShow fe init gs
      "ok " ++ (if os.isEmpty then "." else " ".intercalate os) ++ " | " ++ showFinal σ
    | _, _ => "bad-op"
  | _ => "bad-op"

end Ndn.Drv.C03
