import NdnModel.Pit
/-  Line protocol for the PIT model:
    `C03 <v1|v2> <turn>;<turn>;…`     (`.` = empty history)
      turn ::= <t>@<ev>+<ev>+…  |  <t>@t          the events that share the loop turn of instant <t> (`t`: none)
      ev ::= x:<name>:<imp>:<cbp>:<lifetime>:<verdict>:<lat>:<defer>:<nr> | d:<name>:<digest>:<dataId>
           | n:<name>:<imp>:<reason> | c:<i> | s
      name ::= c1.c2.…  (`~` = empty)     imp ::= ~ | <digestId>     cbp, nr ::= 0 | 1
    answer: `ok <nodes>/<entries>/<errs> … | <i>=<state> … | <i>.<d>.<t> … | <alt> ; <alt> …`
      (PIT size and error count after each turn, final state of every Interest, validator calls - all three for the
       plain reading: timers first, then the events as listed; then the final state vectors of the other
       linearisations - each event before or after the timers of its instant, the events of a turn in any order -
       that differ from the plain reading's, `.` when there is none) -/
namespace Ndn.Drv.C03
open Ndn Ndn.Pit

def parseName (s : String) : Option Name :=
  if s == "~" then some [] else (s.splitOn ".").mapM String.toNat?

def parseOpt (s : String) : Option (Option Nat) :=
  if s == "~" then some none else s.toNat?.map some

def parseVerdict : String → Option Verdict
  | "FAIL" => some .fail | "TIMEOUT" => some .timeout | "SILENCE" => some .silence | "PASS" => some .pass
  | "ALLOW_BYPASS" => some .allowBypass | "RAISE_TIMEOUT" => some .raiseTimeout | "RAISE_OTHER" => some .raiseOther
  | "OTHER" => some .other
  | _ => none

def showVerdict : Verdict → String
  | .fail => "FAIL" | .timeout => "TIMEOUT" | .silence => "SILENCE" | .pass => "PASS"
  | .allowBypass => "ALLOW_BYPASS" | .raiseTimeout => "RAISE_TIMEOUT" | .raiseOther => "RAISE_OTHER"
  | .other => "OTHER"

def parseBool : String → Option Bool
  | "0" => some false | "1" => some true | _ => none

def parseEv (fe : FrontEnd) (s : String) : Option Ev :=
  match s.splitOn ":" with
  | ["x", nm, imp, cbp, life, v, lat, defer, nr] => do
    pure (.express (← parseName nm) (← parseOpt imp) (← parseBool cbp) (lifeOf fe (← parseOpt life)) (← parseVerdict v)
      (← lat.toNat?) (← defer.toNat?) (← parseBool nr))
  | ["d", nm, dg, d] => do pure (.data (← parseName nm) (← dg.toNat?) (← d.toNat?))
  | ["n", nm, imp, r] => do pure (.nack (← parseName nm) (← parseOpt imp) (← r.toNat?))
  | ["c", i] => do pure (.cancel (← i.toNat?))
  | ["s"] => some .shutdown
  | _ => none

/-- `<t>@<ev>+<ev>` → the turn; `<t>@t` → a turn without events -/
def parseTurn (fe : FrontEnd) (s : String) : Option Turn :=
  match s.splitOn "@" with
  | [t, e] => do
    let t ← t.toNat?
    if e == "t" then pure ⟨t, []⟩ else pure ⟨t, ← (e.splitOn "+").mapM (parseEv fe)⟩
  | _ => none

def showOutcome : Outcome → String
  | .data d => "D" ++ toString d
  | .nack r => "N" ++ toString r
  | .timeout => "T"
  | .cancelled => "C"
  | .valFail d v => "F" ++ toString d ++ "." ++ showVerdict v
  | .validatorError d => "E" ++ toString d
  | .noResponse => "R"

def showSt : IState → String
  | .waiting => "W"
  | .validating d fin => "V" ++ toString d ++ "@" ++ toString fin
  | .done o t => showOutcome o ++ "@" ++ toString t
  | .held o => "H" ++ showOutcome o

def showObs (σ : State) : String :=
  let p := pitSize σ
  toString p.1 ++ "/" ++ toString p.2 ++ "/" ++ toString σ.errs.length

/-- turn by turn: the plain reading (observed after every turn) and the set of states of all linearisations -/
def runShow (fe : FrontEnd) (σ : State) (S : List State) : List Turn → List String × State × List State
  | [] => ([], σ, S)
  | u :: r =>
    let σ' := (Ev.tick u.t :: u.evs).foldl (step fe) σ
    let (os, σf, Sf) := runShow fe σ' (stepTurn fe S u) r
    (showObs σ' :: os, σf, Sf)

def showSts (sts : List IState) : String :=
  let is := (List.range sts.length).zip sts
  if is.isEmpty then "." else " ".intercalate (is.map fun p => toString p.1 ++ "=" ++ showSt p.2)

def showFinal (σ : State) : String :=
  let b := if σ.vcalls.isEmpty then "." else
    " ".intercalate (σ.vcalls.map fun c => toString c.1 ++ "." ++ toString c.2.1 ++ "." ++ toString c.2.2)
  showSts σ.sts ++ " | " ++ b

def handle (args : List String) : String :=
  match args with
  | [fe, evs] =>
    let fe? : Option FrontEnd := if fe == "v1" then some .v1 else if fe == "v2" then some .v2 else none
    if !tableOk then "bad-table" else
    match fe? with
    | none => "bad-op"
    | some fe =>
    match (if evs == "." then some [] else (evs.splitOn ";").mapM (parseTurn fe)) with
    | none => "bad-op"
    | some h =>
      let (os, σ, S) := runShow fe init [init] h
      let alts := dedup ((S.map (·.sts)).filter (· != σ.sts))
      "ok " ++ (if os.isEmpty then "." else " ".intercalate os) ++ " | " ++ showFinal σ ++ " | " ++
        (if alts.isEmpty then "." else " ; ".intercalate (alts.map showSts))
  | _ => "bad-op"

end Ndn.Drv.C03
