import NdnModel.Lvs.CProto
/-  Driver of C11: the LVS line protocol (see NdnModel/Lvs/Proto.lean) extended with the compiler model
    (NdnModel/Lvs/CProto.lean).  -/
namespace Ndn.Drv.C11

def handle (args : List String) : String := Ndn.Lvs.CProto.handle args

end Ndn.Drv.C11
