import NdnModel.Lvs.Proto
/-  Driver of C11: the LVS line protocol (see NdnModel/Lvs/Proto.lean).  -/
namespace Ndn.Drv.C11

def handle (args : List String) : String := Ndn.Lvs.Proto.handle args

end Ndn.Drv.C11
