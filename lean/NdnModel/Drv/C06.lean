import NdnModel.Framing
import NdnModel.StreamReader
import NdnModel.FaceTasks
import NdnModel.ReceiveBytes
import NdnModel.Sha256
import NdnGen.C06
/-  Line protocol for the C06 models.
    `C06 frames <hex>`                → `ok <typ>:<hex>,… | <remhex>`   (`.` = no packet)
    `C06 chunks <hex>|<hex>|…|<end>`  the chunked machine (NdnModel/StreamReader.lean) fed the chunks one by one
        (`-` = empty chunk), then <end> ::= eof | reset | other | none
        → `ok <n1>,<n2>,… ; <typ>:<hex>,… | <remhex> ; <status>`   n_i = number of packets handed over after the
        i-th event (the end counts as an event), the packets, the bytes the face held before the end
        (`bio` ++ reader buffer), status ::= running | shutdown | crashed:<cls>
    `C06 udp <hex>`                   → `ok none` | `ok <typ>` | `err <cls>`
    `C06 recv <v2|v1> <pit> <fib> <pkt> <pkt> …`
        pit  ::= `.` | entry;entry…      entry ::= <name>=<pend>+<pend>…   pend ::= <id>/<0|1>/<digesthex>
        fib  ::= `.` | <name>;<name>…    name ::= `~` (empty) | <comphex>_<comphex>…
        pkt  ::= <typ>,<lp>,<tl>,<int>,<data>[,<wirehex>]   (decoder outcomes for this packet, and its bytes)
        lp   ::= E:<cls> | F:<nack>:<tok>:<frag>   nack ::= ~ | n | <reason>   tok, frag ::= ~ | <hex>
        tl   ::= E:<cls> | <typ>
        int  ::= E:<cls> | <name>:<sigRequired 0|1>:<digestOk 0|1>
        data ::= E:<cls> | <name>:<digesthex>
      answer: one token per packet  `ok:<eff>+<eff>…` (`ok:-` = none) or `err:<cls>`, then `@<pit>`
        eff ::= N<id>:<reason> | S<id> | I<name>:<tok>
      when every pkt carries its bytes the answer continues with ` # ` and the same trace computed by the
      byte-level pipeline `Ndn.RecvBytes.receiveBytes` (decoder models of C07, SHA-256 of NdnModel/Sha256.lean)
      from the bytes alone, ignoring the given decoder outcomes
    `C06 tasks <ev> <ev> …`          the task layer (NdnModel/FaceTasks.lean) over the history
        ev ::= f:<hex> (feed) | c:<hex> (bytes and EOF in one pass; `c:-` = EOF) | x:reset | x:other | sd (shutdown)
             | t (turn) | s1 (head task only) | r:<k> (receive step of task k raises)
        → `ok <p>/<q>,… ; <processed pkts> ; <queued pkts> ; <status> ; <running 0|1> ; <errors k,k,…|.> ; <cleanup n|.>`
        p/q after each event = packets whose receive step was entered / tasks still queued; cleanup = number of
        packets received when `_clean_up` ran (the black box here counts calls)
    `C06 utasks <ev> <ev> …`         the same for the UDP face: ev ::= d:<hex> (datagram) | lost | sd | t | s1 | r:<k>
        → as for `tasks`, then ` ; <cls,cls,…|.>` = exceptions that left datagram_received -/
namespace Ndn.Drv.C06
open Ndn Ndn.Recv Ndn.Framing

def errOfName (s : String) : Option PyErr :=
  [PyErr.indexError, .structError, .valueError, .typeError, .keyError, .decodeError, .invalidState,
   .attributeError, .unicodeError, .overflowError, .other].find? fun e => e.name == s

def parseName (s : String) : Option NameKey :=
  if s == "~" then some [] else (s.splitOn "_").mapM fromHex

def showName (n : NameKey) : String :=
  if n.isEmpty then "~" else "_".intercalate (n.map toHex)

def optHex (s : String) : Option (Option Bytes) :=
  if s == "~" then some none else (fromHex s).map some

def showOptHex : Option Bytes → String
  | none => "~"
  | some b => toHex b

def bit (s : String) : Option Bool :=
  if s == "1" then some true else if s == "0" then some false else none

def parsePend (s : String) : Option Pending :=
  match s.splitOn "/" with
  | [i, c, d] => do pure { id := ← i.toNat?, canBePrefix := ← bit c, digest := ← fromHex d }
  | _ => none

def parsePit (s : String) : Option (PyDict NameKey (List Pending)) :=
  if s == "." then some [] else
  (s.splitOn ";").mapM fun e =>
    match e.splitOn "=" with
    | [n, ps] => do pure (← parseName n, ← (ps.splitOn "+").mapM parsePend)
    | _ => none

def showPit (p : PyDict NameKey (List Pending)) : String :=
  if p.isEmpty then "." else
  ";".intercalate (p.map fun e => showName e.1 ++ "=" ++ "+".intercalate (e.2.map fun q =>
    toString q.id ++ "/" ++ (if q.canBePrefix then "1" else "0") ++ "/" ++ toHex q.digest))

def parseFib (s : String) : Option (List NameKey) :=
  if s == "." then some [] else (s.splitOn ";").mapM parseName

def outcome {α} (s : String) (f : String → Option α) : Option (Except PyErr α) :=
  if s.startsWith "E:" then (errOfName (s.drop 2).toString).map .error else (f s).map .ok

def parseLpFacts (s : String) : Option LpFacts :=
  match s.splitOn ":" with
  | ["F", n, t, f] => do
    let nack ← if n == "~" then some none else if n == "n" then some (some none) else n.toNat?.map (some ∘ some)
    pure { nack := nack, pitToken := ← optHex t, fragment := ← optHex f }
  | _ => none

def parseIntFacts (s : String) : Option IntFacts :=
  match s.splitOn ":" with
  | [n, a, b] => do pure { name := ← parseName n, sigRequired := ← bit a, digestOk := ← bit b }
  | _ => none

def parseDataFacts (s : String) : Option DataFacts :=
  match s.splitOn ":" with
  | [n, d] => do pure { name := ← parseName n, digest := ← fromHex d }
  | _ => none

def parsePkt (s : String) : Option (Nat × Decoders × Option Bytes) :=
  match s.splitOn "," with
  | t :: lp :: tl :: i :: d :: rest => do
    let w ← match rest with
      | [] => some none
      | [h] => (fromHex h).map some
      | _ => none
    let lp ← outcome lp parseLpFacts
    let tl ← outcome tl String.toNat?
    let i ← outcome i parseIntFacts
    let d ← outcome d parseDataFacts
    pure (← t.toNat?, { lp := fun _ => lp, tl := fun _ => tl, interest := fun _ => i, data := fun _ => d }, w)
  | _ => none

def showEff : Effect → String
  | .nacked i r => "N" ++ toString i ++ ":" ++ toString r
  | .satisfied i => "S" ++ toString i
  | .invoke p t => "I" ++ showName p ++ ":" ++ showOptHex t

def runPkts {π} (step : State → π → Except PyErr Res) (st : State) : List π → List String
  | [] => ["@" ++ showPit st.pit]
  | p :: r =>
    match step st p with
    | .ok (st', effs) =>
      ("ok:" ++ (if effs.isEmpty then "-" else "+".intercalate (effs.map showEff))) :: runPkts step st' r
    | .error e => ("err:" ++ e.name) :: runPkts step st r

/-- the trace from the given decoder outcomes, then (when the bytes are there) from the bytes alone -/
def runBoth (g : Guards) (st : State) (ps : List (Nat × Decoders × Option Bytes)) : List String :=
  runPkts (fun st (p : Nat × Decoders × Option Bytes) => receive g p.2.1 st p.1 []) st ps ++
  match ps.mapM fun p => p.2.2.map fun w => (p.1, w) with
  | some ws => "#" :: runPkts (fun st (p : Nat × Bytes) => RecvBytes.receiveBytes g Sha256.sha256 st p.1 p.2) st ws
  | none => []

def showPkts (ps : List (Nat × Bytes)) : String :=
  if ps.isEmpty then "." else ",".intercalate (ps.map fun p => toString p.1 ++ ":" ++ toHex p.2)

def parseEnd (s : String) : Option (List StreamReader.Event) :=
  if s == "eof" then some [.feedEof]
  else if s == "reset" then some [.setException .connectionReset]
  else if s == "other" then some [.setException .other]
  else if s == "none" then some []
  else none

def showStatus : StreamReader.Status → String
  | .running => "running" | .shutdown => "shutdown" | .crashed e => "crashed:" ++ e.name

def chunked (spec : String) : String :=
  let toks := spec.splitOn "|"
  match toks.dropLast.mapM fromHex, toks.getLast?.bind parseEnd with
  | some cs, some fin =>
    let caught := Gen.C06.streamCaught
    let before := StreamReader.run caught (cs.map .feed)
    let tr := StreamReader.trace caught (cs.map .feed ++ fin)
    let last := StreamReader.run caught (cs.map .feed ++ fin)
    "ok " ++ (if tr.isEmpty then "." else ",".intercalate (tr.map fun a => toString a.2.length))
      ++ " ; " ++ showPkts last.2 ++ " | " ++ toHex (before.1.phase.bio ++ before.1.reader.buf)
      ++ " ; " ++ showStatus last.1.status
  | _, _ => "bad-op"

def parseEv (s : String) : Option FaceTasks.Ev :=
  if s == "sd" then some .shutdown
  else if s == "t" then some .turn
  else if s == "s1" then some .step1
  else if s == "x:reset" then some (.exc .connectionReset)
  else if s == "x:other" then some (.exc .other)
  else if s.startsWith "f:" then (fromHex (s.drop 2).toString).map .feed
  else if s.startsWith "c:" then (fromHex (s.drop 2).toString).map .close
  else if s.startsWith "r:" then (s.drop 2).toString.toNat?.map .raise
  else none

/-- the black box of the driver: counts the receive calls; `_clean_up` notes how many there had been -/
def taskHooks : FaceTasks.Hooks (Nat × List Nat) :=
  { recv := fun a _ => ((a.1 + 1, a.2), false), fail := fun a _ => (a.1 + 1, a.2), cleanup := fun a => (a.1, a.2 ++ [a.1]) }

def tasks (toks : List String) : String :=
  match toks.mapM parseEv with
  | none => "bad-op"
  | some evs =>
    let caught := Gen.C06.streamCaught
    let st0 := FaceTasks.init caught ((0, []) : Nat × List Nat)
    let tr := FaceTasks.traceFrom caught taskHooks st0 evs
    let fin := FaceTasks.runFrom caught taskHooks st0 evs
    "ok " ++ (if tr.isEmpty then "." else ",".intercalate (tr.map fun s => toString s.processed.length ++ "/" ++ toString s.queue.length))
      ++ " ; " ++ showPkts fin.processed ++ " ; " ++ showPkts fin.queue ++ " ; " ++ showStatus fin.face.status
      ++ " ; " ++ (if fin.running then "1" else "0")
      ++ " ; " ++ (if fin.errors.isEmpty then "." else ",".intercalate (fin.errors.map toString))
      ++ " ; " ++ (match fin.app.2 with | [] => "." | n :: _ => toString n)

def parseUEv (s : String) : Option FaceTasks.Udp.Ev :=
  if s == "sd" then some .shutdown
  else if s == "t" then some .turn
  else if s == "s1" then some .step1
  else if s == "lost" then some .lost
  else if s.startsWith "d:" then (fromHex (s.drop 2).toString).map .dgram
  else if s.startsWith "r:" then (s.drop 2).toString.toNat?.map .raise
  else none

def utasks (toks : List String) : String :=
  match toks.mapM parseUEv with
  | none => "bad-op"
  | some evs =>
    let caught := Gen.C06.udpCaught
    let u0 := FaceTasks.Udp.init ((0, []) : Nat × List Nat)
    let tr := FaceTasks.Udp.traceFrom caught taskHooks u0 evs
    let fin := FaceTasks.Udp.runFrom caught taskHooks u0 evs
    "ok " ++ (if tr.isEmpty then "." else ",".intercalate (tr.map fun u => toString u.st.processed.length ++ "/" ++ toString u.st.queue.length))
      ++ " ; " ++ showPkts fin.st.processed ++ " ; " ++ showPkts fin.st.queue ++ " ; " ++ showStatus fin.st.face.status
      ++ " ; " ++ (if fin.st.running then "1" else "0")
      ++ " ; " ++ (if fin.st.errors.isEmpty then "." else ",".intercalate (fin.st.errors.map toString))
      ++ " ; " ++ (match fin.st.app.2 with | [] => "." | n :: _ => toString n)
      ++ " ; " ++ (if fin.cbErrors.isEmpty then "." else ",".intercalate (fin.cbErrors.map (·.name)))

def handle (args : List String) : String :=
  match args with
  | "utasks" :: toks => utasks toks
  | "tasks" :: toks => tasks toks
  | ["chunks", spec] => chunked spec
  | ["frames", h] =>
    match fromHex h with
    | some s =>
      let (ps, rem) := frames s
      "ok " ++ (if ps.isEmpty then "." else ",".intercalate (ps.map fun p => toString p.1 ++ ":" ++ toHex p.2))
        ++ " | " ++ toHex rem
    | none => "bad-op"
  | ["udp", h] =>
    match fromHex h with
    | some s =>
      match datagramReceived Gen.C06.udpCaught s with
      | .ok none => "ok none"
      | .ok (some (t, _)) => "ok " ++ toString t
      | .error e => "err " ++ e.name
    | none => "bad-op"
  | "recv" :: fe :: pit :: fib :: pkts =>
    match (if fe == "v2" then some Gen.C06.v2 else if fe == "v1" then some Gen.C06.v1 else none),
          parsePit pit, parseFib fib, pkts.mapM parsePkt with
    | some g, some p, some f, some ps => " ".intercalate (runBoth g { pit := p, fib := f } ps)
    | _, _, _, _ => "bad-op"
  | _ => "bad-op"

end Ndn.Drv.C06
