import NdnModel.SvsBytes
/-  Line protocol for the SVS model:
    `C18 <selfIdHex> <seq0> <ev>;<ev>;…`   ev ::= r:<entry>|<entry>…  | r:  | u | p | t | b:<componentHex>[=<lib>]
                                                  | c<k>:<componentHex>[=<lib>] | x<k>:<componentHex>[=<lib>]
    entry ::= <idHex or ~>/<seq or ~>
    `c<k>:` / `x<k>:` = `b:` with an application callback that calls new_data() k times and then returns / raises.
    Every event is run through the statement-level model `Ndn.Svs.stepXB` (handler statement by statement,
    next_sync_timing / timer_rst_event in the state, then the timer task).
    `b:` carries the bytes of the name component `name[-2]`; the model decodes them itself
    (`Ndn.Svs.stepBytes`: generic TLV decoder over the regenerated StateVecWrapper schema); the optional
    `=<lib>` is what the library's own decoder made of the same bytes (r:<entries> | x:<class>) — a token
    is prefixed `DECODER-MISMATCH:` when the model's decoder disagrees with it.
    answer: one token per event  `<outs>@<local>~<state><due>[*][#<emittedHex>,…]`
      outs ::= - | M | E(<vec>) joined by +, followed by `!callback` when the callback's exception propagated
               |  !<exception class> (the decoder's exception propagated; nothing happened)
      state ::= T (SyncSteady) | S (SyncSuppression);  due ::= s (a steady period) | u (a suppression period) | n (now);
      `*` = timer_rst_event still set after the timer task ran
      after `#`: for every emitted vector the bytes of the name component the sync Interest carries
      (`Ndn.Svs.encodeVector`), or `err:<class>` -/
namespace Ndn.Drv.C18
open Ndn Ndn.Svs

def showVec (v : Vec) : String :=
  if v.isEmpty then "." else ",".intercalate (v.map fun p => toHex p.1 ++ ":" ++ toString p.2)

def showOut : Out → String
  | .missing => "M"
  | .emit v => "E(" ++ showVec v ++ ")"

def parseEntry (s : String) : Option Entry :=
  match s.splitOn "/" with
  | [a, b] => do
    let i ← if a == "~" then some none else (fromHex a).map some
    let q ← if b == "~" then some none else b.toNat?.map some
    pure (i, q)
  | _ => none

/-- what the library's own decoder said about the same bytes (cross-check of the model's decoder) -/
inductive Expect where
  | decoded (es : List Entry)
  | raises (cls : String)       -- `StateVecWrapper.parse` raised this class

def parseExpect (s : String) : Option Expect :=
  if s.startsWith "x:" then some (.raises (s.drop 2).toString)
  else if s == "r:" then some (.decoded [])
  else if s.startsWith "r:" then ((s.drop 2).toString.splitOn "|").mapM parseEntry |>.map .decoded
  else none

def agrees (comp : Bytes) : Expect → Bool
  | .decoded es => match decodeVectorE comp with | .ok es' => es' == es | .error _ => false
  | .raises c => match decodeVectorE comp with | .ok _ => false | .error e => e.name == c

def parseRaw (s : String) (cb : Cb) : Option (EvXB × Option Expect) :=
  match s.splitOn "=" with
  | [h] => (fromHex h).map fun b => (.raw b cb, none)
  | [h, x] => do
    let b ← fromHex h
    let e ← parseExpect x
    pure (.raw b cb, some e)
  | _ => none

def parseEv (s : String) : Option (EvXB × Option Expect) :=
  if s == "u" then some (.ev .undecodable, none)
  else if s == "p" then some (.ev .publish, none)
  else if s == "t" then some (.ev .timer, none)
  else if s.startsWith "r:" then
    let body := (s.drop 2).toString
    if body == "" then some (.ev (.recv []), none)
    else (body.splitOn "|").mapM parseEntry |>.map (fun es => (.ev (.recv es), none))
  else if s.startsWith "b:" then parseRaw (s.drop 2).toString ⟨0, false⟩
  else if s.startsWith "c" || s.startsWith "x" then
    match (s.drop 1).toString.splitOn ":" with
    | k :: rest => if rest.isEmpty then none else do
      let n ← k.toNat?
      parseRaw (":".intercalate rest) ⟨n, s.startsWith "x"⟩
    | _ => none
  else none

def showEmitted : Out → List String
  | .missing => []
  | .emit v => match encodeVector v with
    | .ok b => [toHex b]
    | .error e => ["err:" ++ e.name]

def showTimer (t : TState) : String :=
  (if t.st.suppress then "S" else "T") ++
  (match t.due with | .steady => "s" | .sup => "u" | .now => "n") ++ (if t.rst then "*" else "")

def runShow (t : TState) : List (EvXB × Option Expect) → List String
  | [] => []
  | (e, x) :: r =>
    let (t', res) := stepXB t e
    let bad := match e, x with
      | .raw comp _, some ex => !agrees comp ex
      | _, _ => false
    let tail := "@" ++ showVec t'.st.loc ++ "~" ++ showTimer t'
    let tok := match res with
      | .error x => "!" ++ x.name ++ tail
      | .ok o =>
        let os := if o.outs.isEmpty then "-" else "+".intercalate (o.outs.map showOut)
        let em := o.outs.flatMap showEmitted
        os ++ (if o.raised then "!callback" else "") ++ tail ++ (if em.isEmpty then "" else "#" ++ ",".intercalate em)
    (if bad then "DECODER-MISMATCH:" ++ tok else tok) :: runShow t' r

def handle (args : List String) : String :=
  match args with
  | [sid, seq0, evs] =>
    match fromHex sid, seq0.toNat?, (if evs == "." then some [] else (evs.splitOn ";").mapM parseEv) with
    | some i, some q, some es => "ok " ++ " ".intercalate (runShow (initX i q) es)
    | _, _, _ => "bad-op"
  | _ => "bad-op"

end Ndn.Drv.C18
