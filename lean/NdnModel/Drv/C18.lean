import NdnModel.SvsBytes
/-  Line protocol for the SVS model:
    `C18 <selfIdHex> <seq0> <ev>;<ev>;…`   ev ::= r:<entry>|<entry>…  | r:  | u | p | t | b:<componentHex>[=<lib>]
    entry ::= <idHex or ~>/<seq or ~>
    `b:` carries the bytes of the name component `name[-2]`; the model decodes them itself
    (`Ndn.Svs.stepBytes`: generic TLV decoder over the regenerated StateVecWrapper schema); the optional
    `=<lib>` is what the library's own decoder made of the same bytes (r:<entries> | x:<class>) — a token
    is prefixed `DECODER-MISMATCH:` when the model's decoder disagrees with it.
    answer: one token per event  `<outs>@<local>[#<emittedHex>,…]`
      outs ::= - | M | E(<vec>) joined by +  |  !<exception class> (the handler raised; `b:` only)
      after `#`: for every emitted vector the bytes of the name component the sync Interest carries
      (`Ndn.Svs.encodeVector`), or `err:<class>` -/
namespace Ndn.Drv.C18
open Ndn Ndn.Svs

def showVec (v : Vec) : String :=
  if v.isEmpty then "." else ",".intercalate (v.map fun p => toHex p.1 ++ ":" ++ toString p.2)

def showOut : Out → String
  | .missing => "M"
  | .emit v => "E(" ++ showVec v ++ ")"

def parseEntry (s : String) : Option Entry :=
  match s.splitOn "/" with
  | [a, b] => do
    let i ← if a == "~" then some none else (fromHex a).map some
    let q ← if b == "~" then some none else b.toNat?.map some
    pure (i, q)
  | _ => none

/-- what the library's own decoder said about the same bytes (cross-check of the model's decoder) -/
inductive Expect where
  | decoded (es : List Entry)
  | raises (cls : String)       -- `StateVecWrapper.parse` raised this class

def parseExpect (s : String) : Option Expect :=
  if s.startsWith "x:" then some (.raises (s.drop 2).toString)
  else if s == "r:" then some (.decoded [])
  else if s.startsWith "r:" then ((s.drop 2).toString.splitOn "|").mapM parseEntry |>.map .decoded
  else none

def agrees (comp : Bytes) : Expect → Bool
  | .decoded es => match decodeVectorE comp with | .ok es' => es' == es | .error _ => false
  | .raises c => match decodeVectorE comp with | .ok _ => false | .error e => e.name == c

def parseEv (s : String) : Option (EvB × Option Expect) :=
  if s == "u" then some (.ev .undecodable, none)
  else if s == "p" then some (.ev .publish, none)
  else if s == "t" then some (.ev .timer, none)
  else if s.startsWith "r:" then
    let body := (s.drop 2).toString
    if body == "" then some (.ev (.recv []), none)
    else (body.splitOn "|").mapM parseEntry |>.map (fun es => (.ev (.recv es), none))
  else if s.startsWith "b:" then
    match (s.drop 2).toString.splitOn "=" with
    | [h] => (fromHex h).map fun b => (.raw b, none)
    | [h, x] => do
      let b ← fromHex h
      let e ← parseExpect x
      pure (.raw b, some e)
    | _ => none
  else none

def showEmitted : Out → List String
  | .missing => []
  | .emit v => match encodeVector v with
    | .ok b => [toHex b]
    | .error e => ["err:" ++ e.name]

def runShow (s : State) : List (EvB × Option Expect) → List String
  | [] => []
  | (e, x) :: r =>
    let (s', res) := stepB s e
    let bad := match e, x with
      | .raw comp, some ex => !agrees comp ex
      | _, _ => false
    let tok := match res with
      | .error x => "!" ++ x.name ++ "@" ++ showVec s'.loc
      | .ok o =>
        let os := if o.isEmpty then "-" else "+".intercalate (o.map showOut)
        let em := o.flatMap showEmitted
        os ++ "@" ++ showVec s'.loc ++ (if em.isEmpty then "" else "#" ++ ",".intercalate em)
    (if bad then "DECODER-MISMATCH:" ++ tok else tok) :: runShow s' r

def handle (args : List String) : String :=
  match args with
  | [sid, seq0, evs] =>
    match fromHex sid, seq0.toNat?, (if evs == "." then some [] else (evs.splitOn ";").mapM parseEv) with
    | some i, some q, some es => "ok " ++ " ".intercalate (runShow (init i q) es)
    | _, _, _ => "bad-op"
  | _ => "bad-op"

end Ndn.Drv.C18
