import NdnModel.Svs
/-  Line protocol for the SVS model:
    `C18 <selfIdHex> <seq0> <ev>;<ev>;…`   ev ::= r:<entry>|<entry>…  | r:  | u | p | t
    entry ::= <idHex or ~>/<seq or ~>
    answer: one token per event  `<outs>@<local>`  outs ::= - | M | E(<vec>) joined by +  -/
namespace Ndn.Drv.C18
open Ndn Ndn.Svs

def showVec (v : Vec) : String :=
  if v.isEmpty then "." else ",".intercalate (v.map fun p => toHex p.1 ++ ":" ++ toString p.2)

def showOut : Out → String
  | .missing => "M"
  | .emit v => "E(" ++ showVec v ++ ")"

def parseEntry (s : String) : Option Entry :=
  match s.splitOn "/" with
  | [a, b] => do
    let i ← if a == "~" then some none else (fromHex a).map some
    let q ← if b == "~" then some none else b.toNat?.map some
    pure (i, q)
  | _ => none

def parseEv (s : String) : Option Ev :=
  if s == "u" then some .undecodable
  else if s == "p" then some .publish
  else if s == "t" then some .timer
  else if s.startsWith "r:" then
    let body := (s.drop 2).toString
    if body == "" then some (.recv []) else (body.splitOn "|").mapM parseEntry |>.map .recv
  else none

def runShow (s : State) : List Ev → List String
  | [] => []
  | e :: r =>
    let (s', o) := step s e
    let os := if o.isEmpty then "-" else "+".intercalate (o.map showOut)
    (os ++ "@" ++ showVec s'.loc) :: runShow s' r

def handle (args : List String) : String :=
  match args with
  | [sid, seq0, evs] =>
    match fromHex sid, seq0.toNat?, (if evs == "." then some [] else (evs.splitOn ";").mapM parseEv) with
    | some i, some q, some es => "ok " ++ " ".intercalate (runShow (init i q) es)
    | _, _, _ => "bad-op"
  | _ => "bad-op"

end Ndn.Drv.C18
