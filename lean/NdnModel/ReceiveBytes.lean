import NdnModel.Receive
import NdnModel.PacketEnc
import NdnGen.C07
/-
  Byte-level instantiation of the decoder parameter of the receive pipeline (NdnModel/Receive.lean):
  the four black boxes `Decoders.lp / .tl / .interest / .data` are defined from the byte-level packet
  decoder models of property C07 (`Ndn.Packet.decodePacket` over the packet schemas regenerated from the
  live classes, lean/NdnGen/C07.lean) and `Ndn.parseTlNum`, followed by reading off the few facts the
  pipeline looks at:
    src/ndn/encoding/ndnlp_v2.py       : parse_lp_packet_v2  → `lp_pkt.nack`, `.nack.nack_reason`,
                                         `.pit_token`, `.fragment`
    src/ndn/encoding/tlv_var.py        : parse_tl_num(fragment)[0]
    src/ndn/encoding/ndn_format_0_3.py : parse_interest → name, `app_param is not None`,
                                         `sig.signature_info is not None`, the digest pointers handed to
                                         `params_sha256_checker`;  parse_data → name
  SHA-256 is a parameter `H` (the theorems hold for every function; the driver passes `Ndn.Sha256.sha256`).
-/
namespace Ndn.RecvBytes
open Ndn Ndn.Codec Ndn.Packet Ndn.Recv

/-- schema and value of the first field whose Type number is `t` (an absent optional field has value `.none`) -/
def field : List Schema → List Value → Nat → Option (Schema × Value)
  | s :: ss, v :: vs, t => if s.typ = some t then some (s, v) else field ss vs t
  | _, _, _ => none

/-- `obj.<bytes field> `: `None` or the bytes -/
def bytesField (fs : List Schema) (vs : List Value) (t : Nat) : Option Bytes :=
  match field fs vs t with
  | some (_, .bytes b) => some b
  | _ => none

/-- `obj.<field> is not None` -/
def present (fs : List Schema) (vs : List Value) (t : Nat) : Bool :=
  match field fs vs t with
  | some (_, .none) => false
  | some _ => true
  | none => false

/-- `obj.name` (`[]` cannot occur for an accepted packet: the decoders require the Name) -/
def nameField (fs : List Schema) (vs : List Value) : NameKey :=
  match field fs vs 7 with
  | some (_, .name cs) => cs
  | _ => []

/-- LpTypeNumber.NACK / NACK_REASON / PIT_TOKEN / FRAGMENT -/
def tNack : Nat := 800
def tNackReason : Nat := 801
def tPitToken : Nat := 98
def tFragment : Nat := 80
/-- TypeNumber.APPLICATION_PARAMETERS / INTEREST_SIGNATURE_INFO -/
def tAppParam : Nat := 36
def tIntSigInfo : Nat := 44

/-- `lp_pkt.nack` / `lp_pkt.nack.nack_reason` -/
def nackField (fs : List Schema) (vs : List Value) : Option (Option Nat) :=
  match field fs vs tNack with
  | some (.model _ sub _, .model ms) =>
    some (match field sub ms tNackReason with
          | some (_, .uint r) => some r
          | _ => none)
  | _ => none

def lpFacts (vs : List Value) : LpFacts :=
  { nack := nackField Gen.C07.lp vs,
    pitToken := bytesField Gen.C07.lp vs tPitToken,
    fragment := bytesField Gen.C07.lp vs tFragment }

/-- `parse_lp_packet_v2(wire, with_tl=True)` reduced to what `_receive` reads -/
def lpDec (wire : Bytes) : Except PyErr LpFacts :=
  (decodePacket Gen.C07.lp 100 true false [82, 83] wire).map lpFacts

/-- `parse_tl_num(fragment)[0]` -/
def tlDec (frag : Bytes) : Except PyErr Nat := (parseTlNum frag 0).map (·.1)

def intFacts (H : Bytes → Bytes) (r : List Value × Ptrs) : IntFacts :=
  { name := nameField interestFs r.1,
    sigRequired := present interestFs r.1 tAppParam || present interestFs r.1 tIntSigInfo,
    digestOk := paramsCheck H r.2 }

/-- `parse_interest(wire, with_tl=True)` reduced to what `_receive` / `_on_interest` read.
    `Ndn.Packet.parseInterest` is `decodePacket interestFs 5 false true []` followed by the computation of
    the signature pointers; `interestFs` is the generated `Gen.C07.interest` (`interest_schema_eq`). -/
def intDec (H : Bytes → Bytes) (wire : Bytes) : Except PyErr IntFacts :=
  (parseInterest wire).map (intFacts H)

def dataFacts (H : Bytes → Bytes) (wire : Bytes) (vs : List Value) : DataFacts :=
  { name := nameField Gen.C07.data vs, digest := H wire }

/-- `parse_data(wire, with_tl=True)` reduced to what `_on_data` reads (name; SHA-256 of the whole packet) -/
def dataDec (H : Bytes → Bytes) (wire : Bytes) : Except PyErr DataFacts :=
  (decodePacket Gen.C07.data 6 false true [] wire).map (dataFacts H wire)

/-- the decoders of the receive pipeline, all four computed from the bytes -/
def bytesDecoders (H : Bytes → Bytes) : Decoders where
  lp := lpDec
  tl := tlDec
  interest := intDec H
  data := dataDec H

/-- `_receive(typ, wire)` of the front-end described by `g`, on bytes -/
def receiveBytes (g : Guards) (H : Bytes → Bytes) (st : State) (typ : Nat) (wire : Bytes) : Except PyErr Res :=
  receive g (bytesDecoders H) st typ wire

end Ndn.RecvBytes
