import NdnModel.Basic
/-
  Model of src/ndn/encoding/tlv_var.py : get_tl_num_size, write_tl_num, pack_uint_bytes,
  parse_tl_num, parse_and_check_tl.
-/
namespace Ndn

def be1 (v : Nat) : Bytes := [UInt8.ofNat v]
def be2 (v : Nat) : Bytes := [UInt8.ofNat (v / 256), UInt8.ofNat v]
def be4 (v : Nat) : Bytes :=
  [UInt8.ofNat (v / 16777216), UInt8.ofNat (v / 65536), UInt8.ofNat (v / 256), UInt8.ofNat v]
def be8 (v : Nat) : Bytes :=
  [UInt8.ofNat (v / 72057594037927936), UInt8.ofNat (v / 281474976710656),
   UInt8.ofNat (v / 1099511627776), UInt8.ofNat (v / 4294967296),
   UInt8.ofNat (v / 16777216), UInt8.ofNat (v / 65536), UInt8.ofNat (v / 256), UInt8.ofNat v]

/-- big-endian value of a byte string (`struct.unpack('!H'/'!I'/'!Q')`, any width). -/
def beVal (bs : Bytes) : Nat := bs.foldl (fun a b => a * 256 + b.toNat) 0

/-- `get_tl_num_size` -/
def tlNumSize (v : Nat) : Nat :=
  if v ≤ 0xFC then 1 else if v ≤ 0xFFFF then 3 else if v ≤ 0xFFFFFFFF then 5 else 9

/-- `write_tl_num` as the bytes it writes (for `v < 2^64`; `struct` raises otherwise). -/
def writeTlNum (v : Nat) : Bytes :=
  if v ≤ 0xFC then be1 v
  else if v ≤ 0xFFFF then 0xFD :: be2 v
  else if v ≤ 0xFFFFFFFF then 0xFE :: be4 v
  else 0xFF :: be8 v

/-- `pack_uint_bytes` -/
def packUint (v : Nat) : Bytes :=
  if v ≤ 0xFF then be1 v else if v ≤ 0xFFFF then be2 v else if v ≤ 0xFFFFFFFF then be4 v else be8 v

/-- `struct.unpack(fmt, buf[a:a+n])`: fails with struct.error unless the slice has exactly n bytes. -/
def unpackAt (buf : Bytes) (a n : Nat) : Except PyErr Nat :=
  let s := pySlice buf a (a + n)
  if s.length = n then .ok (beVal s) else .error .structError

/-- `parse_tl_num(buf, offset)` → (value, size).  Faithful: non-shortest forms are accepted,
    `IndexError` when `offset` is outside the buffer, `struct.error` on a short tail. -/
def parseTlNum (buf : Bytes) (off : Nat) : Except PyErr (Nat × Nat) :=
  match buf[off]? with
  | none => .error .indexError
  | some b =>
    if b.toNat ≤ 0xFC then .ok (b.toNat, 1)
    else if b.toNat = 0xFD then do let v ← unpackAt buf (off + 1) 2; pure (v, 3)
    else if b.toNat = 0xFE then do let v ← unpackAt buf (off + 1) 4; pure (v, 5)
    else do let v ← unpackAt buf (off + 1) 8; pure (v, 9)

/-- `parse_and_check_tl(wire, expected_type)` → the Value bytes. -/
def parseAndCheckTl (wire : Bytes) (expected : Nat) : Except PyErr Bytes := do
  let (typ, tl) ← parseTlNum wire 0
  let (size, sl) ← parseTlNum wire tl
  if typ ≠ expected then .error .valueError
  else if wire.length ≠ tl + sl + size then .error .indexError
  else pure (pySlice wire (tl + sl) (tl + sl + size))

/-- one TLV element -/
def tlv (t : Nat) (v : Bytes) : Bytes := writeTlNum t ++ writeTlNum v.length ++ v

end Ndn
