import NdnModel.Basic
/-
  Model of `ndn/app_support/segment_fetcher.py` over the legacy front-end (`NDNApp.express_interest`
  → Data | `InterestTimeout` | `InterestNack` | `ValidationFailure`) against a simulated producer.

  * the object is unsegmented, or a list of segments `0 … N-1`, each with a content (an identifier) and an
    optional FinalBlockId marker (the segment number it names);
  * `disc` says which segment answers the discovery Interest (CanBePrefix on the object prefix);
  * `script` is what happens to each Interest in the order they are sent: answered, lost (times out),
    Nack, or answered with Data that fails validation; past its end every Interest is answered.  An Interest
    for a segment that does not exist is never answered (a Nack can still come back for it);
  * `limit` is `retry_times`.

  The result records what the generator yielded, every Interest with what happened to it, and how the
  generator ended.  Loops carry fuel; `fetch` supplies enough (`NdnProofs`: no `fuel` result is reachable).
-/
namespace Ndn.SegFetch

inductive Outcome where
  | data | timeout | nack | invalid
  deriving DecidableEq, Repr

inductive Req where
  | disc
  | seg (i : Nat)
  deriving DecidableEq, Repr

inductive End where
  | done | timeout | nack | invalid | fuel
  deriving DecidableEq, Repr

structure Seg where
  content : Nat
  fbi : Option Nat
  deriving DecidableEq, Repr

inductive Obj where
  | unseg (content : Nat)
  | segs (l : List Seg)
  deriving Repr

structure Scenario where
  obj : Obj
  disc : Nat
  script : List Outcome
  limit : Nat

structure Result where
  yielded : List Nat
  log : List (Req × Outcome)
  end_ : End
  deriving DecidableEq, Repr

/-- next scripted outcome; an exhausted script answers -/
def pop : List Outcome → Outcome × List Outcome
  | [] => (.data, [])
  | o :: r => (o, r)

/-- what the consumer sees: nothing can be answered for Data that does not exist -/
def eff (o : Outcome) (ex : Bool) : Outcome :=
  match o with
  | .nack => .nack
  | o => if ex then o else .timeout

/-- result of the inner `retry` coroutine -/
inductive RRes where
  | ok | timeout | nack | invalid | fuel
  deriving DecidableEq, Repr

/-- `retry(first)`: `trial` is `trial_times`; returns the result, the rest of the script, and the outcome of
    every Interest it sent -/
def retry (limit : Nat) (ex : Bool) : (fuel trial : Nat) → List Outcome → RRes × List Outcome × List Outcome
  | 0, _, sc => (.fuel, sc, [])
  | fuel + 1, trial, sc =>
    match eff (pop sc).1 ex with
    | .data => (.ok, (pop sc).2, [.data])
    | .nack => (.nack, (pop sc).2, [.nack])
    | .invalid => (.invalid, (pop sc).2, [.invalid])
    | .timeout =>
      -- `trial_times += 1; if trial_times >= retry_times: raise`
      if trial + 1 ≥ limit then (.timeout, (pop sc).2, [.timeout])
      else
        let r := retry limit ex fuel (trial + 1) (pop sc).2
        (r.1, r.2.1, .timeout :: r.2.2)

def endOf : RRes → End
  | .ok => .done
  | .timeout => .timeout
  | .nack => .nack
  | .invalid => .invalid
  | .fuel => .fuel

/-- the `while True:` loop over `seg_no` -/
def fetchLoop (limit : Nat) (segs : List Seg) : (fuel i : Nat) → List Outcome → Result
  | 0, _, _ => ⟨[], [], .fuel⟩
  | fuel + 1, i, sc =>
    let r := retry limit (decide (i < segs.length)) (limit + 1) 0 sc
    let lg := r.2.2.map fun o => (Req.seg i, o)
    match r.1, segs[i]? with
    | .ok, some s =>
      if s.fbi = some i then ⟨[s.content], lg, .done⟩
      else
        let t := fetchLoop limit segs fuel (i + 1) r.2.1
        ⟨s.content :: t.yielded, lg ++ t.log, t.end_⟩
    | .ok, none => ⟨[], lg, .fuel⟩
    | e, _ => ⟨[], lg, endOf e⟩

def fetch (S : Scenario) : Result :=
  match S.obj with
  | .unseg c =>
    let r := retry S.limit true (S.limit + 1) 0 S.script
    let lg := r.2.2.map fun o => (Req.disc, o)
    match r.1 with
    | .ok => ⟨[c], lg, .done⟩
    | e => ⟨[], lg, endOf e⟩
  | .segs l =>
    let r := retry S.limit (decide (S.disc < l.length)) (S.limit + 1) 0 S.script
    let lg := r.2.2.map fun o => (Req.disc, o)
    match r.1 with
    | .ok =>
      if S.disc = 0 then
        match l[0]? with
        | some s =>
          if s.fbi = some 0 then ⟨[s.content], lg, .done⟩
          else
            let t := fetchLoop S.limit l (l.length + 1) 1 r.2.1
            ⟨s.content :: t.yielded, lg ++ t.log, t.end_⟩
        | none => ⟨[], lg, .fuel⟩
      else
        let t := fetchLoop S.limit l (l.length + 1) 0 r.2.1
        ⟨t.yielded, lg ++ t.log, t.end_⟩
    | e => ⟨[], lg, endOf e⟩

end Ndn.SegFetch
