import NdnModel.TlNum
/-
  Model of tlv_var.shrink_length (in-place length repair after a short signature).
  Python buffer writes are `blit`; `struct.pack_into` fails with struct.error when the
  target range does not fit in the buffer.
-/
namespace Ndn

/-- `struct.pack_into(fmt, buf, off, …)` writing `bs` at `off`. -/
def blit (buf : Bytes) (off : Nat) (bs : Bytes) : Except PyErr Bytes :=
  if off + bs.length ≤ buf.length then .ok (buf.take off ++ bs ++ buf.drop (off + bs.length))
  else .error .structError

/-- `write_tl_num(val, buf, off)`; struct.error for values that do not fit 64 bits. -/
def writeTlNumInto (v : Nat) (buf : Bytes) (off : Nat) : Except PyErr (Bytes × Nat) :=
  if v < 2^64 then do
    let b ← blit buf off (writeTlNum v)
    pure (b, tlNumSize v)
  else .error .structError

/-- Python `wire[a:-k]` for `k ≥ 0` (`-0` is `0`, giving the empty slice). -/
def sliceToNeg (buf : Bytes) (a k : Nat) : Bytes :=
  if k = 0 then [] else pySlice buf a (buf.length - k)

/-- `shrink_length(wire, val)` -/
def shrinkLength (wire : Bytes) (val : Nat) : Except PyErr Bytes := do
  let (typ, typLen) ← parseTlNum wire 0
  let (size, sizLen) ← parseTlNum wire typLen
  if size < val then .error .structError   -- negative real_size: struct.pack of a negative number
  else
    let realSize := size - val
    let (w1, newSizLen) ← writeTlNumInto realSize wire typLen
    if newSizLen = sizLen then pure (sliceToNeg w1 0 val)
    else
      let diff := sizLen - newSizLen
      let (w2, _) ← writeTlNumInto typ w1 diff
      let (w3, _) ← writeTlNumInto realSize w2 (typLen + diff)
      pure (sliceToNeg w3 diff val)

end Ndn
