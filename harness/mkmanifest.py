#!/venv/bin/python
"""Rebuild MANIFEST.json from the plugins present under harness/props/ (claimed) and
harness/not_applicable.json (not claimed, with reasons)."""
import os, sys, json, importlib
ROOT = os.path.dirname(os.path.dirname(os.path.abspath(__file__)))
sys.path.insert(0, os.path.join(ROOT, 'harness'))
import lib
lib.setup_repo_path()
ids = [json.loads(l)['id'] for l in open(os.path.join(ROOT, 'properties.jsonl'))]
na = json.load(open(os.path.join(ROOT, 'harness', 'not_applicable.json')))
checks, notapp = [], []
for i in ids:
    p = os.path.join(ROOT, 'harness', 'props', i.lower() + '.py')
    if os.path.exists(p) and i in na.get('claimed', []):
        P = importlib.import_module('props.' + i.lower())
        checks.append({
            'property_id': i,
            'quick_cmd': f'/venv/bin/python harness/check.py {i} --tier quick',
            'thorough_cmd': f'/venv/bin/python harness/check.py {i} --tier thorough',
            'evidence_file': f'evidence/{i}.json',
            'replay_cmd_template': f'/venv/bin/python harness/check.py {i} --replay {{path}}',
            'engine': 'lean4-model+correspondence',
            'level_claimed': {'category': 'proof', 'text': P.LEVEL_TEXT, 'design_ref': P.DESIGN_REF},
            'level_note': P.LEVEL_NOTE,
            'technique': P.TECHNIQUE,
        })
    else:
        notapp.append({'property_id': i, 'reason': na.get('unclaimed', {}).get(i, na['default'])})
m = {
    'version': 1,
    'setup_cmd': 'bash harness/setup.sh',
    'hooks': {'guard': 'PYTHON_NDN_VERIF',
              'enable': 'no source hooks: the harness patches module attributes (time, secrets, faces) at run time',
              'baseline_off_cmd': 'cd /repo && /venv/bin/python -m pytest -ra -q -p no:cacheprovider --timeout=900 --continue-on-collection-errors',
              'source_commits': [], 'add_only': True},
    'engines': [{'name': 'lean4-model+correspondence', 'path': 'harness/check.py',
                 'serves_properties': [c['property_id'] for c in checks],
                 'kind_free_text': 'Lean 4 theorems about hand-written executable models (lean/), tables regenerated from /repo, and a differential correspondence check of the compiled model against the real implementation'}],
    'checks': checks,
    'notes': 'See DESIGN.md. Exit codes: 0 held, 1 violation (VIOLATION line), 2 harness error/timeout (not a verdict).',
    'not_applicable': notapp,
}
json.dump(m, open(os.path.join(ROOT, 'MANIFEST.json'), 'w'), indent=1)
print('claimed:', [c['property_id'] for c in checks])
