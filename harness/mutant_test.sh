#!/bin/bash
# usage: harness/mutant_test.sh Cxx path/to/patch.diff [more check args]
# Applies the patch to a scratch copy of /repo (outside /repo and /verif), runs the property's check
# against the copy (no evidence written), removes the copy. Prints the check's last lines and exit code.
set -u
PROP=$1; PATCH=$(readlink -f "$2"); shift 2
D=$(mktemp -d /tmp/mt-XXXXXX)
cp -r /repo/src "$D/src"
( cd "$D" && patch -p1 -s < "$PATCH" ) || { echo "PATCH-FAILED"; rm -rf "$D"; exit 3; }
cd /verif
VERIF_REPO="$D" VERIF_NO_EVIDENCE=1 /venv/bin/python harness/check.py "$PROP" "$@" 2>&1 | tail -4 | cut -c1-300
RC=${PIPESTATUS[0]}
/venv/bin/python /verif/harness/regen.py "$PROP" >/dev/null 2>&1
rm -rf "$D"
echo "exit=$RC"
exit $RC
