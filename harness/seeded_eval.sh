#!/bin/bash
# usage: harness/seeded_eval.sh <Cxx> <dir with patch.diff demo.py NOTES.md> [seeded-id]
# Confirms a seeded change independently (demo passes on the clean tree, the 119 tests pass with the change, the
# demo fails with the change), runs the property's check against the changed copy, and files the artefacts under
# /verif/seeded/<id>/ with a meta.json recording what was run.
set -u
PROP=$1; SRC=$(readlink -f "$2"); ID=${3:-$PROP}
D=$(mktemp -d /tmp/se-XXXXXX)
cp -r /repo/src "$D/src"; cp -r /repo/tests "$D/tests"; cp /repo/pyproject.toml /repo/setup.cfg "$D/" 2>/dev/null
cd "$D"
PYTHONPATH=$D/src timeout 300 /venv/bin/python "$SRC/demo.py" >/dev/null 2>&1; DEMO_CLEAN=$?
patch -p1 -s < "$SRC/patch.diff" || { echo PATCH-FAILED; rm -rf "$D"; exit 3; }
TESTS=$(PYTHONPATH=$D/src timeout 900 /venv/bin/python -m pytest -q -p no:cacheprovider tests 2>&1 | tail -1)
PYTHONPATH=$D/src timeout 300 /venv/bin/python "$SRC/demo.py" >/dev/null 2>&1; DEMO_CHANGED=$?
cd /verif
OUT=$(VERIF_REPO="$D" VERIF_NO_EVIDENCE=1 timeout 3000 /venv/bin/python harness/check.py "$PROP" 2>&1 | grep -E "^VIOLATION|^KNOWN-FINDING|^C[0-9][0-9] \[" | cut -c1-300)
RC=$(echo "$OUT" | grep -c "^VIOLATION")
REPLAY=$(echo "$OUT" | grep "^VIOLATION" | head -1)
mkdir -p /verif/seeded/$ID
cp "$SRC/patch.diff" "$SRC/demo.py" /verif/seeded/$ID/; cp "$SRC/NOTES.md" /verif/seeded/$ID/NOTES.md 2>/dev/null
RP=$(echo "$REPLAY" | sed -n 's/.*replay=\([^ ]*\).*/\1/p')
[ -n "$RP" ] && [ -f "/verif/$RP" ] && cp "/verif/$RP" /verif/seeded/$ID/replay.json
python3 - "$PROP" "$ID" "$DEMO_CLEAN" "$TESTS" "$DEMO_CHANGED" "$RC" "$REPLAY" <<'PY'
import json, sys
prop, sid, dc, tests, dch, rc, replay = sys.argv[1:8]
notes = ''
try:
    notes = open(f'/verif/seeded/{sid}/NOTES.md').read()[:1500]
except OSError:
    pass
json.dump({'property': prop, 'id': sid,
           'confirmed': {'demo_exit_on_clean_tree': int(dc), 'test_suite_with_change': tests, 'demo_exit_with_change': int(dch)},
           'check_result': {'violation_lines': int(rc), 'first': replay, 'caught': int(rc) > 0,
                            'with_failing_input': 'no-failing-input-found' not in replay and int(rc) > 0},
           'what_it_needs_to_manifest': notes,
           'what_was_run': ['demo.py on a clean copy of /repo', 'patch applied to the copy; pytest tests',
                            'demo.py on the changed copy', f'VERIF_REPO=<copy> harness/check.py {prop} (quick; drift sensor on)']},
          open(f'/verif/seeded/{sid}/meta.json', 'w'), indent=1)
PY
/venv/bin/python /verif/harness/regen.py "$PROP" >/dev/null 2>&1
rm -rf "$D"
echo "$ID: demo_clean=$DEMO_CLEAN tests='$TESTS' demo_changed=$DEMO_CHANGED caught=$RC :: $REPLAY"
