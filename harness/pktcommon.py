"""Shared by C01 / C02 / C16: packet generators, a recording signer proxy, running make_*/parse_* on the real
library, and the line protocol of the Lean packet model (drv_C01)."""
import struct
import hashlib
import tlvschema as T

_KEYS = {}


def keys():
    """key material generated once per process (real keys; DER lengths of ECDSA signatures vary per signature)"""
    if _KEYS:
        return _KEYS
    from Cryptodome.PublicKey import ECC, RSA
    for c in ('P-224', 'P-256', 'P-384', 'P-521'):
        k = ECC.generate(curve=c)
        _KEYS['ec' + c[2:]] = (k.export_key(format='DER'), k.public_key())
    k = ECC.generate(curve='ed25519')
    _KEYS['ed25519'] = (k.export_key(format='DER'), k.public_key())
    k = RSA.generate(2048)
    _KEYS['rsa2048'] = (k.export_key('DER'), k.publickey())
    return _KEYS


def key(kind):
    """keys()[kind]; the RSA-4096 key (512-byte signatures, thorough tier only) is generated on first use"""
    ks = keys()
    if kind == 'rsa4096' and kind not in ks:
        from Cryptodome.PublicKey import RSA
        k = RSA.generate(4096)
        ks[kind] = (k.export_key('DER'), k.publickey())
    return ks[kind]


class SynthSigner:
    """announces `reserved` bytes and writes `real` bytes derived from the covered content"""
    def __init__(self, reserved, real, sig_type=200):
        self.reserved, self.real, self.sig_type = reserved, real, sig_type

    def write_signature_info(self, si):
        si.signature_type = self.sig_type
        si.key_locator = None

    def get_signature_value_size(self):
        return self.reserved

    def write_signature_value(self, wire, contents):
        h = hashlib.sha256(b''.join(bytes(c) for c in contents)).digest()
        sig = (h * (self.real // 32 + 1))[:self.real]
        wire[:self.real] = sig
        return self.real


class CustomSigner(SynthSigner):
    """a SynthSigner whose write_signature_info fills every SignatureInfo field the caller asks for: SignatureType,
    KeyLocator (Name or KeyDigest), SignatureNonce / SignatureTime / SignatureSeqNum at any integer width"""
    def __init__(self, reserved, real, si):
        super().__init__(reserved, real, si.get('type', 200))
        self.sinfo = si

    def write_signature_info(self, si):
        from ndn.encoding import KeyLocator
        d = self.sinfo
        si.signature_type = d.get('type', 200)
        kl = d.get('kl')
        if kl is None:
            si.key_locator = None
        else:
            si.key_locator = KeyLocator()
            if kl[0] == 'name':
                si.key_locator.name = [bytes.fromhex(c) for c in kl[1]]
            else:
                si.key_locator.key_digest = bytes.fromhex(kl[1])
        si.signature_nonce = d.get('nonce')
        si.signature_time = d.get('time')
        si.signature_seq_num = d.get('seq')


def key_in_form(kind, der, form):
    """the same private key as the caller may hand it to a signer: DER bytes (default), DER in a bytearray / memoryview,
    PEM text (ECDSA and RSA signers take `bytes | str`), HMAC key bytes in a bytearray / memoryview"""
    if form in (None, 'der'):
        return der
    if form == 'pem' and (kind.startswith('ec') or kind.startswith('rsa')):
        if kind.startswith('ec'):
            from Cryptodome.PublicKey import ECC
            return ECC.import_key(der).export_key(format='PEM')
        from Cryptodome.PublicKey import RSA
        return RSA.import_key(der).export_key('PEM').decode()
    if form == 'bytearray' and (kind == 'hmac' or kind == 'ed25519'):
        return bytearray(der)
    if form == 'mv' and (kind == 'hmac' or kind == 'ed25519'):
        return memoryview(bytearray(b'\x00\x00' + der + b'\x00'))[2:2 + len(der)]
    return der


def make_signer(spec, key_name=None, key_form=None):
    """spec: ['none'] | ['digest', for_interest] | ['hmac'] | ['ec224'|'ec256'|'ec384'|'ec521'] | ['rsa2048'|'rsa4096'] | ['ed25519']
             | ['null'] | ['synth', reserved, real] | ['custom', reserved, real, {SignatureInfo fields}]
       key_name: the KeyLocator Name for the keyed signers (list of encoded components); a default when None
       key_form: see key_in_form"""
    from ndn import security as sec
    k = spec[0]
    if k == 'none':
        return None
    if k == 'digest':
        return sec.DigestSha256Signer(bool(spec[1]))
    if k == 'hmac':
        return sec.HmacSha256Signer('/k/hmac' if key_name is None else key_name, key_in_form(k, b'secret-key-0123', key_form))
    if k.startswith('ec'):
        return sec.Sha256WithEcdsaSigner('/k/' + k if key_name is None else key_name, key_in_form(k, keys()[k][0], key_form))
    if k.startswith('rsa'):
        return sec.Sha256WithRsaSigner('/k/rsa' if key_name is None else key_name, key_in_form(k, key(k)[0], key_form))
    if k == 'ed25519':
        return sec.Ed25519Signer('/k/ed' if key_name is None else key_name, key_in_form(k, keys()[k][0], key_form))
    if k == 'null':
        return sec.NullSigner()
    if k == 'synth':
        return SynthSigner(spec[1], spec[2])
    if k == 'custom':
        return CustomSigner(spec[1], spec[2], spec[3])
    raise ValueError(spec)


# ------------------------------------------------------------------------------------- forms of a name
_UNRESERVED = set(b'ABCDEFGHIJKLMNOPQRSTUVWXYZabcdefghijklmnopqrstuvwxyz0123456789-._~')


def _split_comp(c):
    """(type, value) of an encoded component, read by hand"""
    def num(o):
        b = c[o]
        if b <= 0xFC:
            return b, 1
        w = {0xFD: 2, 0xFE: 4, 0xFF: 8}[b]
        return int.from_bytes(c[o + 1:o + 1 + w], 'big'), 1 + w
    t, a = num(0)
    _, b = num(a)
    return t, bytes(c[a + b:])


def uri_comp(c):
    """NDN URI text of one encoded component, written from the NDN URI scheme (not with the library):
    [<type>=]<value with every byte outside ALPHA / DIGIT / - . _ ~ percent-encoded>; the two digest types by name"""
    t, v = _split_comp(bytes(c))
    if t == 1:
        return 'sha256digest=' + v.hex()
    if t == 2:
        return 'params-sha256=' + v.hex()
    alldots = bool(v) and all(b == 0x2e for b in v)
    txt = ''.join(chr(b) if (b in _UNRESERVED and not alldots) else '%%%02X' % b for b in v)
    return txt if t == 8 else f'{t}={txt}'


def uri_name(comps):
    s = '/' + '/'.join(uri_comp(c) for c in comps)
    if comps and bytes(comps[-1]) == b'\x08\x00':
        s += '/'
    return s


def uri_comp_alt(c, r):
    """another legal NDN URI spelling of the same component: lower-case hex digits in the percent-escapes, unreserved
    characters percent-encoded as well, an explicit `8=` in front of a generic component, upper-case hex in the digests"""
    t, v = _split_comp(bytes(c))
    if t == 1 or t == 2:
        h = v.hex().upper() if r.random() < 0.5 else v.hex()
        return ('sha256digest=' if t == 1 else 'params-sha256=') + h
    alldots = bool(v) and all(b == 0x2e for b in v)
    fmt = '%%%02x' if r.random() < 0.6 else '%%%02X'
    every = r.random() < 0.4
    txt = ''.join(chr(b) if (b in _UNRESERVED and not alldots and not (every and r.random() < 0.7)) else fmt % b for b in v)
    if t == 8:
        return '8=' + txt if (v and r.random() < 0.4) else txt
    return f'{t}={txt}'


NAME_FORMS = ['comps', 'comps', 'comps', 'uri', 'strs', 'wire', 'wire_mv', 'mixed', 'gen', 'wire_ba', 'uri_alt', 'strs_alt', 'tuple']


def name_in_form(comps, form, seed=0):
    """the same name as the caller may hand it to make_* (NonStrictName): list of encoded components, URI string,
    list of URI-component strings, the encoded Name TLV (bytes / memoryview over a bytearray), or a mix.
    In a third of the calls the caller has ALSO used the same text / bytes with the library's public helpers for its own
    purposes before (Name.from_str / normalize / from_bytes / Component.from_str) and has edited what it got back in
    place - its own objects; the name it now hands over is still the name it hands over."""
    obj = _name_in_form(comps, form, seed)
    if seed % 3 == 1 and 'ndn.encoding' in __import__('sys').modules:
        try:
            from ndn.encoding import Name, Component
            mine = []
            if isinstance(obj, str):
                mine += [Name.from_str(obj), Name.normalize(obj)]
            elif isinstance(obj, (bytes, bytearray, memoryview)):
                mine += [Name.from_bytes(bytes(obj)), Name.normalize(bytes(obj))]
            elif isinstance(obj, (list, tuple)):
                mine += [Name.normalize(list(obj))[:]]
                mine += [Component.from_str(Component.escape_str(x)) for x in obj if isinstance(x, str)]
            given = {id(x) for x in obj} if isinstance(obj, (list, tuple)) else set()
            given.add(id(obj))
            for m in mine:
                # (only what the helpers CREATED: normalize() passes binary components through - those are still the
                # objects about to be handed over)
                for x in (m if isinstance(m, list) else [m]):
                    if id(x) not in given and isinstance(x, (bytearray, memoryview)):
                        scribble_returned(x)
        except Exception:     # noqa - the caller's private use of the helpers is not what this case is about
            pass
    return obj


def _name_in_form(comps, form, seed=0):
    import random
    comps = [bytes(c) for c in comps]
    if form in (None, 'comps'):
        return comps
    if form == 'uri':
        return uri_name(comps)
    if form == 'strs':
        return [uri_comp(c) for c in comps]
    if form in ('wire', 'wire_mv', 'wire_ba'):
        body = b''.join(comps)
        w = T.tl(7) + T.tl(len(body)) + body
        return w if form == 'wire' else bytearray(w) if form == 'wire_ba' else memoryview(bytearray(w))
    if form == 'gen':
        return (c for c in comps)               # a one-shot iterator of components
    if form == 'tuple':
        return tuple(comps)
    if form in ('uri_alt', 'strs_alt'):
        r = random.Random(seed)
        parts = [uri_comp_alt(c, r) for c in comps]
        if form == 'strs_alt':
            return parts
        s = '/' + '/'.join(parts)
        if comps and comps[-1] == b'\x08\x00':
            s += '/'
        elif comps and parts[0] and r.random() < 0.3:
            s = s[1:]                           # the leading slash is optional
        if comps and comps[-1] != b'\x08\x00' and parts[-1] and r.random() < 0.2:
            s += '/'                            # one trailing slash is ignored
        return s
    if form == 'mixed':
        r = random.Random(seed)
        out = []
        for c in comps:
            k = r.choice(['bytes', 'bytearray', 'memoryview', 'str'])
            out.append(c if k == 'bytes' else bytearray(c) if k == 'bytearray' else memoryview(c) if k == 'memoryview'
                       else uri_comp(c))
        return out if r.random() < 0.7 else tuple(out)
    raise ValueError(form)


class Recorder:
    """proxy around a signer that records what it was asked and what it produced"""
    def __init__(self, inner):
        self.inner = inner
        self.si = None
        self.reserved = None
        self.covered = None
        self.sig = None

    def write_signature_info(self, si):
        self.inner.write_signature_info(si)
        self.si = si

    def get_signature_value_size(self):
        self.reserved = self.inner.get_signature_value_size()
        return self.reserved

    def write_signature_value(self, wire, contents):
        self.covered = [bytes(c) for c in contents]
        n = self.inner.write_signature_value(wire, contents)
        self.sig = bytes(wire[:n])
        return n


def exc_name(e):
    from ndn.encoding import DecodeError
    if isinstance(e, DecodeError):
        return 'DecodeError'
    if isinstance(e, struct.error):
        return 'struct.error'
    for c in (IndexError, KeyError, ValueError, TypeError, AttributeError, OverflowError):
        if isinstance(e, c):
            return c.__name__
    return type(e).__name__


# ------------------------------------------------------------------------------------- generators
SIGNERS = [['none'], ['none'], ['digest', 0], ['digest', 1], ['hmac'], ['ec256'], ['ec256'], ['ec384'], ['ec521'],
           ['ed25519'], ['null'], ['rsa2048'], ['ec224']]
COMP_TYPES = [8, 8, 8, 1, 32, 50, 52, 54, 56, 58, 252, 253, 65535]


def gen_comp(v, t=8):
    """one encoded name component written from the NDN packet format (the generators never call the library: a
    defect in Component.from_bytes / Name.* must be a verdict of the check, not a crash of the generator)"""
    return T.gen_comp(v, t)


def rand_comp(rng, allow_digest=False):
    t = rng.choice(COMP_TYPES + ([2] if allow_digest else []))
    if t == 1 or t == 2:
        v = bytes(rng.getrandbits(8) for _ in range(32))
    else:
        v = bytes(rng.getrandbits(8) for _ in range(rng.choice([0, 1, 3, 8, 20])))
    return gen_comp(v, t)


def rand_name(rng):
    if rng.random() < 0.25:
        return boundary_name(rng)
    return [rand_comp(rng) for _ in range(rng.choice([0, 1, 2, 3, 4, 6]))]


def boundary_name(rng, big=True):
    """a name whose encoded components total a length near the points where the Name's own Length (with or
    without the 34-byte ParametersSha256Digest component) or an enclosing Length changes form"""
    targets = [253 - 34, 253, 253 - 2, 253 - 36]
    if big:
        targets += [65536 - 34, 65536]
    total = max(0, rng.choice(targets) + rng.randint(-4, 4))
    comps = [rand_comp(rng) for _ in range(rng.choice([0, 1, 2]))]
    used = sum(len(c) for c in comps)
    rest = total - used
    if rest >= 2:
        # one filler component: header is 2 bytes below 253, 4 bytes from 253 on
        n = rest - 2 if rest - 2 < 253 else rest - 4
        at = rng.randint(0, len(comps))
        bytes(rng.getrandbits(8) for _ in range(8))         # (eight draws kept so that the generated stream stays the same)
        comps.insert(at, gen_comp((bytes(rng.getrandbits(8) for _ in range(8)) * (n // 8 + 1))[:max(n, 0)], 8))
    return comps


def _tier_name(rng, tier):
    n = rand_name(rng)
    # (every case and its observation stay in memory until the end of a run: most 64 kB names / payloads are cut back)
    if sum(len(c) for c in n) > 3000 and rng.random() < (0.7 if tier == 'quick' else 0.85):
        n = boundary_name(rng, big=False)
    return n


def boundary_size(rng, overhead_hint=60):
    """payload sizes around the points where an enclosing Length changes form"""
    r = rng.random()
    if r < 0.3:
        return rng.randint(0, 40)
    if r < 0.75:
        return max(0, rng.choice([253, 65536]) - rng.randint(0, overhead_hint + 12) + rng.choice([-3, -2, -1, 0, 1, 2, 3]))
    if r < 0.9:
        return rng.randint(0, 700)
    return rng.choice([65530, 65535, 65536, 66000, 70000])


def rand_synth(rng):
    reserved = rng.choice([0, 1, 8, 32, 70, 72, 200, 250, 252, 253, 300])
    if reserved >= 253 or rng.random() < 0.3:
        real = reserved
    else:
        real = rng.randint(0, reserved)
    return ['synth', reserved, real]


INT_EDGES = [0, 1, 255, 256, 65535, 65536, 2 ** 32 - 1, 2 ** 32, 2 ** 63, 2 ** 64 - 1]


def sized_comp(rng, vlen, typ=None):
    """one component whose Value has exactly vlen bytes (Type 1-byte or 3-byte form)"""
    typ = typ or rng.choice([8, 8, 32, 252, 253, 65535])
    blk = bytes(rng.getrandbits(8) for _ in range(16))
    return gen_comp((blk * (vlen // 16 + 1))[:vlen], typ)


def near(rng, big_ok):
    """a length next to a point where a TLV Length (or Type) number changes form"""
    base = rng.choice([253, 253, 253, 65536] if big_ok else [253])
    return max(0, base + rng.randint(-6, 3))


def sized_name(rng, total, single=False):
    """a name whose encoded components total exactly `total` bytes where possible"""
    comps = [] if single else [rand_comp(rng) for _ in range(rng.choice([0, 1, 2, 5]))]
    rest = total - sum(len(c) for c in comps)
    if rest >= 2:
        t = rng.choice([8, 8, 32, 253])
        th = 1 if t < 253 else 3
        n = rest - th - 1 if rest - th - 1 < 253 else rest - th - 3
        if n >= 0:
            comps.insert(rng.randint(0, len(comps)), sized_comp(rng, n, t))
    return comps


def rand_custom(rng, big_ok=False):
    """a signer whose write_signature_info sets unusual SignatureInfo fields"""
    reserved = rng.choice([0, 1, 32, 64, 72, 200, 252, 253, 256, 512])
    real = reserved if (reserved >= 253 or rng.random() < 0.4) else rng.randint(0, reserved)
    r = rng.random()
    if r < 0.3:
        kl = None
    elif r < 0.65:
        kl = ['name', [c.hex() for c in (sized_name(rng, near(rng, big_ok)) if rng.random() < 0.5 else rand_name(rng))]]
    else:
        n = rng.choice([0, 1, 32, 32, 64, near(rng, False)])
        kl = ['digest', bytes(rng.getrandbits(8) for _ in range(min(n, 300))).hex()]
    si = {'type': rng.choice([0, 1, 3, 4, 5, 200, 255, 7]), 'kl': kl,
          'nonce': rng.choice([None, None] + INT_EDGES), 'time': rng.choice([None, None] + INT_EDGES),
          'seq': rng.choice([None, None] + INT_EDGES)}
    return ['custom', reserved, real, si]


KEYED = ('hmac', 'ec224', 'ec256', 'ec384', 'ec521', 'rsa2048', 'rsa4096', 'ed25519')


def _stress_common(rng, c, tier):
    """dimensions shared by Data and Interest: the form the name is handed over in, one long component, a long
    KeyLocator name for the keyed signers, a signer writing unusual SignatureInfo fields, RSA-4096 (thorough)"""
    big_ok = tier != 'quick' and rng.random() < 0.05
    r = rng.random()
    if r < 0.3:
        c['name_form'] = rng.choice(NAME_FORMS[3:])
    if rng.random() < 0.25:
        keep = [x for x in c['name'] if x.startswith('02')]
        nm = sized_name(rng, near(rng, big_ok) - (34 if rng.random() < 0.5 else 0), single=rng.random() < 0.5)
        c['name'] = [x.hex() for x in nm] + keep[:1]
    if rng.random() < 0.3:
        if c['signer'][0] in KEYED and rng.random() < 0.7:
            c['key_name'] = [x.hex() for x in sized_name(rng, near(rng, big_ok) - rng.choice([0, 0, 4, 9]))]
        else:
            c['signer'] = rand_custom(rng, big_ok)
    if tier != 'quick' and rng.random() < 0.03:
        c['signer'] = ['rsa4096']
    if c['signer'][0] in KEYED and 'key_name' not in c and rng.random() < 0.1:
        c['key_name'] = [x.hex() for x in rand_name(rng)]
    # how the caller holds its arguments, and what it did with them before (see make_packet)
    if rng.random() < 0.3:
        c['payload_form'] = rng.choice(BUF_FORMS[1:])
    if c['signer'][0] in KEYED and rng.random() < 0.3:
        c['key_form'] = rng.choice(['pem', 'bytearray', 'mv'])
    if rng.random() < 0.15:
        c['obj_form'] = 'from_dict'
    if rng.random() < 0.25:
        c['pre'] = rng.choice(['same', 'same', 'params', 'params', 'raise'])
    if rng.random() < 0.4:
        c['parse_form'] = rng.choice(BUF_FORMS[1:] + ['no_tl', 'no_tl'])


def gen_data_case(rng, tier):
    signer = rng.choice(SIGNERS) if rng.random() < 0.75 else rand_synth(rng)
    if tier == 'quick' and signer[0] == 'rsa2048' and rng.random() < 0.7:
        signer = ['ec256']
    size = boundary_size(rng)
    if size > 2000 and rng.random() < (0.6 if tier == 'quick' else 0.8):
        size = rng.randint(0, 300)
    mi = {'content_type': rng.choice([None, 0, 1, 2, 3, 255, 256, 70000]),
          'freshness_period': rng.choice([None, 0, 1, 1000, 2 ** 32, 2 ** 63]),
          'final_block_id': rng.choice([None, None, rand_comp(rng).hex()])}
    c = {'pkt': 'data', 'name': [c.hex() for c in _tier_name(rng, tier)], 'meta': rng.choice([mi, mi, mi, None]),
         'content': rng.choice([None, size, size, size]), 'seed': rng.getrandbits(32), 'signer': signer}
    if rng.random() < 0.45:
        _stress_common(rng, c, tier)
        r = rng.random()
        if r < 0.25:
            # MetaInfo integers at every width; a FinalBlockId long enough to move MetaInfo's own Length across 253
            c['meta'] = {'content_type': rng.choice([None] + INT_EDGES), 'freshness_period': rng.choice([None] + INT_EDGES),
                         'final_block_id': rng.choice([None, sized_comp(rng, max(0, near(rng, False) - rng.choice([2, 4, 8, 12]))).hex()])}
        elif r < 0.35:
            c['meta'] = {'content_type': None, 'freshness_period': None, 'final_block_id': None}    # present but empty
        if rng.random() < 0.2:
            c['content'] = 0                                                                        # present but empty
    return c


def gen_interest_case(rng, tier):
    signer = rng.choice(SIGNERS) if rng.random() < 0.75 else rand_synth(rng)
    if signer[0] == 'digest' and rng.random() < 0.7:
        signer = ['digest', 1]
    if tier == 'quick' and signer[0] == 'rsa2048' and rng.random() < 0.7:
        signer = ['ec256']
    size = boundary_size(rng)
    if size > 2000 and rng.random() < (0.6 if tier == 'quick' else 0.8):
        size = rng.randint(0, 300)
    name = _tier_name(rng, tier)
    ap = rng.choice([None, None, size, size])
    need = ap is not None or signer[0] != 'none'
    if need and rng.random() < 0.3:
        # caller already put a ParametersSha256Digest component somewhere in the name
        name.insert(rng.randint(0, len(name)), gen_comp(bytes(32), 2))
    param = {'can_be_prefix': rng.random() < 0.5, 'must_be_fresh': rng.random() < 0.5,
             'nonce': rng.choice([None, 0, rng.getrandbits(32)]),
             'lifetime': rng.choice([None, 0, 1, 4000, 65535, 65536, 2 ** 40]),
             'hop_limit': rng.choice([None, 0, 7, 255]),
             'forwarding_hint': [[c.hex() for c in rand_name(rng)] for _ in range(rng.choice([0, 0, 1, 2]))]}
    c = {'pkt': 'interest', 'name': [c.hex() for c in name], 'param': param, 'app': ap,
         'seed': rng.getrandbits(32), 'signer': signer}
    if rng.random() < 0.45:
        _stress_common(rng, c, tier)
        if c.get('pre') in ('params', 'raise') and rng.random() < 0.5:
            # the earlier call needed a parameters digest, this one is a plain Interest for the same name object
            c['signer'], c['app'] = ['none'], None
        if c['signer'][0] == 'none' and c['app'] is None:
            c['name'] = [x for x in c['name'] if not x.startswith('02')]
        big_ok = tier != 'quick' and rng.random() < 0.04
        r = rng.random()
        if r < 0.3:
            # ForwardingHint: many names, or names long enough to move the Length of Links / of one Name across 253
            k = rng.random()
            if k < 0.4:
                fh = [rand_name(rng) if rng.random() < 0.3 else [rand_comp(rng)] for _ in range(rng.choice([3, 8, 20, 40]))]
            elif k < 0.8:
                fh = [sized_name(rng, near(rng, big_ok) - rng.choice([0, 2, 4])) for _ in range(rng.choice([1, 1, 2]))]
            else:
                per = rng.choice([20, 50])
                fh = [sized_name(rng, per - 2) for _ in range(max(1, near(rng, False) // per))] + [sized_name(rng, rng.randint(0, 12))]
            c['param'] = dict(c['param'], forwarding_hint=[[x.hex() for x in n] for n in fh])
            if rng.random() < 0.4:
                c['fh_form'] = rng.choice(NAME_FORMS[3:])
        if rng.random() < 0.25:
            c['param'] = dict(c['param'], nonce=rng.choice([0, 1, 255, 256, 65535, 65536, 2 ** 32 - 1]),
                              lifetime=rng.choice(INT_EDGES), hop_limit=rng.choice([0, 1, 254, 255]))
        if rng.random() < 0.2:
            c['app'] = 0                                                                            # present but empty
    return c


# ------------------------------------------------------------------ packet writers for the GENERATORS
# Written from the NDN Packet Format 0.3 / NDNLPv2 / NDN Certificate Format 2.0, never with the library: the wires a
# generator feeds to a check must exist whatever state the library's encoders are in (a defect in make_interest /
# make_data / Name.* / the signers must be a verdict of the check that judges them, not a crash of somebody's generator).
def w_tlv(t, v):
    v = bytes(v)
    return T.tl(t) + T.tl(len(v)) + v


def w_uint(t, n, fixed=None):
    """a non-negative integer element: the shortest of the widths 1 / 2 / 4 / 8 (or the fixed width of the field)"""
    w = fixed or (1 if n < 2 ** 8 else 2 if n < 2 ** 16 else 4 if n < 2 ** 32 else 8)
    return w_tlv(t, n.to_bytes(w, 'big'))


def w_name(comps):
    return w_tlv(7, b''.join(bytes(c) for c in comps))


def uri_to_comps(uri):
    """components of a plain URI such as '/a/b' (generic components of unreserved characters only)"""
    return [gen_comp(x.encode(), 8) for x in uri.split('/') if x]


def w_sig_info(t, sig, extra=b''):
    """SignatureInfo (t = 0x16) / InterestSignatureInfo (t = 0x2c); sig: {'type': int, 'key_name': [components] | None,
    'nonce': int | None, 'time': int | None}; extra: elements after them (a certificate's ValidityPeriod)"""
    body = w_uint(0x1b, sig['type'], 1)
    if sig.get('key_name') is not None:
        body += w_tlv(0x1c, w_name(sig['key_name']))
    if sig.get('nonce') is not None:
        body += w_uint(0x26, sig['nonce'])
    if sig.get('time') is not None:
        body += w_uint(0x28, sig['time'])
    return w_tlv(t, body + extra)


def w_sig_value(sig, covered):
    """SHA-256 digest (type 0) or HMAC-SHA256 with sig['key'] (type 4) over the covered bytes"""
    if sig['type'] == 0:
        return hashlib.sha256(covered).digest()
    if sig['type'] == 4:
        import hmac
        return hmac.new(sig['key'], covered, hashlib.sha256).digest()
    raise ValueError(sig)


def w_meta(meta):
    """MetaInfo from {'content_type', 'freshness_period', 'final_block_id'} (each may be None / missing)"""
    body = b''
    if meta.get('content_type') is not None:
        body += w_uint(0x18, meta['content_type'])
    if meta.get('freshness_period') is not None:
        body += w_uint(0x19, meta['freshness_period'])
    if meta.get('final_block_id') is not None:
        body += w_tlv(0x1a, meta['final_block_id'])
    return w_tlv(0x14, body)


def build_data(name, meta=None, content=None, sig=None, sig_extra=b''):
    """Data = Name [MetaInfo] [Content] [SignatureInfo SignatureValue]; the signature covers Name .. SignatureInfo"""
    body = w_name(name)
    if meta is not None:
        body += w_meta(meta)
    if content is not None:
        body += w_tlv(0x15, content)
    if sig is not None:
        body += w_sig_info(0x16, sig, sig_extra)
        body += w_tlv(0x17, w_sig_value(sig, body))
    return w_tlv(6, body)


def build_interest(name, can_be_prefix=False, must_be_fresh=False, forwarding_hint=(), nonce=None, lifetime=4000,
                   hop_limit=None, app=None, sig=None):
    """Interest = Name [CanBePrefix] [MustBeFresh] [ForwardingHint] [Nonce] [InterestLifetime] [HopLimit]
    [ApplicationParameters [InterestSignatureInfo InterestSignatureValue]]. With parameters the name carries one
    ParametersSha256DigestComponent (in place of the one 02-typed component of `name`, else appended) holding SHA-256 of
    everything from ApplicationParameters to the end; the signature covers the other name components, the parameters
    and the signature info. A name with such a component and no parameters, or with two, is refused (ValueError)."""
    name = [bytes(c) for c in name]
    if sig is not None and app is None:
        app = b''
    pos = [i for i, c in enumerate(name) if c[:1] == b'\x02']
    if len(pos) > (1 if app is not None else 0):
        raise ValueError('ParametersSha256DigestComponent out of place')
    tail = b''
    if app is not None:
        tail = w_tlv(0x24, app)
        if sig is not None:
            tail += w_sig_info(0x2c, sig)
            tail += w_tlv(0x2e, w_sig_value(sig, b''.join(c for i, c in enumerate(name) if i not in pos) + tail))
        dg = gen_comp(hashlib.sha256(tail).digest(), 2)
        if pos:
            name[pos[0]] = dg
        else:
            name.append(dg)
    body = w_name(name)
    if can_be_prefix:
        body += w_tlv(0x21, b'')
    if must_be_fresh:
        body += w_tlv(0x12, b'')
    if forwarding_hint:
        body += w_tlv(0x1e, b''.join(w_name(n) for n in forwarding_hint))
    if nonce is not None:
        body += w_uint(0x0a, nonce, 4)
    if lifetime is not None:
        body += w_uint(0x0c, lifetime)
    if hop_limit is not None:
        body += w_uint(0x22, hop_limit, 1)
    return w_tlv(5, body + tail)


def build_nack(interest_wire, reason):
    """LpPacket { Nack { NackReason } Fragment }"""
    return w_tlv(0x64, w_tlv(0x320, w_uint(0x321, reason)) + w_tlv(0x50, interest_wire))


def payload(case, n):
    import random
    r = random.Random(case['seed'])
    blk = bytes(r.getrandbits(8) for _ in range(64))
    return (blk * (n // 64 + 1))[:n]


# ------------------------------------------------------------------------------------- running the library
def _si_value(si):
    from ndn.encoding.ndn_format_0_3 import SignatureInfo
    if si is None:
        return None
    return ('m', T.from_instance(T.class_schema(SignatureInfo), si))


def _ranges_to_bytes(lst):
    return [bytes(x) for x in (lst or [])]


BUF_FORMS = ['bytes', 'bytearray', 'mv', 'mv_slice']


def buf_in_form(b, form, scratch=None):
    """the same byte string as a caller may hold it (BinaryStr): bytes, bytearray, read-only memoryview, or a memoryview
    into the middle of a larger writable buffer.  Writable buffers are remembered in `scratch` (the caller reuses them)"""
    if b is None or form in (None, 'bytes'):
        return b
    if form == 'bytearray':
        x = bytearray(b)
        if scratch is not None:
            scratch.append(x)
        return x
    if form == 'mv':
        return memoryview(bytes(b))
    if form == 'mv_slice':
        big = bytearray(b'\xe7' * 3 + bytes(b) + b'\x7e' * 5)
        if scratch is not None:
            scratch.append(big)
        return memoryview(big)[3:3 + len(b)]
    raise ValueError(form)


def _scribble(scratch):
    """the caller reuses its writable buffers after the call returned"""
    for x in scratch:
        for i in range(len(x)):
            x[i] = 0x5a


def scribble_returned(obj, depth=0):
    """the caller goes on using what the library RETURNED to it as its own: every writable buffer it can reach is
    overwritten, every list is edited (an element replaced, one appended).  Whatever the library hands out must not be
    something it will hand out, or read, again."""
    if depth > 4:
        return
    if isinstance(obj, bytearray):
        for i in range(len(obj)):
            obj[i] = 0xa5
    elif isinstance(obj, memoryview):
        if not obj.readonly:
            try:
                obj[:] = b'\xa5' * len(obj)
            except (TypeError, ValueError):
                pass
    elif isinstance(obj, list):
        for x in obj:
            scribble_returned(x, depth + 1)
        if obj:
            obj[0] = b'\x08\x03zzz'
        obj.append(b'\x08\x05extra')
    elif isinstance(obj, tuple):
        for x in obj:
            scribble_returned(x, depth + 1)


class RaisingSigner(SynthSigner):
    """fails while it is asked for the signature value (a key store that went away)"""
    def write_signature_value(self, wire, contents):
        raise RuntimeError('signing failed')


def make_packet(case, rec=None):
    """returns dict: made wire (or error), what the signer saw, and the model's input values.
    `rec` (default: built from case['signer']): the signer object to use - a packet built from inside that very signer
    (see Reentry).  case['reenter'] (default: absent): the signer builds other packets while it works (see Reentry), what
    became of them is returned as `nested`.
    Optional case keys (all default to the plain call): name_form / fh_form (see name_in_form), payload_form (BUF_FORMS:
    how Content / ApplicationParameters / FinalBlockId are held), key_form (key_in_form), obj_form='from_dict'
    (MetaInfo.from_dict / InterestParam.from_dict build the parameter object), pre = an EARLIER call made with the very
    same argument objects (name, MetaInfo / InterestParam, payload, signer): 'same' (the same call; Interest: without
    need_final_name - its wire is returned as `first`), 'params' (unsigned, with a payload), 'raise' (a signer that
    fails while signing)."""
    from ndn import encoding as enc
    out = {}
    kn = case.get('key_name')
    reentry = None
    if rec is None:
        try:
            inner = make_signer(case['signer'], None if kn is None else [bytes.fromhex(c) for c in kn], case.get('key_form'))
        except Exception as e:   # noqa  (a signer that cannot be built from a legal key counts as a packet that cannot be built)
            return {'made': ['err', exc_name(e)], 'siginfo': '_', 'final_name': None}
        rec = Recorder(inner) if inner is not None else None
        if inner is not None and case.get('reenter'):
            reentry = Reentry(case['reenter'], nested_do)
            rec = ReentrantRecorder(inner, reentry)
    scratch = []
    pre = case.get('pre')
    nform = case.get('name_form')

    def mkname():
        return name_in_form([bytes.fromhex(c) for c in case['name']], nform, case['seed'])
    name = mkname()
    if nform in ('wire_mv', 'wire_ba'):
        scratch.append(name.obj if isinstance(name, memoryview) else name)
    pform = case.get('payload_form')
    try:
        if case['pkt'] == 'data':
            m = case['meta']
            if m is None:
                mi = None
            else:
                fbi = None if m['final_block_id'] is None else buf_in_form(bytes.fromhex(m['final_block_id']), pform, scratch)
                if case.get('obj_form') == 'from_dict':
                    mi = enc.MetaInfo.from_dict({'content_type': m['content_type'], 'freshness_period': m['freshness_period'],
                                                 'final_block_id': fbi, 'unrelated': 1})
                else:
                    mi = enc.MetaInfo(content_type=m['content_type'], freshness_period=m['freshness_period'], final_block_id=fbi)
            content = None if case['content'] is None else buf_in_form(payload(case, case['content']), pform, scratch)
            if pre is not None:
                out['first'] = _pre_call(enc, case, pre, name, mi, content, rec)
                if nform == 'gen':
                    name = mkname()
            ret = enc.make_data(name, mi, content, signer=rec)
            _scribble(scratch)
            wire = bytes(ret)
            out['final_name'] = None
            scribble_returned(ret)
        else:
            p = case['param']
            fhf = case.get('fh_form')
            if fhf == 'gen' and pre is not None:
                fhf = 'tuple'                   # (a one-shot iterator inside a parameter object cannot be used for two calls)
            fh = [name_in_form([bytes.fromhex(c) for c in n], fhf, case['seed'] + i)
                  for i, n in enumerate(p['forwarding_hint'])]
            if case.get('obj_form') == 'from_dict':
                ip = enc.InterestParam.from_dict({'can_be_prefix': p['can_be_prefix'], 'must_be_fresh': p['must_be_fresh'],
                                                  'nonce': p['nonce'], 'lifetime': p['lifetime'], 'hop_limit': p['hop_limit'],
                                                  'forwarding_hint': fh, 'unrelated': 1})
            else:
                ip = enc.InterestParam(can_be_prefix=p['can_be_prefix'], must_be_fresh=p['must_be_fresh'], nonce=p['nonce'],
                                       lifetime=p['lifetime'], hop_limit=p['hop_limit'], forwarding_hint=fh)
            ap = None if case['app'] is None else buf_in_form(payload(case, case['app']), pform, scratch)
            if pre is not None:
                out['first'] = _pre_call(enc, case, pre, name, ip, ap, rec)
                if nform == 'gen':
                    name = mkname()
            ret, fn = enc.make_interest(name, ip, ap, signer=rec, need_final_name=True)
            out['final_name'] = [bytes(c).hex() for c in fn]
            _scribble(scratch)
            wire = bytes(ret)
            scribble_returned(ret)
            scribble_returned(fn)
        out['made'] = ['ok', wire.hex()]
    except Exception as e:   # noqa
        out['made'] = ['err', exc_name(e)]
    if rec is not None:
        out['reserved'] = rec.reserved
        out['sig'] = None if rec.sig is None else rec.sig.hex()
        out['covered'] = None if rec.covered is None else b''.join(rec.covered).hex()
        out['siginfo'] = T.value_text(_si_value(rec.si)) if rec.si is not None else '_'
    else:
        out['siginfo'] = '_'
    if reentry is not None:
        out['nested'] = reentry.records
    return out


def _pre_call(enc, case, pre, name, obj, pl, rec):
    """an earlier make_* call with the same argument objects; returns ['ok', wire hex] / ['err', class]"""
    data = case['pkt'] == 'data'
    try:
        if pre == 'same':
            w = enc.make_data(name, obj, pl, signer=rec) if data else enc.make_interest(name, obj, pl, signer=rec)
        elif pre == 'params':
            w = enc.make_data(name, obj, b'earlier', signer=None) if data else enc.make_interest(name, obj, b'earlier', signer=None)
        else:
            sg = RaisingSigner(32, 32)
            w = enc.make_data(name, obj, pl, signer=sg) if data else enc.make_interest(name, obj, pl, signer=sg)
        return ['ok', bytes(w).hex()]
    except Exception as e:   # noqa
        return ['err', exc_name(e)]


def as_form(wire, form):
    """the received bytes as the caller may hold them (see buf_in_form)"""
    return buf_in_form(bytes(wire), form if form in BUF_FORMS else None)


def _strip_tl(wire):
    """Value of the outer element when its Type / Length are complete and the Length is the rest of the wire, else None"""
    try:
        def num(o):
            b = wire[o]
            if b <= 0xFC:
                return b, 1
            w = {0xFD: 2, 0xFE: 4, 0xFF: 8}[b]
            if o + 1 + w > len(wire):
                raise IndexError
            return int.from_bytes(wire[o + 1:o + 1 + w], 'big'), 1 + w
        _, a = num(0)
        ln, b = num(a)
        return wire[a + b:] if a + b + ln == len(wire) else None
    except IndexError:
        return None


def parse_packet(kind, wire, form=None):
    """parse_data / parse_interest on the real library; canonical observation incl. SignaturePtrs as bytes.
    form: how the wire is held (BUF_FORMS), or 'no_tl' = only the Value is handed over (with_tl=False)"""
    from ndn import encoding as enc
    from ndn.encoding import ndn_format_0_3 as f
    from ndn.encoding.tlv_var import parse_and_check_tl
    try:
        value = _strip_tl(wire) if form == 'no_tl' else None
        if value is not None and wire[0] == (6 if kind == 'data' else 5):
            arg, kw = value, {'with_tl': False}
        else:
            arg, kw = as_form(wire, form), {}
        if kind == 'data':
            name, mi, content, sp = enc.parse_data(arg, **kw)
            cls, outer = f.DataPacketValue, 6
            api = {'content_type': mi.content_type, 'freshness_period': mi.freshness_period,
                   'final_block_id': None if mi.final_block_id is None else bytes(mi.final_block_id).hex()}
        else:
            name, ip, content, sp = enc.parse_interest(arg, **kw)
            cls, outer = f.InterestPacketValue, 5
            api = {'can_be_prefix': ip.can_be_prefix, 'must_be_fresh': ip.must_be_fresh, 'nonce': ip.nonce,
                   'lifetime': ip.lifetime, 'hop_limit': ip.hop_limit,
                   'forwarding_hint': [[bytes(c).hex() for c in enc.Name.normalize(n)] for n in ip.forwarding_hint]}
        fs = T.class_schema(cls)
        inst = cls.parse(parse_and_check_tl(wire, outer))
        return {'res': 'ok', 'values': T.values_text(T.from_instance(fs, inst)), 'api': api,
                'name': [bytes(c).hex() for c in name],
                'content': None if content is None else bytes(content).hex(),
                'SC': [x.hex() for x in _ranges_to_bytes(sp.signature_covered_part)],
                'SV': None if sp.signature_value_buf is None else bytes(sp.signature_value_buf).hex(),
                'DC': [x.hex() for x in _ranges_to_bytes(sp.digest_covered_part)],
                'DV': None if sp.digest_value_buf is None else bytes(sp.digest_value_buf).hex(),
                'sig_type': None if sp.signature_info is None else sp.signature_info.signature_type}
    except Exception as e:   # noqa
        return {'res': 'err', 'err': exc_name(e)}


# ------------------------------------------------------------------------------------- model protocol
def _v(x):
    return T.value_text(x)


def model_make_line(case, made):
    name = ','.join(T.hx(bytes.fromhex(c)) for c in case['name']) or '.'
    if case['signer'][0] == 'none':
        sg = '~'
    else:
        if made.get('sig') is None or made.get('reserved') is None:
            return None
        sg = f"{made['reserved']}:{T.hx(bytes.fromhex(made['sig']))}"
    si = made['siginfo']
    if case['pkt'] == 'data':
        m = case['meta']
        mi = '_' if m is None else _v(('m', [None if m['content_type'] is None else ('u', m['content_type']),
                                             None if m['freshness_period'] is None else ('u', m['freshness_period']),
                                             None if m['final_block_id'] is None else ('y', bytes.fromhex(m['final_block_id']))]))
        ct = '_' if case['content'] is None else _v(('y', payload(case, case['content'])))
        return f'C01 data {name} {mi} {ct} {si} {sg}'
    p = case['param']
    fh = p['forwarding_hint']
    links = None if not fh else ('m', [('l', [('n', [bytes.fromhex(c) for c in n]) for n in fh])])
    mid = [('b',) if p['can_be_prefix'] else None, ('b',) if p['must_be_fresh'] else None, links,
           None if p['nonce'] is None else ('u', p['nonce']), None if p['lifetime'] is None else ('u', p['lifetime']),
           None if p['hop_limit'] is None else ('u', p['hop_limit'])]
    ap = '_' if case['app'] is None else _v(('y', payload(case, case['app'])))
    return f"C01 int {name} {T.values_text(mid)} {ap} {si} {sg}"


def _kv(tok):
    k, v = tok.split('=', 1)
    return k, v


def _hexlist(s):
    return [] if s == '.' else ['' if x == '-' else x for x in s.split(',')]


def parse_model_parse(tokens):
    """tokens after 'ok' of a parse answer -> dict comparable with parse_packet()"""
    d = dict(_kv(t) for t in tokens)
    return {'res': 'ok', 'values': d['P'], 'SC': _hexlist(d['SC']), 'SV': None if d['SV'] == '~' else ('' if d['SV'] == '-' else d['SV']),
            'DC': _hexlist(d['DC']), 'DV': None if d['DV'] == '~' else ('' if d['DV'] == '-' else d['DV']),
            'PC': d.get('PC') == '1'}


def parse_model_answer(ans):
    """answer of a `data`/`int` request -> (made dict, parsed dict)"""
    if ans.startswith('err'):
        return {'made': ['err', ans.split()[1]]}, None
    left, right = ans.split(' | ')
    lt = left.split()[1:]
    d = dict(_kv(t) for t in lt)
    made = {'made': ['ok', '' if d['W'] == '-' else d['W']], 'covered': ''.join(_hexlist(d['C'])),
            'final_name': _hexlist(d['N']), 'digest_covered': '' if d['D'] == '-' else d['D']}
    rt = right.split()
    parsed = parse_model_parse(rt[1:]) if rt[0] == 'ok' else {'res': 'err', 'err': rt[1]}
    return made, parsed


def impl_parse_obs(p):
    if p['res'] == 'err':
        return p
    return {k: p[k] for k in ('res', 'values', 'SC', 'SV', 'DC', 'DV')}


# ------------------------------------------------------------------ signers that use the library while they sign
# A signer is an object of the application: its three methods may do anything a key store does - fetch a key with an
# Interest, log with a Data packet, have a certificate issued - and so build OTHER packets with make_data / make_interest /
# new_cert (with another signer, of another signature length, or with the very same signer object) while the packet they
# were called for is half done: after its SignatureInfo was asked for ('info'), in the middle of the length pass ('size'),
# after the packet was written and before / after the signature was computed ('value-before' / 'value-after').  The same
# interleaving arises between two threads that sign at the same time; a re-entrant signer exhibits it deterministically.
REENTER_AT = ['info', 'size', 'value-before', 'value-after']


class Reentry:
    """specs = [{'at': one of REENTER_AT, ...}]; do(spec, signer) performs the nested operation and returns a
    JSON-serialisable record (it gets 'i' = index of its spec); the records are kept in the order they were made.
    Packets built from inside are not re-entered again by THIS object (a nested case may carry a 'reenter' of its own)."""
    def __init__(self, specs, do):
        self.specs, self.do, self.depth, self.records = list(specs or []), do, 0, []

    def fire(self, at, signer):
        if self.depth:
            return
        for i, s in enumerate(self.specs):
            if s['at'] == at:
                self.depth += 1
                try:
                    r = self.do(s, signer)
                    r['i'] = i
                    self.records.append(r)
                finally:
                    self.depth -= 1


class ReentrantRecorder(Recorder):
    """a Recorder whose signer builds other packets while it works; what is on record is always the call in progress
    (a nested call with this very object has its own record while it lasts)"""
    def __init__(self, inner, reentry):
        super().__init__(inner)
        self.reentry = reentry

    def _fire(self, at):
        saved = (self.si, self.reserved, self.covered, self.sig)
        try:
            self.reentry.fire(at, self)
        finally:
            self.si, self.reserved, self.covered, self.sig = saved

    def write_signature_info(self, si):
        self.inner.write_signature_info(si)
        self.si = si
        self._fire('info')

    def get_signature_value_size(self):
        self.reserved = self.inner.get_signature_value_size()
        self._fire('size')
        return self.reserved

    def write_signature_value(self, wire, contents):
        self.covered = [bytes(c) for c in contents]
        self._fire('value-before')
        n = self.inner.write_signature_value(wire, contents)
        self.sig = bytes(wire[:n])
        self._fire('value-after')
        return n


def nested_cert(spec, signer=None):
    """a certificate issued with another signer (or `signer`): ['ok', wire hex] / ['err', class]"""
    import datetime as dt
    from ndn.app_support import security_v2 as sv
    try:
        sg = signer if signer is not None else make_signer(spec['signer'])
        _, w = sv.derive_cert('/nested/KEY/%01', spec.get('issuer_id', 'inner'), bytes(range(7)) * (spec.get('len', 91) // 7),
                              sg, dt.datetime(2002, 3, 4, 5, 6, 7), 3600)
        return ['ok', bytes(w).hex()]
    except Exception as e:     # noqa
        return ['err', exc_name(e)]


def nested_do(spec, signer):
    """the nested operations make_packet knows: {'case': a packet case (as for make_packet), 'same': built with the very
    signer object that is at work} -> {'made': make_packet's result}; {'cert': {'signer', 'len'}} -> {'cert': ...}"""
    if 'case' in spec:
        return {'at': spec['at'], 'made': make_packet(spec['case'], rec=signer if spec.get('same') else None)}
    return {'at': spec['at'], 'cert': nested_cert(spec['cert'])}


NESTED_SIGNERS = [['ec256'], ['ec256'], ['ec384'], ['ec521'], ['ec224'], ['ed25519'], ['hmac'], ['digest', 0], ['synth', 72, 64],
                  ['synth', 40, 0], ['synth', 200, 199]]


def nested_packet_case(rng, tier, outer=None):
    """a packet case built from inside a signer: small (it is one of two packets of its case); with `outer` given it is
    signed by the same signer (specification and key locator of the outer case)"""
    c = gen_data_case(rng, tier) if rng.random() < 0.6 else gen_interest_case(rng, tier)
    for k in ('pre', 'reenter'):
        c.pop(k, None)
    for k in ('content', 'app'):
        if (c.get(k) or 0) > 400:
            c[k] = rng.randint(0, 300)
    if outer is not None:
        c['signer'] = outer['signer']
        for k in ('key_name', 'key_form'):
            c.pop(k, None)
            if outer.get(k) is not None:
                c[k] = outer[k]
    elif c['signer'][0] in ('rsa2048', 'rsa4096', 'null') or rng.random() < 0.5:
        c['signer'] = rng.choice(NESTED_SIGNERS)
        c.pop('key_form', None)
    return c


def rand_reenter(rng, tier, outer, ats=None):
    """1..2 nested operations for the signer of the packet case `outer`"""
    specs = []
    for _ in range(rng.choice([1, 1, 1, 2])):
        at = rng.choice(ats or REENTER_AT + ['value-before', 'value-after'])
        r = rng.random()
        if r < 0.55:
            specs.append({'at': at, 'case': nested_packet_case(rng, tier)})
        elif r < 0.8 and outer['signer'][0] not in ('none',):
            specs.append({'at': at, 'case': nested_packet_case(rng, tier, outer), 'same': True})
        else:
            specs.append({'at': at, 'cert': {'signer': rng.choice(NESTED_SIGNERS), 'len': rng.choice([0, 32, 91, 294])}})
    return specs
