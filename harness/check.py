#!/venv/bin/python
"""Entry point: /venv/bin/python harness/check.py Cxx [--tier quick|thorough] [--replay file]"""
import os, sys
sys.path.insert(0, os.path.dirname(os.path.abspath(__file__)))
import lib

if __name__ == '__main__':
    lib.check_main()
