"""Virtual-time asyncio loop for deterministic replay of event histories.

`VLoop.time()` is a settable clock.  The test driver runs *outside* the loop and steps it:
`settle()` runs ready callbacks and timers due at the current instant until quiescence,
`advance(t)` moves the clock forward firing every timer on the way, in order.
Real time never passes: select() is always called with timeout 0 because `settle` only spins
the loop when something is ready or due.
"""
import asyncio
import heapq


class VLoop(asyncio.SelectorEventLoop):
    def __init__(self):
        super().__init__()
        self._vt = 0.0
        self.errors = []      # what reached the loop's unhandled-exception handler
        self.set_exception_handler(self._on_error)

    def _on_error(self, loop, context):
        exc = context.get('exception')
        self.errors.append((type(exc).__name__ if exc is not None else 'message', context.get('message', '')))

    def time(self):
        return self._vt

    # --- stepping -------------------------------------------------------------------------
    def _next_timer(self):
        while self._scheduled and self._scheduled[0]._cancelled:
            h = heapq.heappop(self._scheduled)
            h._scheduled = False
            self._timer_cancelled_count = max(0, self._timer_cancelled_count - 1)
        return self._scheduled[0]._when if self._scheduled else None

    def _busy(self):
        if self._ready:
            return True
        w = self._next_timer()
        return w is not None and w <= self._vt + 1e-12

    def settle(self, limit=100000):
        n = 0
        while self._busy():
            self.call_soon(self.stop)
            self.run_forever()
            n += 1
            if n > limit:
                raise RuntimeError('virtual loop did not quiesce')

    def advance(self, t):
        """move the clock to absolute time t (>= now), firing timers in order"""
        self.settle()
        while True:
            w = self._next_timer()
            if w is None or w > t:
                break
            if w > self._vt:
                self._vt = w
            self.settle()
        if t > self._vt:
            self._vt = t
        self.settle()

    def run_now(self, coro):
        """start `coro` as a task at the current instant and settle; returns the task"""
        task = self.create_task(coro)
        self.settle()
        return task

    def call_now(self, fn, *args):
        """run a plain callable inside the loop (so get_running_loop works) and settle"""
        box = {}

        def _run():
            try:
                box['r'] = fn(*args)
            except BaseException as e:     # noqa
                box['e'] = e
        self.call_soon(_run)
        self.settle()
        if 'e' in box:
            raise box['e']
        return box.get('r')

    def shutdown(self):
        try:
            for t in asyncio.all_tasks(self):
                t.cancel()
            self.settle()
        finally:
            self.close()


def new_loop():
    loop = VLoop()
    asyncio.set_event_loop(loop)
    return loop
