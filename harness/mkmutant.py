#!/usr/bin/env python3
"""usage: mkmutant.py Cxx name file(relative to /repo) OLD NEW  -> writes mutants/Cxx/name.diff (unified, -p1)"""
import sys, os, difflib
prop, name, f, old, new = sys.argv[1:6]
src = open(os.path.join('/repo', f)).read()
assert src.count(old) >= 1, 'OLD not found'
dst = src.replace(old, new, 1)
d = ''.join(difflib.unified_diff(src.splitlines(True), dst.splitlines(True), 'a/' + f, 'b/' + f))
os.makedirs(f'/verif/mutants/{prop}', exist_ok=True)
open(f'/verif/mutants/{prop}/{name}.diff', 'w').write(d)
