#!/venv/bin/python
"""Re-run the behaviour-preserving rewrites of mutants/benign against every property whose anchored files they touch.

usage: harness/benign_sweep.py [out.jsonl]     (sequential; one scratch copy of /repo/src per rewrite, removed afterwards)
A non-zero exit of a check on a benign rewrite is a FALSE ALARM unless it is the documented kind
(`no-failing-input-found`: a broken proof obligation / model-implementation disagreement without a failing input, which
the brief allows for a harmless rewrite).  The drift sensor is switched off (VERIF_NO_DRIFT=1) so that the quick tier
stays quick; no evidence is written."""
import glob, json, os, re, shutil, subprocess, sys, tempfile

HERE = os.path.dirname(os.path.abspath(__file__))
ROOT = os.path.dirname(HERE)


def main():
    out = sys.argv[1] if len(sys.argv) > 1 else '/dev/stdout'
    anchors = json.load(open(os.path.join(HERE, 'ast_hashes.json')))
    rows = []
    for diff in sorted(glob.glob(os.path.join(ROOT, 'mutants', 'benign', '*.diff'))):
        files = set(re.findall(r'^\+\+\+ b/(\S+)', open(diff).read(), re.M))
        props = sorted(p for p, fs in anchors.items() if not p.startswith('_') and files & set(fs))
        if not props:
            rows.append({'rewrite': os.path.basename(diff), 'props': [], 'note': 'touches no anchored file'})
            continue
        d = tempfile.mkdtemp(prefix='bs-', dir='/tmp')
        try:
            shutil.copytree('/repo/src', os.path.join(d, 'src'))
            r = subprocess.run(['patch', '-p1', '-s', '-i', diff], cwd=d, capture_output=True, text=True)
            if r.returncode != 0:
                rows.append({'rewrite': os.path.basename(diff), 'props': props, 'note': 'patch no longer applies'})
                continue
            for p in props:
                env = dict(os.environ, VERIF_REPO=d, VERIF_NO_EVIDENCE='1', VERIF_NO_DRIFT='1')
                r = subprocess.run(['/venv/bin/python', os.path.join(HERE, 'check.py'), p], cwd=ROOT, env=env,
                                   capture_output=True, text=True)
                viol = [l for l in r.stdout.splitlines() if l.startswith('VIOLATION')]
                rows.append({'rewrite': os.path.basename(diff), 'prop': p, 'exit': r.returncode,
                             'violations': viol[:3],
                             'kind': ('ok' if r.returncode == 0 else
                                      'documented' if viol and all('no-failing-input-found' in v for v in viol) else
                                      'ALARM')})
                print(json.dumps(rows[-1]), flush=True)
        finally:
            shutil.rmtree(d, ignore_errors=True)
    for p in sorted(anchors):
        subprocess.run(['/venv/bin/python', os.path.join(HERE, 'regen.py'), p], cwd=ROOT, capture_output=True)
    if out != '/dev/stdout':
        with open(out, 'w') as f:
            for r in rows:
                f.write(json.dumps(r) + '\n')
    bad = [r for r in rows if r.get('kind') == 'ALARM']
    print(f'{len(rows)} runs, {len(bad)} alarms, {sum(1 for r in rows if r.get("kind") == "documented")} documented-kind')
    return 1 if bad else 0


if __name__ == '__main__':
    sys.exit(main())
