"""A translator from a small, explicitly delimited subset of Python to Lean 4 definitions.

    /venv/bin/python harness/py2lean.py [repo] [TlvVar|Component|TlvModelFields|NameGen]    # prints lean/NdnGen/<that>.lean

The text of a function is read with `ast`; nothing is executed and nothing is recognised "by shape": every construct
is mapped compositionally to one definition of lean/NdnModel/PySem.lean (namespace Ndn.Py) or to core Lean, and a
function that uses ANYTHING outside the subset below is not translated: the output then contains
`def <fn>_translated : Bool := false` and a comment naming the construct and its line (never a guess), the Lean
definition `<fn>` does not exist, and every theorem about it stops checking.

THE SUBSET
  functions   module-level `def` (not async, no decorators, no *args/**kwargs), every parameter annotated `int` or a
              byte-string type (bytes, bytearray, memoryview, BinaryStr, VarBinaryStr); defaults must be int literals;
              return annotation `int`, a byte-string type, or a tuple of these written `(int, int)` / `Tuple[int, int]`
  statements  docstring; `pass`; `x = e`; `a, b = e`; `x += e` (`-= *=`); `if/elif/else` (any nesting; the code that
              follows a branch that falls through is continued in that branch); `return e`; `raise Exc` / `raise Exc(...)`
              with Exc one of the names of EXC below and arguments that are constants or f-strings over pure
              expressions (the message is not modelled); a call as a statement
  int exprs   literals (decimal, hex, ...), names, `+ - *`, unary `-`/`+`, `//` and `%` by a POSITIVE int literal,
              `<<` and `>>` by a non-negative int literal, `& |`, `len(x)`, `x[i]` on a byte string (an int),
              `t[i]` on a tuple of ints, `int(x)` of an int
  byte exprs  names, bytes literals, `x[a:b]` / `x[a:]` / `x[:b]` / `x[:]` (step 1), `a + b`, `bytes(x)`, `bytearray(x)`,
              `memoryview(x)` (all three are the identity on the value), `struct.pack('!…', v, …)`
  tuples      `a, b` of ints; `struct.unpack('!…', x)`, `struct.unpack_from('!…', x[, off])`; a translated function's result
  struct      format strings must be literals starting with `!` (`>` is accepted too) followed by the codes B H I L Q
              (unsigned, no repeat counts, no padding): widths 1 2 4 4 8
  tests       comparisons `< <= > >= == !=` (chains allowed) between ints, `== !=` between byte strings, `and`, `or`,
              `not` over such tests (operands after the first must be free of calls that can raise); conditional
              expressions `a if c else b`
  calls       other functions of the same module that are themselves inside the subset (positional / keyword
              arguments, int defaults), and functions of a sibling module translated in the same run that are
              imported by `from ..module import name`; recursion is outside the subset
  constants   a module-level `NAME = <int literal>` that is bound exactly once in the module (and never declared
              `global`) may be read, also as a parameter default; it is inlined
  more ints   `int.from_bytes(x, 'big')`
  local bufs  `name = bytearray(n)` (n an int expression) makes `name` a local buffer: it may be written with
              struct.pack_into / passed to functions that write to it / spliced with `name[a:] = x`, `name[a:b] = x`,
              under the same aliasing rules as a buffer parameter (no second name, slices only where they are
              consumed at once); the name `_` may be used as an assignment target
  buffers     a parameter that the function (or a function it is passed to) writes through `struct.pack_into` is a
              MUTATED buffer: the Lean function then returns the final contents of that buffer next to the result
              (`Except PyErr (result × Bytes)`).  Such a parameter may only be rebound by `p = memoryview(p)`, may be
              passed on only as a plain name, a call that writes to it must be the whole right-hand side / statement
              / return value, and a slice of it may only appear in a `return` or directly inside `struct.unpack(...)`,
              `bytes(...)`, `len(...)`: a slice kept in a variable would be an alias whose later contents the list
              model would get wrong, so that is outside the subset.

  methods     a method `def m(self, ...)` of a class bound once at module level (no decorators, no metaclass keyword on
              the class itself) is translated as a function of the attributes `self.x` it reads and of its other
              parameters.  Python does not declare their types, so the request does (MethodSig / TLV_MODEL_METHODS):
              each attribute and each un-annotated parameter gets one of int, byte string, bool, `key` (a str used as
              a name / dictionary key: Lean String), `str` (text, seen through its UTF-8 encoding: Py.Str), `dict`
              (name string -> int: the markers scratch map), "None or T", or "not used"; an attribute may instead be
              fixed to True / False (one translation per value).  The attributes must be plain instance data (no
              class-level definition of that name in the class or its bases in the module); `self` may only be read
              through attributes; a return annotation may be missing (then all returns must agree).
  with that   `x is None` / `x is not None` as the whole test of an `if` on an optional variable (a `match`; the variable
              has its value type where it is not None); truthiness of a bool / optional bool / int / byte string;
              `isinstance(x, int)` / `isinstance(x, str)` and tests on fixed attributes are DECIDED from the declared
              types and only the branch that runs is translated; `True` / `False`; `k ** e` for a positive literal k;
              f-strings of literal text and name strings (dictionary keys); `d[key]` and `d[key] = int` on the dict
              (which is then returned like a written buffer); `x.encode('utf-8')` on text, `b.decode('utf-8')`;
              `b[i] = <literal 0..255>`; `b[a:b] = x` on a buffer parameter (same-size case only, see Py.setSliceSameSize);
              `x += f(...)` for a translated f.

  lists       a parameter annotated `FormalName` / `list[<byte-string type>]` (or declared so by the request) is a LIST OF
              BYTE STRINGS (`List Bytes`); so is a result annotated `list[memoryview]`, also inside a tuple.  On such a
              value: `len(l)`, `l[a:b]` / `l[:b]` / `l[a:]`, `l == m` / `l != m`, truthiness.  `l = []` makes `l` a local
              list this function owns (outside loops, a new name); `l.append(x)` (x a byte string) is allowed on such a
              list only, and it may have no second name and may not be sliced.
  reduce      `reduce(lambda x, y: <int expression over x, y and other names, nothing that can raise>, <list>, <int>)`
              where `reduce` is functools.reduce (imported plainly, never rebound): `Py.reduce` (a left fold).
  for         `for x in <list given by name>:` with a body inside the statement subset (no `return` / `break` /
              `continue` / `else`; `raise` is fine): `Py.forEach` over the values of the variables the body assigns (and of
              the buffers / local lists it mentions); x must be a new name, the list may not be assigned in the body, a
              name first bound inside the body (and x) may not be read after the loop, the body may not change the type of
              a variable or which buffers the function owns.
  while       `while <test>:` with such a body: a separate definition `<fn>_loop_<k>` by recursion on a FUEL argument over
              the same loop-carried variables; the loop ends when the test is false, running out of fuel is `PyErr.other`
              ("not modelled").  The fuel is an int expression over the variables at loop entry DECLARED by the request
              (NAME_SPECS) - a theorem has to show that it is never exhausted (Props/NameGen.lean: decode_error_class).
  optional    a parameter annotated `<byte-string type> | None` with default `None`: `Option Bytes`.  `if p:` / `if not p:`
  buffer      on it is a `match`: None is false, a byte string is true unless empty (the false branch is translated for
              both).  If the function writes to it, it may be rebound ONCE, outside loops, to a fresh `bytearray(n)`: from
              there on the name is a buffer the function owns, and what is returned next to the result is what the
              CALLER's object holds (None, or the byte string passed, unchanged).
  bool value  a comparison / `not` / `and` / `or` of comparisons used as a value (`return a <= b and l == m`): `decide`;
              return annotation `bool`.
  declared    the request may declare (NAME_SPECS; written into the comment of the generated definition) the types of
              un-annotated / loosely annotated parameters, and that a named function of the module returns an equal list
              on an argument that already is a list of byte strings (`normalize` in `is_prefix`: the translation is then
              for such arguments only).

Python ints are Lean `Int`, byte strings are `List UInt8`, exceptions are `Except.error` of `Ndn.PyErr`.
`PyErr.other` in a Py.* primitive marks an input on which CPython's behaviour is NOT modelled (it is never the result
of a model function, so no equality theorem can hold there by accident).
"""
import ast
import os
import sys

EXC = {'IndexError': '.indexError', 'ValueError': '.valueError', 'TypeError': '.typeError', 'KeyError': '.keyError',
       'DecodeError': '.decodeError', 'OverflowError': '.overflowError', 'AttributeError': '.attributeError',
       'UnicodeDecodeError': '.unicodeError', 'struct.error': '.structError'}
BYTES_ANN = {'bytes', 'bytearray', 'memoryview', 'BinaryStr', 'VarBinaryStr'}
WIDTH = {'B': 1, 'H': 2, 'I': 4, 'L': 4, 'Q': 8}
LEAN_KEYWORDS = {'at', 'from', 'end', 'open', 'instance', 'type', 'fun', 'let', 'have', 'show', 'then', 'else', 'if', 'do',
                 'match', 'with', 'in', 'where', 'def', 'theorem', 'namespace', 'section', 'variable', 'universe',
                 'import', 'by', 'Type', 'Prop', 'Sort', 'structure', 'class', 'inductive', 'mutual', 'private',
                 'protected', 'partial', 'unsafe', 'macro', 'syntax', 'notation', 'infix', 'prefix', 'postfix',
                 'return', 'for', 'unless', 'try', 'catch', 'finally', 'mut', 'break', 'continue', 'pure', 'this',
                 'using', 'deriving', 'extends', 'abbrev', 'example', 'axiom', 'opaque', 'set_option', 'attribute',
                 'export', 'local', 'scoped', 'nomatch', 'nofun', 'calc', 'suffices', 'obtain', 'exact', 'forall',
                 'exists', 'true', 'false', 'some', 'none', 'Int', 'Nat', 'List', 'Bytes', 'Except', 'PyErr', 'Py'}

INT = 'int'
BYTES = 'bytes'
BOOL = 'bool'        # True / False
STR = 'str'          # a Python str used as TEXT: seen through its UTF-8 encoding (Py.Str)
KEY = 'key'          # a Python str used as a dictionary key / name (Lean String): only built, compared, looked up
DICT = 'dict'        # a dict from KEY to int (the `markers` scratch map): Py.Dict
POISON = 'poison'    # a name bound inside a loop body, after the loop (whether it is bound depends on the iterations)
UNUSED = 'unused'    # a parameter the function must not mention (no Lean parameter is made for it)
LIST = 'list'        # a list of byte strings (FormalName): List Bytes
LIST_ANN = {'FormalName'}


def opt(t):
    """`None` or a value of type t"""
    return ('opt', t)


def is_tup(t):
    return isinstance(t, tuple) and t[0] == 'tuple'


def is_opt(t):
    return isinstance(t, tuple) and t[0] == 'opt'


def tup(ts):
    return ('tuple', tuple(ts))


def lean_type(t):
    if t == INT:
        return 'Int'
    if t == BYTES:
        return 'Bytes'
    if t in (BOOL, STR, KEY, DICT, LIST):
        return {BOOL: 'Bool', STR: 'Py.Str', KEY: 'String', DICT: 'Py.Dict', LIST: '(List Bytes)'}[t]
    if t == tup([]):
        return 'Unit'
    if is_opt(t):
        return f'(Option {lean_type(t[1])})'
    return '(' + ' × '.join(lean_type(x) for x in t[1]) + ')'


class Untranslatable(Exception):
    def __init__(self, what, node=None):
        line = getattr(node, 'lineno', None)
        super().__init__(what + (f' (line {line})' if line else ''))


def ident(name):
    """Lean identifier of a Python name, or of the attribute path `self.x` (a parameter `self_x` of the translation)"""
    if name.startswith('self.'):
        return 'self_' + name[5:]
    return f'«{name}»' if name in LEAN_KEYWORDS else name


def lean_str(text):
    if not all(32 <= ord(c) < 127 for c in text):
        raise Untranslatable('string literal with characters outside printable ASCII')
    return '"' + text.replace('\\', '\\\\').replace('"', '\\"') + '"'


def fmt_widths(node):
    if not (isinstance(node, ast.Constant) and isinstance(node.value, str)):
        raise Untranslatable('struct format that is not a string literal', node)
    f = node.value
    if not f or f[0] not in '!>':
        raise Untranslatable(f'struct format {f!r} without the network-order prefix "!" (native sizes / padding)', node)
    ws = []
    for c in f[1:]:
        if c not in WIDTH:
            raise Untranslatable(f'struct format code {c!r}', node)
        ws.append(WIDTH[c])
    if not ws:
        raise Untranslatable('empty struct format', node)
    return ws


def ann_type(node):
    """type of a parameter / return annotation, or None"""
    if node is None:
        return None
    if isinstance(node, ast.Name):
        if node.id == 'int':
            return INT
        if node.id in BYTES_ANN:
            return BYTES
        if node.id in LIST_ANN:
            return LIST
        if node.id == 'bool':
            return BOOL
        return None
    if isinstance(node, ast.Subscript) and isinstance(node.value, ast.Name) and node.value.id in ('list', 'List'):
        return LIST if ann_type(node.slice) == BYTES else None
    if isinstance(node, ast.BinOp) and isinstance(node.op, ast.BitOr) and isinstance(node.right, ast.Constant) \
            and node.right.value is None:
        t = ann_type(node.left)
        return opt(t) if t in (INT, BYTES) else None
    if isinstance(node, ast.Tuple):
        ts = [ann_type(e) for e in node.elts]
        return tup(ts) if ts and all(t is not None for t in ts) else None
    if isinstance(node, ast.Subscript) and isinstance(node.value, ast.Name) and node.value.id in ('Tuple', 'tuple'):
        return ann_type(node.slice if isinstance(node.slice, ast.Tuple) else ast.Tuple(elts=[node.slice]))
    return None


class Sig:
    def __init__(self, fn, consts=None, spec=None):
        self.fn = fn
        self.name = fn.name
        self.consts = consts or {}
        self.spec = spec or {}        # what the request declares: {'params': {name: type}, 'identity_calls': [...],
        #                               'fuel': [python int expression for each while loop, in source order]}
        self.lean_name = ident(fn.name)                   # how translated code refers to it
        self.done = False                                 # translated successfully
        self.error = None
        self.params = []          # (name, type, default literal | None)
        self.ret = None
        self.mutated = set()      # indices of parameters written to
        try:
            self._read()
        except Untranslatable as e:
            self.error = str(e)

    def _read(self):
        fn = self.fn
        if isinstance(fn, ast.AsyncFunctionDef):
            raise Untranslatable('async def', fn)
        if fn.decorator_list:
            raise Untranslatable('decorated function', fn)
        a = fn.args
        if a.vararg or a.kwarg or a.kwonlyargs or a.posonlyargs:
            raise Untranslatable('*args / **kwargs / keyword-only / positional-only parameters', fn)
        defaults = [None] * (len(a.args) - len(a.defaults)) + list(a.defaults)
        for p, d in zip(a.args, defaults):
            t = self.spec.get('params', {}).get(p.arg) or ann_type(p.annotation)
            if t not in (INT, BYTES, LIST, opt(BYTES)):
                raise Untranslatable(f'parameter {p.arg!r} without an int / byte-string / list-of-byte-strings '
                                     'annotation', p)
            dv = None
            if d is not None:
                if isinstance(d, ast.Constant) and d.value is None and is_opt(t):
                    dv = 'none'
                elif isinstance(d, ast.Constant) and type(d.value) is int and t == INT:
                    dv = d.value
                elif isinstance(d, ast.Name) and d.id in self.consts and t == INT:
                    dv = self.consts[d.id]          # (defaults are evaluated once, at definition time)
                else:
                    raise Untranslatable(f'default value of parameter {p.arg!r} that is not an int literal / '
                                         'module-level int constant', d)
            self.params.append((p.arg, t, dv))
        self.ret = ann_type(fn.returns)
        if self.ret is None:
            raise Untranslatable('return annotation that is not int / a byte-string type / a tuple of these', fn)


class MethodSig(Sig):
    """a method `cls.meth(self, ...)` translated as a function of the attributes of `self` it reads and of its other
    parameters.  spec = {'attrs': {attribute: type}, 'static': {attribute: True / False}, 'params': {parameter: type}}:
    the types under which the method is translated (Python does not declare them); parameters not listed get the type
    of their annotation (`int`, a byte-string type, `dict`)."""

    def __init__(self, cls_name, fn, spec, variant, consts=None):
        self.cls_name = cls_name
        self.spec = spec
        self.variant = variant
        self.static = dict(spec.get('static', {}))
        super().__init__(fn, consts, spec)
        self.name = f'{cls_name}_{fn.name}' + (f'_{variant}' if variant else '')
        self.lean_name = ident(self.name)

    def _read(self):
        fn = self.fn
        if isinstance(fn, ast.AsyncFunctionDef):
            raise Untranslatable('async def', fn)
        if fn.decorator_list:
            raise Untranslatable('decorated method', fn)
        a = fn.args
        if a.vararg or a.kwarg or a.kwonlyargs or a.posonlyargs or a.defaults:
            raise Untranslatable('*args / **kwargs / keyword-only / positional-only / default parameters', fn)
        if not a.args or a.args[0].arg != 'self':
            raise Untranslatable('method whose first parameter is not `self`', fn)
        attrs = []
        for n in ast.walk(fn):
            if isinstance(n, ast.Name) and n.id == 'self':
                par = getattr(n, '_parent', None)
                if not (isinstance(par, ast.Attribute) and par.value is n and isinstance(par.ctx, ast.Load)):
                    raise Untranslatable('`self` used other than to read an attribute', n)
                if par.attr in self.static:
                    continue
                if par.attr not in self.spec.get('attrs', {}):
                    raise Untranslatable(f'attribute self.{par.attr} (not among the declared data attributes)', par)
                if par.attr not in attrs:
                    attrs.append(par.attr)
        for x in sorted(attrs, key=list(self.spec['attrs']).index):
            self.params.append(('self.' + x, self.spec['attrs'][x], None))
        for p in a.args[1:]:
            t = self.spec.get('params', {}).get(p.arg)
            if t is None:
                t = ann_type(p.annotation)
                if t is None and isinstance(p.annotation, ast.Name) and p.annotation.id == 'dict':
                    t = DICT
            if t is None:
                raise Untranslatable(f'parameter {p.arg!r} without a declared type', p)
            if t == UNUSED:
                if any(isinstance(n, ast.Name) and n.id == p.arg for n in ast.walk(fn)):
                    raise Untranslatable(f'parameter {p.arg!r} is used (it is declared as not used)', p)
                continue
            self.params.append((p.arg, t, None))
        self.ret = ann_type(fn.returns)       # None: inferred from the return statements (they must agree)


def _set_parents(tree):
    for n in ast.walk(tree):
        for c in ast.iter_child_nodes(n):
            c._parent = n


def _is_struct_call(node, attr):
    return (isinstance(node, ast.Call) and isinstance(node.func, ast.Attribute) and node.func.attr == attr
            and isinstance(node.func.value, ast.Name) and node.func.value.id == 'struct')


def compute_mutated(sigs):
    """fixpoint: parameter i of f is mutated when f hands it to struct.pack_into as the buffer, or to a mutated
    parameter position of another function of the module"""
    changed = True
    while changed:
        changed = False
        for s in sigs.values():
            if s.error:
                continue
            names = [p[0] for p in s.params]
            for n in ast.walk(s.fn):
                if isinstance(n, ast.Subscript) and isinstance(n.ctx, ast.Store) and isinstance(n.value, ast.Name) \
                        and n.value.id in names and names.index(n.value.id) not in s.mutated:
                    s.mutated.add(names.index(n.value.id))      # p[i] = x
                    changed = True
                if not isinstance(n, ast.Call):
                    continue
                hit = []
                if _is_struct_call(n, 'pack_into') and len(n.args) >= 2:
                    hit.append(n.args[1])
                elif isinstance(n.func, ast.Name) and n.func.id in sigs and not sigs[n.func.id].error:
                    g = sigs[n.func.id]
                    gnames = [p[0] for p in g.params]
                    for j in g.mutated:
                        if j < len(n.args):
                            hit.append(n.args[j])
                        for k in n.keywords:
                            if k.arg == gnames[j]:
                                hit.append(k.value)
                for h in hit:
                    if isinstance(h, ast.Name) and h.id in names:
                        i = names.index(h.id)
                        if i not in s.mutated:
                            s.mutated.add(i)
                            changed = True


class FnTranslator:
    def __init__(self, sig, sigs, consts=None, module_binds=None):
        self.sig = sig
        self.sigs = sigs              # name in this module -> Sig (own functions and imported ones)
        self.consts = consts or {}    # module-level int constants
        self.module_binds = module_binds or {}
        self.static = getattr(sig, 'static', {})     # attributes of self with a value fixed by the specification
        self.ptype = {p[0]: p[1] for p in sig.params}
        self.localbufs = set()        # local names bound to a fresh bytearray(n): buffers this function owns
        self.fresh = None
        self.ntmp = 0
        self.used = {n.id for n in ast.walk(sig.fn) if isinstance(n, ast.Name)} | {p[0] for p in sig.params}
        self.mut = [sig.params[i][0] for i in sorted(sig.mutated)]
        self.mut_expr = {m: ident(m) for m in self.mut}   # Lean term for the caller's object behind a written parameter
        self.locallists = set()       # local names bound to a fresh `[]`: lists this function owns (may be appended to)
        self.identity_calls = set(sig.spec.get('identity_calls', ())) if isinstance(sig.spec, dict) else set()
        self.fuel_specs = list(sig.spec.get('fuel', ())) if isinstance(sig.spec, dict) else []
        self.reduce_ok = False        # `reduce` is functools.reduce in this module (set by translate_module)
        self.in_loop = 0
        self.nloop = 0
        self.aux = []                 # definitions of while loops, emitted before the function

    # ------------------------------------------------------------------ helpers
    def tmp(self):
        while True:
            self.ntmp += 1
            n = f'tmp_{self.ntmp}'
            if n not in self.used:
                return n

    def ret_type(self):
        t = lean_type(self.sig.ret)
        for m in self.mut:
            t += ' × ' + lean_type(self.ptype[m])
        return f'Except PyErr ({t})' if self.mut else f'Except PyErr {t}'

    def ret_term(self, term):
        return 'pure ' + ('(' + ', '.join([term] + [self.mut_expr[m] for m in self.mut]) + ')' if self.mut else term)

    def save_state(self):
        return set(self.localbufs), set(self.locallists), dict(self.mut_expr)

    def restore_state(self, st):
        self.localbufs, self.locallists, self.mut_expr = set(st[0]), set(st[1]), dict(st[2])

    # ------------------------------------------------------------------ expressions
    # expr(node, env, pre, ctx) -> (lean term, type); effectful parts are appended to `pre` as do-lines in evaluation order
    def bind(self, pre, rhs, t):
        n = self.tmp()
        pre.append(f'let {n} ← {rhs}')
        return n, t

    def builtin(self, name, env, node):
        """`name` is the Python builtin of that name here (not a local, not rebound in the module)"""
        if name in env or name in self.module_binds:
            raise Untranslatable(f'the builtin {name!r} is rebound', node)
        return True

    def self_attr(self, node):
        """`self.x` -> 'x'"""
        if isinstance(node, ast.Attribute) and isinstance(node.value, ast.Name) and node.value.id == 'self' \
                and 'self' not in self.ptype:
            return node.attr
        return None

    def path(self, node, env):
        """a variable: a local / parameter name, or an attribute `self.x` that is a parameter of the translation"""
        if isinstance(node, ast.Name) and node.id in env:
            return node.id
        a = self.self_attr(node)
        if a is not None and 'self.' + a in env:
            return 'self.' + a
        return None

    def pure_expr(self, node, env, what):
        pre = []
        r = self.expr(node, env, pre)
        if pre:
            raise Untranslatable(f'{what} that contains an operation that can raise', node)
        return r

    def int_lit(self, node):
        seg = None
        v = node.value
        # keep the spelling of the source for hex literals (readability of the generated file)
        src = getattr(self, 'source_seg', None)
        if src is not None:
            seg = ast.get_source_segment(src, node)
        if seg is not None:
            s = seg.replace('_', '').lower()
            if s.startswith('0x') and int(s, 16) == v:
                return f'(0x{s[2:].upper()} : Int)'
        return f'({v} : Int)'

    def expr(self, node, env, pre, slice_ok=False):
        if isinstance(node, ast.Constant):
            if type(node.value) is int:
                return self.int_lit(node), INT
            if isinstance(node.value, bytes):
                return '([' + ', '.join(str(b) for b in node.value) + '] : Bytes)', BYTES
            if node.value is True or node.value is False:
                return ('true' if node.value else 'false'), BOOL
            raise Untranslatable(f'constant of type {type(node.value).__name__}', node)
        if self.self_attr(node) is not None:
            a = self.self_attr(node)
            if a in self.static:
                return ('true' if self.static[a] else 'false'), BOOL
            if 'self.' + a in env:
                return ident('self.' + a), env['self.' + a]
            raise Untranslatable(f'attribute self.{a}', node)
        if isinstance(node, ast.JoinedStr):
            # an f-string of literal text and names of type KEY: a dictionary key
            parts = []
            for v in node.values:
                if isinstance(v, ast.Constant) and isinstance(v.value, str):
                    parts.append(lean_str(v.value))
                elif isinstance(v, ast.FormattedValue) and v.format_spec is None and v.conversion == -1:
                    x, t = self.pure_expr(v.value, env, 'f-string substitution')
                    if t != KEY:
                        raise Untranslatable('f-string substitution of something that is not a name string', node)
                    parts.append(x)
                else:
                    raise Untranslatable('f-string with a format specification / conversion', node)
            return '(' + ' ++ '.join(parts or ['""']) + ')', KEY
        if isinstance(node, ast.Name):
            if node.id == '_':
                raise Untranslatable('reading the name `_`', node)
            if node.id not in env:
                if node.id in self.consts:
                    return f'({self.consts[node.id]} : Int)', INT
                raise Untranslatable(f'name {node.id!r} that is not a parameter, a local variable or a module-level '
                                     'int constant', node)
            if env[node.id] == POISON:
                raise Untranslatable(f'name {node.id!r} read after the loop that binds it', node)
            return ident(node.id), env[node.id]
        if isinstance(node, ast.List):
            if node.elts:
                raise Untranslatable('list display that is not the empty list', node)
            self.fresh_list = True
            return '([] : List Bytes)', LIST
        if isinstance(node, (ast.Compare, ast.BoolOp)) or (isinstance(node, ast.UnaryOp) and isinstance(node.op, ast.Not)):
            # a test used as a VALUE: only when every operand of and / or / not is itself a comparison or a bool (then
            # Python's result is that bool; `x and y` on other values would return an operand)
            self.bool_valued(node, env)
            c = self.test(node, env, pre)
            if c is True or c is False:
                return ('true' if c else 'false'), BOOL
            return f'(decide {c})', BOOL
        if isinstance(node, ast.Tuple):
            parts = [self.expr(e, env, pre) for e in node.elts]
            if not parts or any(t not in (INT, BYTES, LIST) for _, t in parts):
                raise Untranslatable('tuple whose elements are not ints / byte strings / lists of byte strings', node)
            return '(' + ', '.join(x for x, _ in parts) + ')', tup([t for _, t in parts])
        if isinstance(node, ast.UnaryOp):
            if isinstance(node.op, (ast.USub, ast.UAdd)):
                x, t = self.expr(node.operand, env, pre)
                if t != INT:
                    raise Untranslatable('unary minus on something that is not an int', node)
                return (f'(-{x})' if isinstance(node.op, ast.USub) else x), INT
            raise Untranslatable(f'unary operator {type(node.op).__name__} outside a test', node)
        if isinstance(node, ast.BinOp):
            return self.binop(node, env, pre)
        if isinstance(node, ast.IfExp):
            c = self.test(node.test, env, pre)
            if c is True or c is False:
                # decided by the declared types: only the branch that runs is translated
                return self.expr(node.body if c else node.orelse, env, pre)
            a, ta = self.pure_expr(node.body, env, 'conditional expression with a branch')
            b, tb = self.pure_expr(node.orelse, env, 'conditional expression with a branch')
            if ta != tb:
                raise Untranslatable('conditional expression whose branches have different types', node)
            return f'(if {c} then {a} else {b})', ta
        if isinstance(node, ast.Subscript):
            return self.subscript(node, env, pre, slice_ok)
        if isinstance(node, ast.Call):
            return self.call(node, env, pre, top=False)
        raise Untranslatable(f'expression {type(node).__name__}', node)

    def bool_valued(self, node, env):
        if isinstance(node, ast.Compare):
            if any(isinstance(o, (ast.Is, ast.IsNot, ast.In, ast.NotIn)) for o in node.ops):
                raise Untranslatable('is / in comparison used as a value', node)
            return
        if isinstance(node, ast.UnaryOp) and isinstance(node.op, ast.Not):
            return                  # `not x` is always a bool; its operand is read as a test
        if isinstance(node, ast.BoolOp):
            for v in node.values:
                self.bool_valued(v, env)
            return
        if isinstance(node, ast.Constant) and (node.value is True or node.value is False):
            return
        if isinstance(node, ast.Name) and env.get(node.id) == BOOL:
            return
        raise Untranslatable('and / or used as a value with an operand that is not a comparison / bool', node)

    def binop(self, node, env, pre):
        a, ta = self.expr(node.left, env, pre)
        op = node.op
        if isinstance(op, (ast.FloorDiv, ast.Mod, ast.LShift, ast.RShift)):
            r = node.right
            if not (isinstance(r, ast.Constant) and type(r.value) is int) or ta != INT:
                raise Untranslatable(f'{type(op).__name__} whose right operand is not an int literal', node)
            if isinstance(op, (ast.FloorDiv, ast.Mod)):
                if r.value <= 0:
                    raise Untranslatable(f'{type(op).__name__} by a literal that is not positive', node)
                return f"({a} {'/' if isinstance(op, ast.FloorDiv) else '%'} {self.int_lit(r)})", INT
            if r.value < 0:
                raise Untranslatable('shift by a negative literal', node)
            return f"(Py.{'shl' if isinstance(op, ast.LShift) else 'shr'} {a} {r.value})", INT
        b, tb = self.expr(node.right, env, pre)
        if isinstance(op, ast.Pow):
            l = node.left
            if not (isinstance(l, ast.Constant) and type(l.value) is int and l.value > 0 and tb == INT):
                raise Untranslatable('** whose base is not a positive int literal (or whose exponent is not an int)', node)
            return self.bind(pre, f'Py.powLit {l.value} {b}', INT)
        if ta == INT and tb == INT:
            if isinstance(op, (ast.Add, ast.Sub, ast.Mult)):
                return f"({a} {'+' if isinstance(op, ast.Add) else '-' if isinstance(op, ast.Sub) else '*'} {b})", INT
            if isinstance(op, (ast.BitAnd, ast.BitOr)):
                return f"(Py.{'band' if isinstance(op, ast.BitAnd) else 'bor'} {a} {b})", INT
        if ta == BYTES and tb == BYTES and isinstance(op, ast.Add):
            return f'({a} ++ {b})', BYTES
        raise Untranslatable(f'operator {type(op).__name__} on {ta} and {tb}', node)

    def buffer_name(self, node):
        """the mutated-buffer parameter a node denotes (`p` or `memoryview(p)`), or None"""
        if isinstance(node, ast.Name) and (node.id in self.mut or node.id in self.localbufs):
            return node.id
        if (isinstance(node, ast.Call) and isinstance(node.func, ast.Name) and node.func.id == 'memoryview'
                and len(node.args) == 1 and not node.keywords):
            return self.buffer_name(node.args[0])
        return None

    def subscript(self, node, env, pre, slice_ok):
        sl = node.slice
        if isinstance(sl, ast.Slice):
            if sl.step is not None:
                raise Untranslatable('slice with a step', node)
            if self.buffer_name(node.value) is not None and not slice_ok:
                raise Untranslatable('slice of a buffer this function writes to, outside return / struct.unpack / '
                                     'bytes / len (it would alias the buffer)', node)
            if isinstance(node.value, ast.Name) and node.value.id in self.locallists:
                raise Untranslatable('slice of a list this function appends to', node)
            x, t = self.expr(node.value, env, pre)
            if t != BYTES and t != LIST:
                raise Untranslatable('slice of something that is not a byte string / list of byte strings', node)
            BYTES_ = t
            lo = self.expr(sl.lower, env, pre) if sl.lower is not None else ('(0 : Int)', INT)
            if lo[1] != INT:
                raise Untranslatable('slice bound that is not an int', node)
            if sl.upper is None:
                return f'(Py.sliceFrom {x} {lo[0]})', BYTES_
            hi = self.expr(sl.upper, env, pre)
            if hi[1] != INT:
                raise Untranslatable('slice bound that is not an int', node)
            return f'(Py.slice {x} {lo[0]} {hi[0]})', BYTES_
        x, t = self.expr(node.value, env, pre)
        i, ti = self.expr(sl, env, pre)
        if t == DICT:
            if ti != KEY:
                raise Untranslatable('dictionary key that is not a name string', node)
            return self.bind(pre, f'Py.dictGet {x} {i}', INT)
        if ti != INT:
            raise Untranslatable('index that is not an int', node)
        if t == BYTES:
            return self.bind(pre, f'Py.bytesGet {x} {i}', INT)
        if is_tup(t):
            ts = t[1]
            if isinstance(sl, ast.Constant) and type(sl.value) is int and -len(ts) <= sl.value < len(ts):
                k = sl.value % len(ts)
                return self.proj(x, k, len(ts)), ts[k]
            if all(e == INT for e in ts):
                return self.bind(pre, f'Py.getItem {self.tuple_list(x, len(ts))} {i}', INT)
        raise Untranslatable(f'subscript on {t}', node)

    @staticmethod
    def proj(x, k, n):
        if n == 1:
            return x
        return f'{x}' + '.2' * k + ('.1' if k < n - 1 else '')

    def tuple_list(self, x, n):
        return '[' + ', '.join(self.proj(x, k, n) for k in range(n)) + ']'

    def call(self, node, env, pre, top):
        """top = the call is the whole right-hand side / statement / return value (only there may it write to a buffer).
        Returns (term, type); for a call that writes to buffers the rebinding of the buffer names is emitted here."""
        f = node.func
        if _is_struct_call(node, 'pack'):
            if node.keywords or not node.args:
                raise Untranslatable('struct.pack with keyword arguments', node)
            ws = fmt_widths(node.args[0])
            vals = [self.expr(a, env, pre) for a in node.args[1:]]
            if any(t != INT for _, t in vals):
                raise Untranslatable('struct.pack of a value that is not an int', node)
            return self.bind(pre, f"Py.pack {ws} [{', '.join(v for v, _ in vals)}]", BYTES)
        if _is_struct_call(node, 'unpack'):
            if node.keywords or len(node.args) != 2:
                raise Untranslatable('struct.unpack call shape', node)
            ws = fmt_widths(node.args[0])
            x, t = self.expr(node.args[1], env, pre, slice_ok=True)
            if t != BYTES:
                raise Untranslatable('struct.unpack of something that is not a byte string', node)
            n, _ = self.bind(pre, f'Py.unpack {ws} {x}', None)
            return self.list_to_tuple(pre, n, len(ws))
        if _is_struct_call(node, 'unpack_from'):
            if node.keywords or len(node.args) not in (2, 3):
                raise Untranslatable('struct.unpack_from call shape', node)
            ws = fmt_widths(node.args[0])
            x, t = self.expr(node.args[1], env, pre, slice_ok=True)
            o, to = self.expr(node.args[2], env, pre) if len(node.args) == 3 else ('(0 : Int)', INT)
            if t != BYTES or to != INT:
                raise Untranslatable('struct.unpack_from argument types', node)
            n, _ = self.bind(pre, f'Py.unpackFrom {ws} {x} {o}', None)
            return self.list_to_tuple(pre, n, len(ws))
        if _is_struct_call(node, 'pack_into'):
            if not top:
                raise Untranslatable('struct.pack_into inside a larger expression', node)
            if node.keywords or len(node.args) < 3:
                raise Untranslatable('struct.pack_into call shape', node)
            ws = fmt_widths(node.args[0])
            b = node.args[1]
            if not (isinstance(b, ast.Name) and (b.id in self.mut or b.id in self.localbufs)):
                raise Untranslatable('struct.pack_into into something that is not a buffer parameter / a local '
                                     'bytearray(n) given by name', node)
            o, to = self.expr(node.args[2], env, pre)
            vals = [self.expr(a, env, pre) for a in node.args[3:]]
            if to != INT or any(t != INT for _, t in vals):
                raise Untranslatable('struct.pack_into argument types', node)
            pre.append(f"let {ident(b.id)} ← Py.packInto {ws} [{', '.join(v for v, _ in vals)}] {ident(b.id)} {o}")
            return None, None           # value None
        if isinstance(f, ast.Attribute) and f.attr in ('encode', 'decode') and not node.keywords \
                and len(node.args) == 1 and isinstance(node.args[0], ast.Constant) \
                and str(node.args[0].value).lower().replace('_', '-') in ('utf-8', 'utf8') \
                and self.self_attr(f) is None:
            x, t = self.expr(f.value, env, pre, slice_ok=True)
            if f.attr == 'encode' and t == STR:
                return f'(Py.strEncodeUtf8 {x})', BYTES
            if f.attr == 'decode' and t == BYTES:
                return self.bind(pre, f'Py.bytesDecodeUtf8 {x}', STR)
            raise Untranslatable(f".{f.attr}('utf-8') on a value of type {t}", node)
        if (isinstance(f, ast.Attribute) and f.attr == 'from_bytes' and isinstance(f.value, ast.Name)
                and f.value.id == 'int' and 'int' not in env):
            # int.from_bytes(x, 'big') / int.from_bytes(x, byteorder='big'): unsigned, big-endian
            order = node.args[1] if len(node.args) == 2 and not node.keywords else \
                node.keywords[0].value if len(node.args) == 1 and len(node.keywords) == 1 \
                and node.keywords[0].arg == 'byteorder' else None
            if not (isinstance(order, ast.Constant) and order.value == 'big'):
                raise Untranslatable("int.from_bytes other than (x, 'big')", node)
            x, t = self.expr(node.args[0], env, pre, slice_ok=True)
            if t != BYTES:
                raise Untranslatable('int.from_bytes of something that is not a byte string', node)
            return f'(Py.intFromBytesBig {x})', INT
        if isinstance(f, ast.Name) and f.id == 'reduce' and f.id not in env and self.reduce_ok:
            # functools.reduce(lambda x, y: <int expression>, <list of byte strings>, <int>): a left fold
            if node.keywords or len(node.args) != 3 or not isinstance(node.args[0], ast.Lambda):
                raise Untranslatable('reduce other than reduce(lambda x, y: ..., sequence, initial)', node)
            lam = node.args[0]
            la = lam.args
            if la.vararg or la.kwarg or la.kwonlyargs or la.posonlyargs or la.defaults or len(la.args) != 2 \
                    or la.args[0].arg == la.args[1].arg:
                raise Untranslatable('reduce with a lambda that does not have exactly two plain parameters', node)
            seq, ts = self.expr(node.args[1], env, pre)
            ini, ti = self.expr(node.args[2], env, pre)
            if ts != LIST or ti != INT:
                raise Untranslatable('reduce over something that is not (list of byte strings, int)', node)
            xa, ya = la.args[0].arg, la.args[1].arg
            if xa in self.mut or ya in self.mut or xa in self.localbufs or ya in self.localbufs or '_' in (xa, ya):
                raise Untranslatable('lambda parameter that hides a buffer', node)
            env2 = dict(env)
            env2[xa], env2[ya] = INT, BYTES
            body, tb = self.pure_expr(lam.body, env2, 'lambda body')
            if tb != INT:
                raise Untranslatable('reduce with a lambda whose body is not an int expression', node)
            return f'(Py.reduce (fun ({ident(xa)} : Int) ({ident(ya)} : Bytes) => {body}) {seq} {ini})', INT
        if isinstance(f, ast.Name) and f.id in self.identity_calls and f.id not in env:
            # declared by the request (and stated in the generated comment): on a list of byte strings this function
            # of the module returns its argument (an equal list)
            if node.keywords or len(node.args) != 1:
                raise Untranslatable(f'{f.id}() call shape', node)
            x, t = self.expr(node.args[0], env, pre)
            if t != LIST:
                raise Untranslatable(f'{f.id}() of something that is not a list of byte strings', node)
            return x, LIST
        if isinstance(f, ast.Name) and f.id in ('len', 'bytes', 'bytearray', 'memoryview', 'int') and f.id not in env:
            self.builtin(f.id, env, node)
            if node.keywords or len(node.args) != 1:
                raise Untranslatable(f'{f.id}() call shape', node)
            x, t = self.expr(node.args[0], env, pre, slice_ok=(f.id in ('len', 'bytes', 'bytearray')))
            if f.id == 'bytearray' and t == INT:
                n, _ = self.bind(pre, f'Py.bytearrayOfSize {x}', BYTES)
                self.fresh = n                 # (an assignment `name = bytearray(n)` makes `name` a local buffer)
                return n, BYTES
            if f.id == 'int':
                if t != INT:
                    raise Untranslatable('int() of something that is not an int', node)
                return x, INT
            if f.id == 'len' and t == LIST:
                return f'(Py.len {x})', INT
            if t != BYTES:
                raise Untranslatable(f'{f.id}() of something that is not a byte string', node)
            return (f'(Py.len {x})', INT) if f.id == 'len' else (x, BYTES)
        if isinstance(f, ast.Name) and f.id in self.sigs and f.id not in env:
            g = self.sigs[f.id]
            if g is self.sig:
                raise Untranslatable('recursion', node)
            if not g.done:
                raise Untranslatable(f'call of {f.id}(), which is outside the subset', node)
            args = [None] * len(g.params)
            if len(node.args) > len(g.params):
                raise Untranslatable('too many arguments', node)
            for i, a in enumerate(node.args):
                if isinstance(a, ast.Starred):
                    raise Untranslatable('*argument', node)
                args[i] = a
            gn = [p[0] for p in g.params]
            by_keyword = set()
            for k in node.keywords:
                if k.arg not in gn or args[gn.index(k.arg)] is not None:
                    raise Untranslatable('keyword argument', node)
                args[gn.index(k.arg)] = k.value
                by_keyword.add(gn.index(k.arg))
            terms, outs = [], []
            for i, (a, (pn, pt, dv)) in enumerate(zip(args, g.params)):
                if a is None:
                    if dv is None:
                        raise Untranslatable(f'missing argument {pn!r}', node)
                    terms.append('none' if dv == 'none' else f'({dv} : Int)')
                    continue
                if i in g.mutated:
                    if not (isinstance(a, ast.Name) and (a.id in self.mut or a.id in self.localbufs)):
                        raise Untranslatable(f'buffer argument of {f.id}() (which writes to it) that is not a buffer '
                                             'parameter / a local bytearray(n) given by name', node)
                    outs.append(a.id)
                # (keyword arguments are evaluated in call-site order by Python, in parameter order here: they must
                # be free of operations that can raise, so that the order cannot be observed)
                x, t = self.pure_expr(a, env, 'keyword argument') if i in by_keyword else self.expr(a, env, pre)
                if t != pt:
                    raise Untranslatable(f'argument {pn!r} of {f.id}() has type {t}, expected {pt}', node)
                terms.append(x)
            callee = f"{g.lean_name} {' '.join(terms)}" if terms else g.lean_name
            if not g.mutated:
                return self.bind(pre, callee, g.ret)
            if not top:
                raise Untranslatable(f'call of {f.id}() (which writes to a buffer) inside a larger expression', node)
            if len(set(outs)) != len(outs):
                raise Untranslatable('the same buffer passed twice to a function that writes to it', node)
            n = self.tmp()
            pre.append(f"let ({', '.join([n] + [ident(b) for b in outs])}) ← {callee}")
            return n, g.ret
        raise Untranslatable(f'call of {ast.unparse(f)}', node)

    def list_to_tuple(self, pre, n, k):
        """a Lean list of exactly k ints (struct.unpack result) as a Python tuple: elements by position"""
        # `Py.unpack ws` returns a list with one entry per width; read by position with a total default
        elems = [f'({n}.getD {i} 0)' for i in range(k)]
        return ('(' + ', '.join(elems) + ')' if k > 1 else elems[0]), tup([INT] * k)

    # ------------------------------------------------------------------ tests
    def test(self, node, env, pre):
        """a Lean proposition (text), or True / False when the declared types decide the test"""
        if isinstance(node, ast.BoolOp):
            is_and = isinstance(node.op, ast.And)
            parts = []
            for k, v in enumerate(node.values):
                p2 = pre if k == 0 else []
                c = self.test(v, env, p2)
                if p2 is not pre and p2:
                    raise Untranslatable('and / or whose later operand contains an operation that can raise', node)
                if c is (not is_and):
                    # `x or True` / `x and False`: decided, provided nothing that can raise stands before it
                    if parts:
                        raise Untranslatable('and / or decided by a later operand', node)
                    return c
                if c is is_and:
                    continue                      # neutral operand
                parts.append(c)
            if not parts:
                return is_and
            return parts[0] if len(parts) == 1 else '(' + (' ∧ ' if is_and else ' ∨ ').join(parts) + ')'
        if isinstance(node, ast.UnaryOp) and isinstance(node.op, ast.Not):
            c = self.test(node.operand, env, pre)
            return (not c) if c is True or c is False else f'(¬ {c})'
        if isinstance(node, ast.Compare):
            if len(node.ops) == 1 and isinstance(node.ops[0], (ast.Is, ast.IsNot)):
                raise Untranslatable('`is` / `is not` other than as the whole test of an if statement on an optional '
                                     'variable', node)
            items = [self.expr(node.left, env, pre)]
            for c in node.comparators:
                p2 = pre if len(node.comparators) == 1 else []
                items.append(self.expr(c, env, p2))
                if p2 is not pre and p2:
                    raise Untranslatable('chained comparison with an operation that can raise', node)
            out = []
            for (a, ta), op, (b, tb) in zip(items, node.ops, items[1:]):
                sym = {ast.Lt: '<', ast.LtE: '≤', ast.Gt: '>', ast.GtE: '≥', ast.Eq: '=', ast.NotEq: '≠'}.get(type(op))
                if sym is None:
                    raise Untranslatable(f'comparison {type(op).__name__}', node)
                if ta != tb or not (ta == INT or (ta in (BYTES, LIST) and sym in '=≠')):
                    raise Untranslatable(f'comparison {type(op).__name__} between {ta} and {tb}', node)
                out.append(f'{a} {sym} {b}')
            return '(' + ' ∧ '.join(out) + ')'
        if isinstance(node, ast.Call) and isinstance(node.func, ast.Name) and node.func.id == 'isinstance':
            self.builtin('isinstance', env, node)
            if node.keywords or len(node.args) != 2 or not isinstance(node.args[1], ast.Name) \
                    or node.args[1].id not in ('int', 'str'):
                raise Untranslatable('isinstance other than isinstance(x, int) / isinstance(x, str)', node)
            self.builtin(node.args[1].id, env, node)
            _, t = self.pure_expr(node.args[0], env, 'isinstance argument')
            if t in (INT, BOOL, STR, KEY, BYTES, DICT):
                # decided by the declared type (bool is a subclass of int)
                return t in ((INT, BOOL) if node.args[1].id == 'int' else (STR, KEY))
            raise Untranslatable(f'isinstance on a value of type {t} (not decided by the declared types)', node)
        # truthiness of a value
        a = self.self_attr(node)
        if a is not None and a in self.static:
            return bool(self.static[a])
        if isinstance(node, (ast.Name, ast.Attribute)):
            x, t = self.pure_expr(node, env, 'test')
            if t == BOOL:
                return f'({x} = true)'
            if t == opt(BOOL):
                return f'({x} = some true)'
            if t == INT:
                return f'({x} ≠ 0)'
            if t == BYTES or t == LIST:
                return f'({x} ≠ [])'
            raise Untranslatable(f'truthiness of a value of type {t}', node)
        raise Untranslatable(f'test {type(node).__name__}', node)

    def none_test(self, node, env):
        """`x is None` / `x is not None` on an optional variable -> (variable, True when the test says None)"""
        if isinstance(node, ast.Compare) and len(node.ops) == 1 and isinstance(node.ops[0], (ast.Is, ast.IsNot)) \
                and isinstance(node.comparators[0], ast.Constant) and node.comparators[0].value is None:
            pth = self.path(node.left, env)
            if pth is not None and is_opt(env[pth]):
                return pth, isinstance(node.ops[0], ast.Is)
            if pth is not None:
                raise Untranslatable(f'`is None` on {pth}, which is never None under the declared types', node)
        return None

    # ------------------------------------------------------------------ statements
    def block(self, stmts, env, ind, k=None):
        """lines of a do-block for `stmts`.  k = None: every path must end in return / raise.  Inside a loop body k(env, ind)
        gives the lines that end an iteration (the loop-carried variables handed on) where the statements run out."""
        pad = '  ' * ind
        if not stmts:
            if k is None:
                raise Untranslatable('a path through the function that ends without return')
            return k(env, ind)
        s, rest = stmts[0], stmts[1:]
        env = dict(env)
        pre = []
        if isinstance(s, ast.Expr) and isinstance(s.value, ast.Constant) and isinstance(s.value.value, str):
            return self.block(rest, env, ind, k)
        if isinstance(s, ast.Pass):
            return self.block(rest, env, ind, k)
        if isinstance(s, ast.Return):
            if s.value is None:
                raise Untranslatable('return without a value', s)
            if self.in_loop:
                raise Untranslatable('return inside a loop', s)
            if isinstance(s.value, ast.Call):
                x, t = self.call_top(s.value, env, pre)
            else:
                x, t = self.expr(s.value, env, pre, slice_ok=True)
            if self.sig.ret is None:
                self.sig.ret = t                   # no annotation: the type of the first return, the others must agree
            if t != self.sig.ret:
                raise Untranslatable(f'return of a value of type {t}, annotated / elsewhere {self.sig.ret}', s)
            return [pad + l for l in pre] + [pad + self.ret_term(x)]
        if isinstance(s, ast.Raise):
            if s.cause is not None or s.exc is None:
                raise Untranslatable('raise ... from / bare raise', s)
            e = s.exc
            if isinstance(e, ast.Call):
                for a in list(e.args) + [k.value for k in e.keywords]:
                    self.message_arg(a, env)
                e = e.func
            name = ast.unparse(e)
            if name not in EXC:
                raise Untranslatable(f'raise of {name}', s)
            return [pad + f'.error {EXC[name]}']
        if isinstance(s, ast.Assign):
            if len(s.targets) != 1:
                raise Untranslatable('chained assignment', s)
            tgt = s.targets[0]
            if isinstance(tgt, ast.Subscript):
                return self.store(tgt, s.value, env, pad) + self.block(rest, env, ind, k)
            if isinstance(tgt, ast.Name) and tgt.id in self.mut:
                if self.buffer_name(s.value) == tgt.id and not isinstance(s.value, ast.Name):
                    return self.block(rest, env, ind, k)                  # p = memoryview(p): the same buffer
                if is_opt(self.ptype[tgt.id]) and tgt.id not in self.localbufs and not self.in_loop \
                        and isinstance(s.value, ast.Call) and isinstance(s.value.func, ast.Name) \
                        and s.value.func.id == 'bytearray':
                    # an OPTIONAL buffer parameter rebound to a fresh bytearray(n): from here on the name is a buffer
                    # this function owns; the caller's object (None / what was passed) keeps the contents it has now
                    self.fresh = None
                    x, t = self.call_top(s.value, env, pre)
                    if self.fresh is None or x != self.fresh:
                        raise Untranslatable(f'rebinding of the buffer parameter {tgt.id!r}', s)
                    keep = self.tmp()
                    lines = [pad + l for l in pre] + \
                        [pad + f'let {keep} : {lean_type(self.ptype[tgt.id])} := {self.mut_expr[tgt.id]}',
                         pad + f'let {ident(tgt.id)} : Bytes := {x}']
                    self.mut_expr[tgt.id] = keep
                    self.localbufs.add(tgt.id)
                    env[tgt.id] = BYTES
                    return lines + self.block(rest, env, ind, k)
                raise Untranslatable(f'rebinding of the buffer parameter {tgt.id!r}', s)
            if self.buffer_name(s.value) is not None:
                raise Untranslatable('a second name for a buffer this function writes to (alias)', s)
            if isinstance(s.value, ast.Name) and s.value.id in self.locallists:
                raise Untranslatable('a second name for a list this function appends to (alias)', s)
            self.fresh = None
            self.fresh_list = False
            if isinstance(s.value, ast.Call):
                x, t = self.call_top(s.value, env, pre)
            else:
                x, t = self.expr(s.value, env, pre)
            if x is None:
                raise Untranslatable('assignment of the result of struct.pack_into', s)
            if isinstance(tgt, ast.Name) and tgt.id in self.locallists and not isinstance(s.value, ast.List):
                raise Untranslatable(f'rebinding of the local list {tgt.id!r}', s)
            if isinstance(s.value, ast.List):
                if not isinstance(tgt, ast.Name) or (tgt.id in env and tgt.id not in self.locallists) or self.in_loop:
                    raise Untranslatable('`[]` that is not assigned to a new local name (outside loops)', s)
                self.locallists.add(tgt.id)
            is_fresh = self.fresh is not None and x == self.fresh
            if isinstance(tgt, ast.Name) and tgt.id in self.localbufs and not is_fresh:
                raise Untranslatable(f'rebinding of the local buffer {tgt.id!r}', s)
            if is_fresh:
                if not isinstance(tgt, ast.Name) or tgt.id in env and tgt.id not in self.localbufs:
                    raise Untranslatable('bytearray(n) that is not assigned to a new local name', s)
                self.localbufs.add(tgt.id)
            lines = [pad + l for l in pre]
            if isinstance(tgt, ast.Name):
                env[tgt.id] = t
                lines.append(pad + f'let {ident(tgt.id)} : {lean_type(t)} := {x}')
            elif isinstance(tgt, ast.Tuple) and all(isinstance(e, ast.Name) for e in tgt.elts):
                names = [e.id for e in tgt.elts]
                if not is_tup(t) or len(t[1]) != len(names):
                    raise Untranslatable('tuple assignment whose sides do not match', s)
                names_real = [n for n in names if n != '_']
                if len(set(names_real)) != len(names_real):
                    raise Untranslatable('tuple assignment with a repeated name', s)
                if any(n in self.mut or n in self.localbufs for n in names):
                    raise Untranslatable('rebinding of a buffer', s)
                # (a pattern `let`, not projections: the names are then substituted uniformly in what follows)
                for nm, tt in zip(names, t[1]):
                    if nm != '_':
                        env[nm] = tt
                lines.append(pad + f"let ({', '.join(ident(nm) for nm in names)}) : {lean_type(t)} := {x}")
            else:
                raise Untranslatable('assignment target that is not a name / tuple of names', s)
            return lines + self.block(rest, env, ind, k)
        if isinstance(s, ast.AugAssign):
            if not isinstance(s.target, ast.Name) or s.target.id in self.mut or s.target.id in self.localbufs:
                raise Untranslatable('augmented assignment target', s)
            if isinstance(s.value, ast.Call):
                # `x += f(...)`: x is read first, but f cannot change an int variable; f may write to a buffer
                sym = {ast.Add: '+', ast.Sub: '-', ast.Mult: '*'}.get(type(s.op))
                y, ty = self.call_top(s.value, env, pre)
                if sym is None or ty != INT or env.get(s.target.id) != INT:
                    raise Untranslatable('augmented assignment with a call on the right that is not int arithmetic', s)
                x, t = f'({ident(s.target.id)} {sym} {y})', INT
            else:
                x, t = self.binop(ast.copy_location(ast.BinOp(left=ast.Name(id=s.target.id, ctx=ast.Load()), op=s.op,
                                                              right=s.value), s), env, pre)
            env[s.target.id] = t
            return [pad + l for l in pre] + [pad + f'let {ident(s.target.id)} : {lean_type(t)} := {x}'] + \
                self.block(rest, env, ind, k)
        if isinstance(s, ast.Expr) and isinstance(s.value, ast.Call) and isinstance(s.value.func, ast.Attribute) \
                and s.value.func.attr == 'append' and isinstance(s.value.func.value, ast.Name) \
                and s.value.func.value.id in self.locallists:
            # `l.append(x)` on a list this function created with `[]` (no other name for it exists)
            l = s.value.func.value.id
            if s.value.keywords or len(s.value.args) != 1 or env.get(l) != LIST:
                raise Untranslatable('append() call shape', s)
            x, t = self.expr(s.value.args[0], env, pre)
            if t != BYTES:
                raise Untranslatable('append() of something that is not a byte string', s)
            return [pad + p_ for p_ in pre] + [pad + f'let {ident(l)} : (List Bytes) := ({ident(l)} ++ [{x}])'] + \
                self.block(rest, env, ind, k)
        if isinstance(s, (ast.For, ast.While)):
            return self.loop(s, rest, env, ind, k)
        if isinstance(s, ast.Expr):
            if not isinstance(s.value, ast.Call):
                raise Untranslatable('expression statement that is not a call', s)
            x, t = self.call_top(s.value, env, pre)
            return [pad + l for l in pre] + self.block(rest, env, ind, k)
        if isinstance(s, ast.If):
            body_t = self.terminates(s.body)
            else_t = self.terminates(s.orelse)
            if body_t and else_t and rest:
                raise Untranslatable('statements after an if whose branches all return / raise (unreachable code)', rest[0])
            then_stmts = list(s.body) + ([] if body_t else rest)
            else_stmts = list(s.orelse) + ([] if else_t else rest)
            nar = self.none_test(s.test, env)
            if nar is not None:
                # `if x is None:` on an optional variable: a match; x has its value type where it is not None
                pth, says_none = nar
                env_some = dict(env)
                env_some[pth] = env[pth][1]
                none_stmts, some_stmts = (then_stmts, else_stmts) if says_none else (else_stmts, then_stmts)
                if pth in self.mut:
                    raise Untranslatable('`is None` test on a parameter that is written to', s)
                return ([pad + f'match {ident(pth)} with', pad + '| none =>'] + self.block(none_stmts, env, ind + 1, k)
                        + [pad + f'| some {ident(pth)} =>'] + self.block(some_stmts, env_some, ind + 1, k))
            ot = self.opt_truth(s.test, env)
            if ot is not None:
                # `if x:` / `if not x:` on "None or a byte string": None is false, a byte string is true unless empty.
                # The false branch is translated twice (x is None; x is an empty byte string).
                pth, neg = ot
                true_stmts, false_stmts = (else_stmts, then_stmts) if neg else (then_stmts, else_stmts)
                st0 = self.save_state()
                if pth in self.mut:
                    self.mut_expr[pth] = 'none'
                l_none = self.block(false_stmts, env, ind + 1, k)
                self.restore_state(st0)
                env_some = dict(env)
                env_some[pth] = env[pth][1]
                if pth in self.mut:
                    self.mut_expr[pth] = f'(some {ident(pth)})'
                st1 = self.save_state()
                l_true = self.block(true_stmts, env_some, ind + 2, k)
                self.restore_state(st1)
                l_false = self.block(false_stmts, env_some, ind + 2, k)
                self.restore_state(st0)
                return ([pad + f'match {ident(pth)} with', pad + '| none =>'] + l_none + [pad + f'| some {ident(pth)} =>']
                        + [pad + f'  if ({ident(pth)} ≠ []) then'] + l_true + [pad + '  else'] + l_false)
            c = self.test(s.test, env, pre)
            if c is True or c is False:
                # decided by the declared types: only the branch that runs is translated
                return [pad + l for l in pre] + self.block(then_stmts if c else else_stmts, env, ind, k)
            st0 = self.save_state()
            a = self.block(then_stmts, env, ind + 1, k)
            self.restore_state(st0)
            b = self.block(else_stmts, env, ind + 1, k)
            self.restore_state(st0)
            return [pad + l for l in pre] + [pad + f'if {c} then'] + a + [pad + 'else'] + b
        raise Untranslatable(f'statement {type(s).__name__}', s)

    def opt_truth(self, node, env):
        """`x` / `not x` on a variable that is "None or a byte string" -> (variable, negated)"""
        neg = False
        while isinstance(node, ast.UnaryOp) and isinstance(node.op, ast.Not):
            node, neg = node.operand, not neg
        pth = self.path(node, env)
        if pth is not None and env[pth] == opt(BYTES):
            return pth, neg
        return None

    def loop(self, s, rest, env, ind, k):
        """`for x in <list of byte strings>:` -> Py.forEach (a fold in the exception monad over the variables the body
        assigns); `while <test>:` -> a separate definition by recursion on a fuel argument (Py: the loop ends when the
        test is false; the fuel, declared by the request as an int expression evaluated at loop entry, only makes the
        definition total: running out of it is `PyErr.other`, which no model function returns)."""
        pad = '  ' * ind
        if s.orelse:
            raise Untranslatable('loop with an else clause', s)
        is_for = isinstance(s, ast.For)
        inner = list(s.body) + ([] if is_for else [s.test])
        assigned, mentioned = [], set()
        for top in inner:
            for n in ast.walk(top):
                if isinstance(n, ast.Name):
                    mentioned.add(n.id)
                    if isinstance(n.ctx, (ast.Store, ast.Del)) and n.id not in assigned:
                        assigned.append(n.id)
                if isinstance(n, ast.Subscript) and isinstance(n.ctx, (ast.Store, ast.Del)) \
                        and isinstance(n.value, ast.Name) and n.value.id not in assigned:
                    assigned.append(n.value.id)
                if isinstance(n, (ast.FunctionDef, ast.AsyncFunctionDef, ast.ClassDef, ast.Global, ast.Nonlocal)):
                    raise Untranslatable('definition / global declaration inside a loop', n)
        owned = set(self.mut) | self.localbufs | self.locallists
        carried = [n for n in env if n != '_' and (n in assigned or (n in mentioned and n in owned))]
        if any(env[n] == POISON for n in carried):
            raise Untranslatable('loop that assigns a name bound only inside an earlier loop', s)
        body_env = dict(env)
        pre = []
        if is_for:
            if not isinstance(s.target, ast.Name) or s.target.id in env or s.target.id in assigned \
                    or s.target.id == '_' or s.target.id in self.consts:
                raise Untranslatable('loop variable that is not a new plain name', s)
            if not (isinstance(s.iter, ast.Name) and env.get(s.iter.id) == LIST) or s.iter.id in assigned \
                    or s.iter.id in self.locallists:
                raise Untranslatable('for loop over something that is not a list of byte strings given by name '
                                     '(and not changed in the loop)', s)
            body_env[s.target.id] = BYTES
        types = [env[n] for n in carried]
        T = lean_type(types[0]) if len(types) == 1 else lean_type(tup(types))
        pat = ident(carried[0]) if len(carried) == 1 else '(' + ', '.join(ident(n) for n in carried) + ')'
        sv = ident(carried[0]) if len(carried) == 1 else self.tmp()
        unpack = [] if len(carried) == 1 else [f'let {pat} : {T} := {sv}'] if carried else []
        st0 = self.save_state()

        def same_state(env2):
            for n in carried:
                if env2.get(n) != env[n]:
                    raise Untranslatable(f'loop body that changes the type of {n!r}', s)
            if self.save_state() != st0:
                raise Untranslatable('loop body that changes which buffers / lists the function owns', s)
        self.in_loop += 1
        try:
            if is_for:
                def k_body(env2, ind2):
                    same_state(env2)
                    return ['  ' * ind2 + f'pure {pat}']
                body = self.block(list(s.body), body_env, ind + 2, k_body)
                body[-1] += ')'
                lines = [pad + f'let {pat} ← Py.forEach {ident(s.iter.id)} {pat} '
                         f'(fun ({ident(s.target.id)} : Bytes) ({sv} : {T}) => do'] + \
                    ['  ' * (ind + 2) + u for u in unpack] + body
            else:
                self.nloop += 1
                if self.nloop > len(self.fuel_specs):
                    raise Untranslatable('while loop without an iteration bound declared by the request', s)
                name = ident(f'{self.sig.name}_loop_{self.nloop}')
                src, self.source_seg = self.source_seg, None
                try:
                    fuel_text = self.fuel_specs[self.nloop - 1]
                    fx, ft = self.pure_expr(ast.parse(fuel_text, mode='eval').body, env, 'iteration bound')
                finally:
                    self.source_seg = src
                if ft != INT:
                    raise Untranslatable('iteration bound that is not an int expression', s)
                free = [n for n in env if n in mentioned and n not in carried and n != '_' and env[n] != POISON]
                fv, nv = self.tmp(), sv
                call = ' '.join([name] + [ident(n) for n in free])

                def k_body(env2, ind2):
                    same_state(env2)
                    return ['  ' * ind2 + f'{call} {fv} {pat}']
                tpre = []
                c = self.test(s.test, body_env, tpre)
                if c is True or c is False:
                    raise Untranslatable('while loop whose test is decided by the declared types', s)
                body = self.block(list(s.body), body_env, 3, k_body)
                params = ' '.join(f'({ident(n)} : {lean_type(env[n])})' for n in free)
                self.aux += [f'/-- the `while` loop of `{self.sig.name}` at line {s.lineno}, over '
                             f"({', '.join(carried)}): the loop ends when its test is false; the first argument bounds the",
                             '    number of iterations (running out of it is `PyErr.other`, the marker for "not modelled") -/',
                             f'def {name} {params} : Nat → {T} → Except PyErr {T}',
                             '  | 0, _ => .error .other',
                             f'  | {fv} + 1, {nv} => do'] + ['    ' + u for u in unpack] + \
                    ['    ' + u for u in tpre] + [f'    if {c} then'] + body + ['    else', f'      pure {pat}', '']
                lines = [pad + f'let {pat} ← {call} (Int.toNat {fx}) {pat}']
        finally:
            self.in_loop -= 1
        self.restore_state(st0)
        env_after = dict(env)
        for n in assigned + ([s.target.id] if is_for else []):
            if n not in env and n != '_':
                env_after[n] = POISON
        return lines + self.block(rest, env_after, ind, k)

    def store(self, tgt, value, env, pad):
        """`d[key] = int` on the markers dict; `b[i] = <byte literal>` on a buffer; `b[a:b] = x` on a buffer parameter
        (same size only); `b[a:b] = x` / `b[a:] = x` on a local bytearray (which may change its size)"""
        if not (isinstance(tgt.value, ast.Name) and (tgt.value.id in self.mut or tgt.value.id in self.localbufs)):
            raise Untranslatable('item / slice assignment to something that is not a buffer / dict given by name', tgt)
        b = tgt.value.id
        pre = []
        sl = tgt.slice
        if env.get(b) == DICT:
            k, tk = self.expr(sl, env, pre)
            v, tv = self.expr(value, env, pre)
            if tk != KEY or tv != INT:
                raise Untranslatable('dictionary store that is not <name string> -> int', tgt)
            return [pad + l for l in pre] + [pad + f'let {ident(b)} : Py.Dict := Py.dictSet {ident(b)} {k} {v}']
        if env.get(b) != BYTES:
            raise Untranslatable('item / slice assignment to something that is not a buffer', tgt)
        if isinstance(sl, ast.Slice):
            if sl.step is not None:
                raise Untranslatable('slice assignment with a step', tgt)
            lo = self.expr(sl.lower, env, pre) if sl.lower is not None else ('(0 : Int)', INT)
            hi = self.expr(sl.upper, env, pre) if sl.upper is not None else None
            if self.buffer_name(value) == b:
                raise Untranslatable('slice assignment of a buffer to itself', tgt)
            v, tv = self.expr(value, env, pre, slice_ok=True)
            if lo[1] != INT or (hi is not None and hi[1] != INT) or tv != BYTES:
                raise Untranslatable('slice assignment argument types', tgt)
            if b not in self.localbufs:
                # a parameter may be a bytearray (which would grow) or a memoryview (which raises): only the case
                # where the slice has exactly the size of the value is modelled (Py.setSliceSameSize)
                if hi is None:
                    raise Untranslatable('slice assignment without an upper bound to a buffer parameter', tgt)
                return [pad + l for l in pre] + \
                    [pad + f'let {ident(b)} ← Py.setSliceSameSize {ident(b)} {lo[0]} {hi[0]} {v}']
            rhs = f'Py.setSliceFrom {ident(b)} {lo[0]} {v}' if hi is None else f'Py.setSlice {ident(b)} {lo[0]} {hi[0]} {v}'
            return [pad + l for l in pre] + [pad + f'let {ident(b)} : Bytes := {rhs}']
        i, ti = self.expr(sl, env, pre)
        if not (isinstance(value, ast.Constant) and type(value.value) is int and 0 <= value.value <= 255) or ti != INT:
            raise Untranslatable('item assignment `b[i] = x` where x is not a literal 0..255 (the order of its '
                                 'IndexError / ValueError checks is not modelled)', tgt)
        return [pad + l for l in pre] + [pad + f'let {ident(b)} ← Py.setItem {ident(b)} {i} {value.value}']

    def call_top(self, node, env, pre):
        return self.call(node, env, pre, top=True)

    def message_arg(self, a, env):
        if isinstance(a, ast.Constant):
            return
        if isinstance(a, ast.JoinedStr):
            for v in a.values:
                if isinstance(v, ast.Constant):
                    continue
                if isinstance(v, ast.FormattedValue) and v.format_spec is None:
                    self.pure_expr(v.value, env, 'exception message')
                    continue
                raise Untranslatable('format specification in an exception message', a)
            return
        raise Untranslatable('exception argument that is not a constant / f-string', a)

    def terminates(self, stmts):
        if not stmts:
            return False
        s = stmts[-1]
        if isinstance(s, (ast.Return, ast.Raise)):
            return True
        if isinstance(s, ast.If):
            return self.terminates(s.body) and self.terminates(s.orelse)
        return False

    def translate(self, source, relpath):
        self.source_seg = source
        sig = self.sig
        env = {p[0]: p[1] for p in sig.params}
        for p in sig.params:
            if p[0].startswith('self.') and ident(p[0]) in self.used:
                raise Untranslatable(f'the name {ident(p[0])} is used in the method (it stands for {p[0]} here)')
        lines = self.block(list(sig.fn.body), env, 1)
        params = ' '.join(f'({ident(n)} : {lean_type(t)})' for n, t, _ in sig.params)
        head = ast.get_source_segment(source, sig.fn).split('\n')[0].rstrip(':').strip()
        doc = f'/-- `{head}` ({relpath}:{sig.fn.lineno})'
        if isinstance(sig, MethodSig):
            doc = f'/-- `{sig.cls_name}.{sig.fn.name}`: `{head}` ({relpath}:{sig.fn.lineno})' + \
                (f', translated for {sig.variant}' if sig.variant else '')
            if sig.static:
                doc += '; with ' + ', '.join(f'self.{k} = {v}' for k, v in sig.static.items())
        if self.mut:
            doc += ('; writes to ' + ', '.join(f'`{m}`' for m in self.mut)
                    + ': the result is paired with the final contents of that buffer / dict')
        doc += ' -/'
        if self.identity_calls:
            doc = doc[:-3] + '; DECLARED by the request: ' + ', '.join(f'`{c}(x)`' for c in sorted(self.identity_calls)) + \
                ' on a list of byte strings returns an equal list (the function is translated for arguments that are ' \
                'already lists of byte strings) -/'
        return self.aux + [doc, f'def {ident(sig.name)} {params} : {self.ret_type()} := do'] + lines


def module_bindings(tree):
    """name -> list of the statements that bind it at module scope (def, class, import, assignment, for, with, ...);
    names declared `global` inside a function are returned in the second result (they can be rebound at run time)"""
    binds, dirty = {}, set()

    def add(name, node):
        binds.setdefault(name, []).append(node)

    def targets(t, node):
        for x in ast.walk(t):
            if isinstance(x, ast.Name) and isinstance(x.ctx, (ast.Store, ast.Del)):
                add(x.id, node)

    def walk(nodes):
        for n in nodes:
            if isinstance(n, (ast.FunctionDef, ast.AsyncFunctionDef, ast.ClassDef)):
                add(n.name, n)
                for x in ast.walk(n):
                    if isinstance(x, ast.Global):
                        dirty.update(x.names)
                continue
            if isinstance(n, (ast.Import, ast.ImportFrom)):
                for al in n.names:
                    add((al.asname or al.name).split('.')[0], n)
                continue
            for x in ast.walk(n):
                if isinstance(x, (ast.Name,)) and isinstance(x.ctx, (ast.Store, ast.Del)):
                    add(x.id, n)
                if isinstance(x, (ast.Import, ast.ImportFrom)) and x is not n:
                    for al in x.names:
                        add((al.asname or al.name).split('.')[0], x)
                if isinstance(x, (ast.FunctionDef, ast.AsyncFunctionDef, ast.ClassDef)):
                    add(x.name, x)
    walk(tree.body)
    return binds, dirty


def translate_module(path, wanted, namespace, relpath, imports=None, methods=None, fn_specs=None):
    """Lean text for the functions `wanted` (each after its callees) of the module at `path`.
    imports: {(level, module name): (sigs of that module as returned here, Lean prefix, Lean module to import)} - the
    sibling modules whose translated functions this module may call after `from <..module> import name`."""
    imports = imports or {}
    source = open(path, encoding='utf-8').read()
    tree = ast.parse(source)
    _set_parents(tree)
    binds, dirty = module_bindings(tree)

    def stable(name):
        """bound exactly once at module scope, by a statement directly in the module body, never declared global"""
        return len(binds.get(name, [])) == 1 and binds[name][0] in tree.body and name not in dirty
    # module-level int constants: NAME = <int literal>
    consts = {}
    for n in tree.body:
        if (isinstance(n, ast.Assign) and len(n.targets) == 1 and isinstance(n.targets[0], ast.Name)
                and isinstance(n.value, ast.Constant) and type(n.value.value) is int and stable(n.targets[0].id)):
            consts[n.targets[0].id] = n.value.value
    defs = {n.name: n for n in tree.body if isinstance(n, (ast.FunctionDef, ast.AsyncFunctionDef))}
    # `struct` must be the standard module: imported plainly at module level and never bound to anything else
    struct_ok = stable('struct') and isinstance(binds['struct'][0], ast.Import) and \
        any(a.name == 'struct' and a.asname is None for a in binds['struct'][0].names)
    for n in ast.walk(tree):
        if isinstance(n, ast.Name) and n.id == 'struct' and not isinstance(n.ctx, ast.Load):
            struct_ok = False
        if isinstance(n, ast.arg) and n.arg == 'struct':
            struct_ok = False
    # `reduce` must be functools.reduce: imported plainly at module level, bound to nothing else
    reduce_ok = stable('reduce') and isinstance(binds['reduce'][0], ast.ImportFrom) and binds['reduce'][0].level == 0 \
        and binds['reduce'][0].module == 'functools' \
        and any(a.name == 'reduce' and a.asname is None for a in binds['reduce'][0].names)
    sigs = {k: Sig(v, consts, (fn_specs or {}).get(k)) for k, v in defs.items()}
    lean_imports = ['NdnModel.PySem']
    for n in tree.body:
        if isinstance(n, ast.ImportFrom) and (n.level, n.module) in imports:
            other, prefix, lean_mod = imports[(n.level, n.module)]
            for al in n.names:
                local = al.asname or al.name
                if al.name in other and stable(local) and local not in sigs:
                    sigs[local] = other[al.name]          # (its lean_name is already qualified)
                    if lean_mod not in lean_imports:
                        lean_imports.append(lean_mod)
    compute_mutated({k: v for k, v in sigs.items() if k in defs})
    out = [f'/- GENERATED on every run by harness/py2lean.py from the text of {relpath} (ast; nothing is executed and no',
           '   shape is pattern-matched: each construct is mapped to lean/NdnModel/PySem.lean).  Do not edit. -/']
    out += [f'import {m}' for m in lean_imports]
    out += ['set_option linter.unusedVariables false', f'namespace {namespace}', 'open Ndn', '']
    status = {}

    def visit(name, stack):
        if name in status:
            return
        if name not in defs:
            status[name] = 'no module-level def of that name'
            out.append(f'/- `{name}` is NOT inside the translated subset: no module-level def of that name -/')
            out.append(f'def {ident(name)}_translated : Bool := false')
            out.append('')
            return
        s = sigs[name]
        try:
            if not stable(name):
                raise Untranslatable('the name is bound more than once in the module (or declared global)')
            if s.error:
                raise Untranslatable(s.error)
            uses_struct = any(isinstance(n, ast.Name) and n.id == 'struct' for n in ast.walk(s.fn))
            if uses_struct and not struct_ok:
                raise Untranslatable('`struct` is not the plainly imported standard module in this file')
            for n in ast.walk(s.fn):
                if isinstance(n, ast.Call) and isinstance(n.func, ast.Name) and n.func.id in defs and n.func.id != name \
                        and n.func.id not in s.spec.get('identity_calls', ()):
                    if n.func.id in stack:
                        raise Untranslatable('recursion')
                    visit(n.func.id, stack + [name])
            tr = FnTranslator(s, sigs, consts, binds)
            tr.reduce_ok = reduce_ok
            lines = tr.translate(source, relpath)
            status[name] = None
            s.done = True
            out.extend(lines)
            out.append(f'def {ident(name)}_translated : Bool := true')
            out.append('')
        except Untranslatable as e:
            status[name] = str(e)
            out.append(f'/- `{name}` is NOT inside the translated subset: {e} -/')
            out.append(f'def {ident(name)}_translated : Bool := false')
            out.append('')
    for w in wanted:
        visit(w, [])

    # ---- methods of classes: (class name, method name, variant or None, spec)  - see MethodSig
    classes = {n.name: n for n in tree.body if isinstance(n, ast.ClassDef)}

    def class_level_names(c, seen=()):
        """names bound in the body of class c and of its base classes defined in this module"""
        out_ = set()
        for n in c.body:
            if isinstance(n, (ast.FunctionDef, ast.AsyncFunctionDef, ast.ClassDef)):
                out_.add(n.name)
            for x in ast.walk(n) if not isinstance(n, (ast.FunctionDef, ast.AsyncFunctionDef, ast.ClassDef)) else []:
                if isinstance(x, ast.Name) and isinstance(x.ctx, ast.Store):
                    out_.add(x.id)
        for b in c.bases:
            if isinstance(b, ast.Name) and b.id in classes and b.id not in seen:
                out_ |= class_level_names(classes[b.id], tuple(seen) + (c.name,))
        return out_
    for cls_name, meth, variant, spec in (methods or []):
        full = f'{cls_name}_{meth}' + (f'_{variant}' if variant else '')
        try:
            if cls_name not in classes or not stable(cls_name):
                raise Untranslatable(f'no class {cls_name} bound exactly once at module level')
            c = classes[cls_name]
            if c.decorator_list or c.keywords:
                raise Untranslatable('decorated class / class with keyword arguments (metaclass)', c)
            found = [n for n in c.body if isinstance(n, (ast.FunctionDef, ast.AsyncFunctionDef)) and n.name == meth]
            others = [n for n in ast.walk(c) if isinstance(n, ast.Name) and isinstance(n.ctx, ast.Store) and n.id == meth]
            if len(found) != 1 or others:
                raise Untranslatable(f'{cls_name}.{meth} is not defined exactly once in the class body', c)
            ms = MethodSig(cls_name, found[0], spec, variant, consts)
            if ms.error:
                raise Untranslatable(ms.error)
            # the attributes read must be plain instance data: no class-level name (property, method, default) of
            # that name in the class or its bases in this module, and no __getattr__ / __getattribute__ / __slots__
            cl = class_level_names(c)
            bad = [p[0][5:] for p in ms.params if p[0].startswith('self.') and p[0][5:] in cl] + \
                [k for k in ms.static if k in cl] + \
                [k for k in ('__getattr__', '__getattribute__', '__slots__') if k in cl]
            if bad:
                raise Untranslatable(f'attribute {bad[0]} has a class-level definition (not plain instance data)', c)
            uses_struct = any(isinstance(n, ast.Name) and n.id == 'struct' for n in ast.walk(ms.fn))
            if uses_struct and not struct_ok:
                raise Untranslatable('`struct` is not the plainly imported standard module in this file')
            allsigs = dict(sigs)
            allsigs['<method>'] = ms
            compute_mutated({'<method>': ms, **{k: v for k, v in sigs.items()}})
            tr = FnTranslator(ms, sigs, consts, binds)
            lines = tr.translate(source, relpath)
            status[full] = None
            ms.done = True
            out.extend(lines)
            out.append(f'def {ident(full)}_translated : Bool := true')
            out.append('')
        except Untranslatable as e:
            status[full] = str(e)
            out.append(f'/- `{cls_name}.{meth}`' + (f' ({variant})' if variant else '')
                       + f' is NOT inside the translated subset: {e} -/')
            out.append(f'def {ident(full)}_translated : Bool := false')
            out.append('')
    out.append(f'end {namespace}')
    for k in defs:
        sigs[k].lean_name = namespace.split('.')[-1] + '.' + ident(k)      # for modules that import this one
    return '\n'.join(out) + '\n', status, {k: sigs[k] for k in defs}


TLV_VAR_WANTED = ['get_tl_num_size', 'write_tl_num', 'pack_uint_bytes', 'parse_tl_num', 'parse_and_check_tl', 'shrink_length']


COMPONENT_WANTED = ['get_type', 'get_value', 'to_number', 'from_bytes', 'from_number', 'from_segment', 'from_byte_offset',
                    'from_sequence_num', 'from_version', 'from_timestamp']


# Name.py: the wire-level functions.  What the request declares (Python does not): the iteration bound of the `while`
# loop of decode (an int expression over the variables at loop entry; lean/NdnProofs/Props/NameGen.lean proves that it
# is never exhausted), and that is_prefix is translated for arguments that are already FormalNames, on which
# `normalize` returns an equal list.
NAME_WANTED = ['encoded_length', 'encode', 'decode', 'is_prefix']
NAME_SPECS = {'decode': {'fuel': ['length + 1']},
              'is_prefix': {'params': {'lhs': LIST, 'rhs': LIST}, 'identity_calls': ['normalize']}}


# The field classes of tlv_model.py: the types under which their methods are translated.  `val` is what the class
# documents as the value of the field (None when absent); `instance` is not used by these methods; `markers` holds
# the int entries `<field name>##...` of the two-pass encoder.
_UINT = {'attrs': {'type_num': INT, 'fixed_len': opt(INT), 'name': KEY}, 'params': {'val': opt(INT), 'instance': UNUSED}}
_BOOL = {'attrs': {'type_num': INT, 'name': KEY}, 'params': {'val': opt(BOOL), 'instance': UNUSED}}
_BYTES_B = {'attrs': {'type_num': INT, 'name': KEY}, 'static': {'is_string': False},
            'params': {'val': opt(BYTES), 'instance': UNUSED}}
_BYTES_S = {'attrs': {'type_num': INT, 'name': KEY}, 'static': {'is_string': True},
            'params': {'val': opt(STR), 'instance': UNUSED}}
_OTHER = {'attrs': {'type_num': INT, 'name': KEY}, 'params': {'val': opt(BYTES), 'instance': UNUSED}}
TLV_MODEL_METHODS = (
    [('UintField', m, None, _UINT) for m in ('encoded_length', 'encode_into', 'parse_from')]
    + [('BoolField', m, None, _BOOL) for m in ('encoded_length', 'encode_into', 'parse_from')]
    + [('BytesField', m, 'bytes', _BYTES_B) for m in ('encoded_length', 'encode_into', 'parse_from')]
    + [('BytesField', m, 'str', _BYTES_S) for m in ('encoded_length', 'encode_into', 'parse_from')]
    # asked for, to record why they are outside the subset (loops, dynamic dispatch, isinstance chains on values whose
    # type is not declared): no theorem mentions them
    + [(c, m, None, _OTHER) for c in ('NameField', 'ModelField', 'RepeatedField')
       for m in ('encoded_length', 'encode_into', 'parse_from')])
TLV_MODEL_REQUIRED = [f'{c}_{m}' + (f'_{v}' if v else '') for c, m, v, _ in TLV_MODEL_METHODS
                      if c in ('UintField', 'BoolField', 'BytesField')]


def _unreadable(rel, namespace, wanted, e):
    # the source cannot even be read: nothing is translated (and nothing that was translated before is kept)
    return '\n'.join([f'/- GENERATED by harness/py2lean.py: {rel} could not be read ({type(e).__name__}) -/',
                      f'namespace {namespace}'] + [f'def {ident(w)}_translated : Bool := false' for w in wanted]
                     + [f'end {namespace}', ''])


def generate_all(repo):
    """{'TlvVar': text of lean/NdnGen/TlvVar.lean, 'Component': ..., 'TlvModelFields': ...} for the tree at `repo`"""
    rel = 'src/ndn/encoding/tlv_var.py'
    relc = 'src/ndn/encoding/name/Component.py'
    sigs = {}
    try:
        text, _, sigs = translate_module(os.path.join(repo, rel), TLV_VAR_WANTED, 'Ndn.Gen.TlvVar', rel)
    except (OSError, SyntaxError, ValueError, RecursionError) as e:
        text = _unreadable(rel, 'Ndn.Gen.TlvVar', TLV_VAR_WANTED, e)
    try:
        textc, _, _ = translate_module(os.path.join(repo, relc), COMPONENT_WANTED, 'Ndn.Gen.Component', relc,
                                       imports={(2, 'tlv_var'): (sigs, 'TlvVar.', 'NdnGen.TlvVar')})
        textc = textc.replace('open Ndn\n', 'open Ndn Ndn.Gen\n', 1)
    except (OSError, SyntaxError, ValueError, RecursionError) as e:
        textc = _unreadable(relc, 'Ndn.Gen.Component', COMPONENT_WANTED, e)
    relm = 'src/ndn/encoding/tlv_model.py'
    try:
        textm, _, _ = translate_module(os.path.join(repo, relm), [], 'Ndn.Gen.TlvModelFields', relm,
                                       imports={(1, 'tlv_var'): (sigs, 'TlvVar.', 'NdnGen.TlvVar')},
                                       methods=TLV_MODEL_METHODS)
        textm = textm.replace('open Ndn\n', 'open Ndn Ndn.Gen\n', 1)
        if 'import NdnGen.TlvVar' not in textm:
            textm = textm.replace('import NdnModel.PySem\n', 'import NdnModel.PySem\nimport NdnGen.TlvVar\n', 1)
    except (OSError, SyntaxError, ValueError, RecursionError) as e:
        textm = _unreadable(relm, 'Ndn.Gen.TlvModelFields', [f'{c}_{m}' + (f'_{v}' if v else '')
                                                             for c, m, v, _ in TLV_MODEL_METHODS], e)
    reln = 'src/ndn/encoding/name/Name.py'
    try:
        textn, _, _ = translate_module(os.path.join(repo, reln), NAME_WANTED, 'Ndn.Gen.NameGen', reln,
                                       imports={(2, 'tlv_var'): (sigs, 'TlvVar.', 'NdnGen.TlvVar')}, fn_specs=NAME_SPECS)
        textn = textn.replace('open Ndn\n', 'open Ndn Ndn.Gen\n', 1)
    except (OSError, SyntaxError, ValueError, RecursionError) as e:
        textn = _unreadable(reln, 'Ndn.Gen.NameGen', NAME_WANTED, e)
    return {'TlvVar': text, 'Component': textc, 'TlvModelFields': textm, 'NameGen': textn}


def generate(repo):
    """text of lean/NdnGen/TlvVar.lean for the tree at `repo`"""
    return generate_all(repo)['TlvVar']


def write_generated(repo):
    """regenerate lean/NdnGen/TlvVar.lean, Component.lean, TlvModelFields.lean and NameGen.lean from the tree at `repo`
    (called from the extract() of the properties whose theorems mention them: C01, C07, C08, C09), under the build lock"""
    import lib
    texts = generate_all(repo)
    with lib.Lock(os.path.join(lib.LEAN, '.build.lock')):
        for k, t in texts.items():
            lib.write_if_changed(os.path.join(lib.LEAN, 'NdnGen', k + '.lean'), t)


if __name__ == '__main__':
    _all = generate_all(sys.argv[1] if len(sys.argv) > 1 else os.environ.get('VERIF_REPO', '/repo'))
    sys.stdout.write(_all[sys.argv[2]] if len(sys.argv) > 2 else ''.join(_all.values()))
