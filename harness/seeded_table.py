#!/venv/bin/python
"""Print the markdown table of seeded changes (seeded/<id>/meta.json) for DESIGN.md section 0."""
import os, json, glob, re
ROOT = os.path.dirname(os.path.dirname(os.path.abspath(__file__)))
rows = []
for d in glob.glob(os.path.join(ROOT, 'seeded', '*')):
    try:
        m = json.load(open(os.path.join(d, 'meta.json')))
    except Exception:
        continue
    sid = os.path.basename(d)
    mm = re.match(r'(C\d+)-(\d+)(.*)', sid)
    rows.append((int(mm.group(2)), mm.group(1), mm.group(3), sid, m['check_result']))
rows.sort()
print('| id | caught | with a failing input |\n|---|---|---|')
for _, _, _, sid, c in rows:
    via = f" (by the check of {c['caught_via']})" if c.get('caught_via') else ''
    print(f"| {sid} | {'yes' + via if c['caught'] else 'NO'} | "
          + ('yes' if c['with_failing_input'] else ('no (broken obligation / model-implementation disagreement only)' if c['caught'] else '-')) + ' |')
