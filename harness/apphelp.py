"""Shared harness pieces for properties that exercise NDNApp (both front-ends) on the virtual-time loop.

    with AppRig('v2') as rig:            # or 'v1' (legacy ndn.app.NDNApp)
        rig.app ...                      # real NDNApp with an in-memory face, face.running = True
        rig.loop.advance(t) / rig.loop.settle()
        rig.deliver(wire)                # feed one packet as the faces do (task per packet); settles
        rig.deliver_await(wire)          # await the callback directly (like DummyFace); returns exception or None
        rig.face.sent                    # list of bytes objects written by the application
        rig.loop.errors                  # what reached the loop's unhandled-exception handler

Time: `ndn.utils.time.time` (used by utils.timestamp) is patched to the loop's virtual clock (seconds).
"""
import asyncio
import vloop


def _mods():
    from ndn import utils
    from ndn.transport.face import Face
    from ndn.transport.prefix_registerer import PrefixRegisterer
    return utils, Face, PrefixRegisterer


def make_face_class():
    _, Face, _ = _mods()

    class MemFace(Face):
        def __init__(self):
            super().__init__()
            self.sent = []
            self.running = True

        async def open(self):
            self.running = True

        def shutdown(self):
            self.running = False

        def send(self, data):
            self.sent.append(bytes(data))

        async def run(self):
            while self.running:
                await asyncio.sleep(3600)

        def isLocalFace(self):
            return True
    return MemFace


def make_stream_face_class():
    """an in-memory face that IS a StreamFace (what an application connected to a forwarder over a Unix / TCP socket has):
    everything written to its writer - by face.send or directly - is kept, one entry per write"""
    from ndn.transport.stream_face import StreamFace

    class _Writer:
        def __init__(self, sent):
            self.sent = sent
            self.closed = 0

        def write(self, d):
            self.sent.append(bytes(d))

        def writelines(self, ds):
            for d in ds:
                self.sent.append(bytes(d))

        async def drain(self):
            pass

        def is_closing(self):
            return False

        def close(self):
            self.closed += 1

    class MemStreamFace(StreamFace):
        def __init__(self):
            super().__init__()
            self.sent = []
            self.writer = _Writer(self.sent)
            self.running = True

        async def open(self):
            self.running = True

        def shutdown(self):
            self.running = False

        async def run(self):
            while self.running:
                await asyncio.sleep(3600)

        def isLocalFace(self):
            return True
    return MemStreamFace


def make_registerer_class():
    _, _, PrefixRegisterer = _mods()

    class NullRegisterer(PrefixRegisterer):
        def __init__(self):
            super().__init__()
            self.calls = []

        async def register(self, name):
            self.calls.append(('register', name))
            return True

        async def unregister(self, name):
            self.calls.append(('unregister', name))
            return True
    return NullRegisterer


class AppRig:
    def __init__(self, front_end='v2', t0=1000.0, face_kind='mem'):
        self.front_end = front_end
        self.t0 = t0
        self.face_kind = face_kind      # 'mem': a plain Face subclass; 'stream': a StreamFace subclass (byte stream)

    def __enter__(self):
        utils, _, _ = _mods()
        self.loop = vloop.new_loop()
        self.loop._vt = self.t0
        loop = self.loop

        class _T:
            time = staticmethod(lambda: loop.time())
        self._utils = utils
        self._old_time = utils.time
        utils.time = _T
        self.face = (make_stream_face_class() if self.face_kind == 'stream' else make_face_class())()
        if self.front_end == 'v2':
            from ndn import appv2
            self.registerer = make_registerer_class()()
            self.app = appv2.NDNApp(face=self.face, registerer=self.registerer)
        else:
            from ndn import app as appv1
            from ndn.security import KeychainDigest
            self.app = appv1.NDNApp(face=self.face, keychain=KeychainDigest())
        return self

    def __exit__(self, *a):
        try:
            self.loop.shutdown()
        finally:
            self._utils.time = self._old_time

    # -- packet delivery -------------------------------------------------------------------
    def _typ(self, wire):
        from ndn.encoding import parse_tl_num
        try:
            return parse_tl_num(wire)[0]
        except Exception:
            return 0

    def deliver(self, wire, typ=None):
        """as StreamFace/UdpFace do: one task per packet; unhandled errors reach loop.errors"""
        t = self._typ(wire) if typ is None else typ
        self.loop.create_task(self.face.callback(t, wire))
        self.loop.settle()

    def deliver_await(self, wire, typ=None):
        """as DummyFace does: await the callback; returns the exception it raised or None"""
        t = self._typ(wire) if typ is None else typ
        box = {}

        async def _go():
            try:
                await self.face.callback(t, wire)
            except BaseException as e:    # noqa
                box['e'] = e
        self.loop.run_now(_go())
        return box.get('e')

    def now_ms(self):
        return int(self.loop.time() * 1000)
