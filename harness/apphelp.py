"""Shared harness pieces for properties that exercise NDNApp (both front-ends) on the virtual-time loop.

    with AppRig('v2') as rig:            # or 'v1' (legacy ndn.app.NDNApp)
        rig.app ...                      # real NDNApp with an in-memory face, face.running = True
        rig.loop.advance(t) / rig.loop.settle()
        rig.deliver(wire)                # feed one packet as the faces do (task per packet); settles
        rig.deliver_await(wire)          # await the callback directly (like DummyFace); returns exception or None
        rig.face.sent                    # list of bytes objects written by the application
        rig.loop.errors                  # what reached the loop's unhandled-exception handler

Time: `ndn.utils.time.time` (used by utils.timestamp) is patched to the loop's virtual clock (seconds).
"""
import asyncio
import vloop


def _mods():
    from ndn import utils
    from ndn.transport.face import Face
    from ndn.transport.prefix_registerer import PrefixRegisterer
    return utils, Face, PrefixRegisterer


def make_face_class():
    _, Face, _ = _mods()

    class MemFace(Face):
        def __init__(self):
            super().__init__()
            self.sent = []
            self.running = True

        async def open(self):
            self.running = True

        def shutdown(self):
            self.running = False

        def send(self, data):
            self.sent.append(bytes(data))

        async def run(self):
            while self.running:
                await asyncio.sleep(3600)

        def isLocalFace(self):
            return True
    return MemFace


def make_stream_face_class():
    """an in-memory face that IS a StreamFace (what an application connected to a forwarder over a Unix / TCP socket has):
    everything written to its writer - by face.send or directly - is kept, one entry per write"""
    from ndn.transport.stream_face import StreamFace

    class _Writer:
        def __init__(self, sent):
            self.sent = sent
            self.closed = 0

        def write(self, d):
            self.sent.append(bytes(d))

        def writelines(self, ds):
            for d in ds:
                self.sent.append(bytes(d))

        async def drain(self):
            pass

        def is_closing(self):
            return False

        def close(self):
            self.closed += 1

    class MemStreamFace(StreamFace):
        def __init__(self):
            super().__init__()
            self.sent = []
            self.writer = _Writer(self.sent)
            self.running = True

        async def open(self):
            self.running = True

        def shutdown(self):
            self.running = False

        async def run(self):
            while self.running:
                await asyncio.sleep(3600)

        def isLocalFace(self):
            return True
    return MemStreamFace


def make_registerer_class():
    _, _, PrefixRegisterer = _mods()

    class NullRegisterer(PrefixRegisterer):
        def __init__(self):
            super().__init__()
            self.calls = []

        async def register(self, name):
            self.calls.append(('register', name))
            return True

        async def unregister(self, name):
            self.calls.append(('unregister', name))
            return True
    return NullRegisterer


class AppRig:
    def __init__(self, front_end='v2', t0=1000.0, face_kind='mem'):
        self.front_end = front_end
        self.t0 = t0
        self.face_kind = face_kind      # 'mem': a plain Face subclass; 'stream': a StreamFace subclass (byte stream)

    def __enter__(self):
        utils, _, _ = _mods()
        self.loop = vloop.new_loop()
        self.loop._vt = self.t0
        loop = self.loop

        class _T:
            time = staticmethod(lambda: loop.time())
        self._utils = utils
        self._old_time = utils.time
        utils.time = _T
        self.face = (make_stream_face_class() if self.face_kind == 'stream' else make_face_class())()
        if self.front_end == 'v2':
            from ndn import appv2
            self.registerer = make_registerer_class()()
            self.app = appv2.NDNApp(face=self.face, registerer=self.registerer)
        else:
            from ndn import app as appv1
            from ndn.security import KeychainDigest
            self.app = appv1.NDNApp(face=self.face, keychain=KeychainDigest())
        return self

    def __exit__(self, *a):
        try:
            self.loop.shutdown()
        finally:
            self._utils.time = self._old_time

    # -- packet delivery -------------------------------------------------------------------
    def _typ(self, wire):
        from ndn.encoding import parse_tl_num
        try:
            return parse_tl_num(wire)[0]
        except Exception:
            return 0

    def deliver(self, wire, typ=None):
        """as StreamFace/UdpFace do: one task per packet; unhandled errors reach loop.errors"""
        t = self._typ(wire) if typ is None else typ
        self.loop.create_task(self.face.callback(t, wire))
        self.loop.settle()

    def deliver_await(self, wire, typ=None):
        """as DummyFace does: await the callback; returns the exception it raised or None"""
        t = self._typ(wire) if typ is None else typ
        box = {}

        async def _go():
            try:
                await self.face.callback(t, wire)
            except BaseException as e:    # noqa
                box['e'] = e
        self.loop.run_now(_go())
        return box.get('e')

    def now_ms(self):
        return int(self.loop.time() * 1000)


# ---------------------------------------------------------------------------------------------------------------------
# The RECEIVING direction of the real transports (added for C10; nothing above is changed).
#
#     with TransportRig('v2', via='stream') as rig:     # 'stream' | 'udp' | 'direct'
#         rig.feed(wire, head=[1, 2], mss=1460)         # what the peer wrote arrives, cut into segments of these sizes
#         rig.take_sent()                               # bytes the application wrote since the last call
#
# 'stream': the face is a real TcpFace / UnixFace whose `reader` is an asyncio.StreamReader of the virtual loop and whose
#           `run()` (the library's own frame reader loop) is running as a task: bytes go in with reader.feed_data, the
#           way a socket transport hands them over - in whatever segments the network cut them.
# 'udp':    the face is a real UdpFace opened on a datagram endpoint that never touches a socket (the loop's
#           create_datagram_endpoint is replaced); one packet = one call of the protocol's datagram_received.
# 'direct': MemFace, one task per packet on face.callback (what AppRig.deliver does).
def make_reader_stream_face(loop, unix=False):
    from ndn.transport.stream_face import TcpFace, UnixFace

    class _W:
        def __init__(self):
            self.sent = []

        def write(self, d):
            self.sent.append(bytes(d))

        def writelines(self, ds):
            for d in ds:
                self.sent.append(bytes(d))

        async def drain(self):
            pass

        def is_closing(self):
            return False

        def close(self):
            pass

        def get_extra_info(self, *a, **k):
            return None

    face = UnixFace() if unix else TcpFace()
    face.reader = asyncio.StreamReader(loop=loop)
    face.writer = _W()
    face.sent = face.writer.sent
    face.running = True
    return face


def make_datagram_udp_face(loop):
    """a real UdpFace, to be opened with face.open_now() once the application owns it; face.handler is the library's protocol object (datagram_received), face.sent what it sent"""
    from ndn.transport.udp_face import UdpFace
    sent = []

    class _T:
        def sendto(self, d, addr=None):
            sent.append(bytes(d))

        def close(self):
            pass

        def is_closing(self):
            return False

        def get_extra_info(self, *a, **k):
            return None

        def abort(self):
            pass

    async def fake_endpoint(factory, *a, **k):
        proto = factory()
        tr = _T()
        proto.connection_made(tr)
        return tr, proto
    face = UdpFace()
    face.sent = sent

    def open_now():
        # as NDNApp.main_loop does: the face is opened AFTER the application took it (open() hands face.callback over)
        old = loop.__dict__.get('create_datagram_endpoint')
        loop.create_datagram_endpoint = fake_endpoint
        try:
            t = loop.run_now(face.open())
            t.result()
        finally:
            if old is None:
                del loop.create_datagram_endpoint
            else:
                loop.create_datagram_endpoint = old
    face.open_now = open_now
    return face


class TransportRig(AppRig):
    def __init__(self, front_end='v2', via='stream', t0=1000.0):
        super().__init__(front_end, t0)
        self.via = via

    def __enter__(self):
        utils, _, _ = _mods()
        self.loop = vloop.new_loop()
        self.loop._vt = self.t0
        loop = self.loop

        class _T:
            time = staticmethod(lambda: loop.time())
        self._utils = utils
        self._old_time = utils.time
        utils.time = _T
        try:
            if self.via in ('stream', 'unix'):
                self.face = make_reader_stream_face(loop, unix=self.via == 'unix')
            elif self.via == 'udp':
                self.face = make_datagram_udp_face(loop)
            else:
                self.face = make_face_class()()
            if self.front_end == 'v2':
                from ndn import appv2
                self.registerer = make_registerer_class()()
                self.app = appv2.NDNApp(face=self.face, registerer=self.registerer)
            else:
                from ndn import app as appv1
                from ndn.security import KeychainDigest
                self.app = appv1.NDNApp(face=self.face, keychain=KeychainDigest())
            self._taken = 0
            self.run_task = None
            if self.via in ('stream', 'unix'):
                self.run_task = loop.create_task(self.face.run())
                loop.settle()
            elif self.via == 'udp':
                self.face.open_now()
        except BaseException:
            self.__exit__()
            raise
        return self

    def feed(self, wire, head=(), mss=0, settle_between=False):
        """the peer wrote `wire`; on a stream it arrives cut into segments: first pieces of the sizes in `head`, then the
        rest in pieces of `mss` bytes (0 = the rest in one piece); with settle_between the reader loop runs after every
        segment, else only after the last. A datagram / direct delivery is always one piece."""
        wire = bytes(wire)
        if self.via in ('stream', 'unix'):
            pos = 0
            for n in list(head) + [0]:
                while pos < len(wire):
                    k = n if n > 0 else (mss if mss > 0 else len(wire))
                    self.face.reader.feed_data(wire[pos:pos + k])
                    pos += k
                    if settle_between:
                        self.loop.settle()
                    if n > 0:
                        break
        elif self.via == 'udp':
            self.loop.call_now(self.face.handler.datagram_received, wire, ('127.0.0.1', 6363))
        else:
            self.loop.create_task(self.face.callback(self._typ(wire), wire))
        self.loop.settle()

    def take_sent(self):
        """the bytes written to the transport since the last call, one entry per write"""
        out = self.face.sent[self._taken:]
        self._taken = len(self.face.sent)
        return [bytes(x) for x in out]
