#!/venv/bin/python
"""Regenerate lean/NdnGen/<Cxx>.lean from /repo (used after a check was run against a mutated copy with
VERIF_REPO, so that no table generated from a mutant is left behind in the Lean project)."""
import os, sys, importlib
sys.path.insert(0, os.path.dirname(os.path.abspath(__file__)))
os.environ.pop('VERIF_REPO', None)
import lib
lib.setup_repo_path()
for prop in sys.argv[1:]:
    P = importlib.import_module('props.' + prop.lower())
    if hasattr(P, 'extract'):
        text = P.extract(lib.REPO)        # outside the lock: an extract() may take the lock itself
        with lib.Lock(os.path.join(lib.LEAN, '.build.lock')):
            changed = lib.write_if_changed(os.path.join(lib.LEAN, 'NdnGen', f'{prop}.lean'), text)
        print(prop, 'regenerated', '(changed)' if changed else '(unchanged)')
