"""C14 x C12 - the trust-schema validator over a Light VerSec model (stream `family == 'lvs'` of the C14 check).

A case is a generated schema (the generator of the LVS checks, lvs_common), a `user_fns` dictionary that may
lack functions the schema calls, and a handful of names (instances / near-instances of the rules, some with a
trailing implicit digest).  For every name taken as the trust anchor's name the REAL `lvs_validator` is built
with a properly self-signed anchor Data of that name; for some (anchor, packet name) pairs a real packet signed
(or not) by the anchor's key and naming the anchor as its key is validated by the real validator.

Compared with the Lean model (driver op `C14 lvs`, NdnModel/CascadeLvs.lean: `userFnsOk`, `rootOfTrust`,
`anchorMatches`, `constructLvs`, `validate` over `Inst.env` = `Checker.check`):
  validate_user_fns(), root_of_trust(), the rule names the anchor matches, built / exception class, verdicts.
A link on which the real `Checker.check` raises (user function raising, ...) is compared too: the exception reaches
the caller of the validator, the model's verdict is `E:<class>`.
Oracle (property statement, on the implementation only): the validator is built only if the anchor matches at
least one rule and every root of trust; a packet is accepted only if the schema lets the anchor's name sign
the packet's name (independent source-level reading `lvs_common.Spec`) and the signature is the anchor's.
"""
import lvs_common as L

T0 = 1000.0
_KEYS = {}


def is_lvs(case):
    return case.get('family') == 'lvs'


def _keys():
    if not _KEYS:
        from Cryptodome.PublicKey import ECC
        for k in ('good', 'other'):
            key = ECC.generate(curve='P-256')
            _KEYS[k] = (key.export_key(format='DER'), key.public_key().export_key(format='DER'))
    return _KEYS


def _src_roots(schema):
    """source-level approximation of the roots of trust: rules listed as a signer, no definition of which has signers"""
    signing = set(x for r in schema['rules'] for x in r['sign'])
    signed = set(r['id'] for r in schema['rules'] if r['sign'])
    return sorted(x for x in signing if x not in signed)


def cases(rng, tier):
    n = 70 if tier == 'quick' else 1200
    fns = L.spec_fns(L.FN_NAMES)
    for _ in range(n):
        schema = L.gen_schema(rng, signing=True)
        roots = _src_roots(schema)
        if len(roots) > 1 and rng.random() < 0.5:       # funnel every signing chain into one root
            keep = rng.choice(roots)
            for r in schema['rules']:
                r['sign'] = sorted(set(keep if x in roots else x for x in r['sign']))
            roots = [keep]
        spec = L.Spec(schema, fns)
        if spec.static_errors():
            continue
        alpha = L.alphabet(schema)
        names = []
        try:
            chains = spec.all_chains()
        except Exception:               # noqa
            chains = []
        for c in chains:                # instances of the root rules: candidate anchors
            if c[0] in roots and len(names) < 2:
                inst = L._instance(rng, spec, alpha, c[2], c[3], {})
                if inst is not None and inst[0] not in names:
                    names.append(inst[0])
        for nm in L.gen_sign_names(rng, schema, spec, 3) + L.gen_names(rng, schema, spec, 3, maxlen=4):
            if nm not in names:
                names.append(nm)
        names = [nm for nm in names if nm][:7]
        if not names:
            continue
        dig = [rng.random() < 0.12 for _ in names]
        r = rng.random()
        defined = list(L.FN_NAMES) if r < 0.7 else sorted(rng.sample(L.FN_NAMES, rng.randrange(len(L.FN_NAMES))))
        nb = [L.name_bytes(nm) for nm in names]
        signs, raisers = [], []
        for a in range(len(names)):
            for p in range(len(names)):
                try:
                    if spec.check(nb[p], nb[a]):
                        signs.append([a, p])
                except Exception:       # noqa (a user function raised): the validator must raise too, see model_obs
                    raisers.append([a, p])
        links = []
        for _ in range(rng.randint(3, 7)):
            if raisers and rng.random() < 0.3:
                a, p = rng.choice(raisers)
            elif signs and rng.random() < 0.6:
                a, p = rng.choice(signs)
            else:
                a, p = rng.randrange(len(names)), rng.randrange(len(names))
            links.append([a, p, 1 if rng.random() < 0.8 else 0])
        yield {'family': 'lvs', 'schema': schema, 'names': names, 'digest': dig, 'defined': defined, 'links': links}


def shrink(case):
    lk = case['links']
    for i in range(len(lk)):
        yield dict(case, links=lk[:i] + lk[i + 1:])
    nm, dg = case['names'], case['digest']
    for i in range(len(nm)):
        if len(nm) > 1 and not any(a == i or p == i for a, p, _ in lk):
            sh = lambda j: j - (1 if j > i else 0)     # noqa
            yield dict(case, names=nm[:i] + nm[i + 1:], digest=dg[:i] + dg[i + 1:],
                       links=[[sh(a), sh(p), b] for a, p, b in lk])
    for s in L.shrink_schema(case['schema']):
        yield dict(case, schema=s)
    if any(dg):
        yield dict(case, digest=[False] * len(dg))


PYERR = {'IndexError', 'ValueError', 'TypeError', 'KeyError', 'DecodeError', 'AttributeError', 'OverflowError'}


def _exc_name(e):
    """the class as the model names it (`PyErr.name`): LvsModelError & co. have no constructor there and are `Other`;
    the harness's own step cap stays recognisable"""
    if isinstance(e, ValueError):
        return 'ValueError'
    n = type(e).__name__
    return n if n in PYERR or n == 'StepCap' else 'Other'


def _wire(name, kl_name, signer_key, content):
    from ndn import encoding as enc
    from ndn.security.signer import Sha256WithEcdsaSigner
    signer = Sha256WithEcdsaSigner(kl_name, _keys()[signer_key][0])
    return bytes(enc.make_data(name, enc.MetaInfo(freshness_period=1000), content, signer=signer))


def run_impl(case):
    from apphelp import AppRig
    from ndn import encoding as enc
    from ndn.app_support.light_versec import lvs_validator
    Component, Name, compile_lvs, Checker, SemanticError, LvsModelError, DFN, bny = L.mods()
    fns = L.user_fns(case['defined'])
    res = {'lvs': True, 'token': None}
    try:
        ck = Checker(compile_lvs(L.pp(case['schema'])), fns)
    except Exception as e:              # noqa
        res['build'] = type(e).__name__
        return res
    res['build'] = 'ok'
    res['token'] = L.enc_model(ck.model)
    L.cap_steps(ck)
    res['userfns'] = bool(ck.validate_user_fns())
    res['roots'] = sorted(ck.root_of_trust())
    names = [L.name_bytes(n, d) for n, d in zip(case['names'], case['digest'])]
    spec = L.Spec(case['schema'], L.user_fns(L.FN_NAMES))
    res['anchors'] = []
    validators = []
    with AppRig('v1', t0=T0) as rig:
        for nm in names:
            rec = {}
            try:
                rec['matched'] = sorted(set(sum((m[0] for m in ck.match(list(nm))), start=[])))
            except L.StepCap:
                rec['matched'] = 'E:NONTERMINATION'
            except Exception as e:      # noqa
                rec['matched'] = 'E:' + type(e).__name__
            wire = _wire(list(nm), list(nm), 'good', _keys()['good'][1])
            try:
                v = rig.loop.call_now(lvs_validator, ck, rig.app, wire)
                rec['built'] = 'ok'
            except Exception as e:      # noqa - the class is the observation
                v = None
                rec['built'] = 'err:' + _exc_name(e)
            validators.append(v)
            res['anchors'].append(rec)
        res['links'] = []
        for a, p, good in case['links']:
            v = validators[a]
            if v is None:
                res['links'].append({'verdict': 'X'})
                continue
            wire = _wire(list(names[p]), list(names[a]), 'good' if good else 'other', b'payload')
            name, _, _, sig = enc.parse_data(wire)
            box = {}

            async def go():
                try:
                    box['r'] = await v(name, sig)
                except BaseException as e:      # noqa
                    box['e'] = e
            cursor = len(rig.face.sent)
            task = rig.loop.create_task(go())
            rig.loop.settle()
            rec = {'fetched': len(rig.face.sent) - cursor}
            if not task.done():
                rec['verdict'] = 'HANG'
                task.cancel()
                rig.loop.settle()
            elif 'e' in box:
                rec['verdict'] = 'E:' + _exc_name(box['e'])
            else:
                rec['verdict'] = 'A' if box.get('r') else 'R'
            rec['check'] = L.impl_check(ck, names[p], names[a])
            if set(case['defined']) >= set(L.FN_NAMES):
                try:
                    rec['spec'] = bool(spec.check(L.strip_digest(names[p]), L.strip_digest(names[a])))
                except Exception:       # noqa (a user function raised)
                    rec['spec'] = None
            res['links'].append(rec)
        res['loop_errors'] = rig.loop.errors
    return res


def model_line(case, impl):
    if impl.get('token') is None:
        return None
    names = [L.name_bytes(n, d) for n, d in zip(case['names'], case['digest'])]
    links = ','.join('%d:%d:%d' % tuple(l) for l in case['links']) or '.'
    return 'C14 lvs %s %s %s %s' % (impl['token'], L.enc_env(case['defined']),
                                    '/'.join(L.enc_name(n) for n in names), links)


def _lst(s):
    return [] if s == '.' else sorted(set(s.split(',')))


def model_obs(answer, case, impl):
    assert answer.startswith('ok '), answer[:100]
    _, uf, roots, per, vs = answer.split(' ')
    anchors = []
    for r in per.split('/'):
        m, b = r.split('~')
        anchors.append([m if m.startswith('E:') else _lst(m), b])
    verdicts = [] if vs == '.' else vs.split(',')
    # a link on which the real `Checker.check` raises IS compared: the model's verdict is then `E:<class>` (the exception
    # reaches the caller of the validator); only runs the harness itself cut short (step cap) are left out
    verdicts = ['cut' if _cut(l) else v for v, l in zip(verdicts, impl['links'])]
    return {'lvs': True, 'userfns': uf == '1', 'roots': _lst(roots), 'anchors': anchors, 'verdicts': verdicts}


def impl_obs(impl):
    return {'lvs': True, 'userfns': impl['userfns'], 'roots': impl['roots'],
            'anchors': [[a['matched'], a['built']] for a in impl['anchors']],
            'verdicts': ['cut' if _cut(l) else l['verdict'] for l in impl['links']]}


def _cut(l):
    return l.get('check') == 'NONTERMINATION' or l.get('verdict') == 'E:StepCap'


def oracle(case, impl):
    if impl.get('token') is None:
        return None
    roots = set(impl['roots'])
    for k, a in enumerate(impl['anchors']):
        if a['built'] != 'ok':
            continue
        if not impl['userfns']:
            return f'lvs anchor {k}: validator was built although user functions of the schema are missing'
        m = a['matched']
        if isinstance(m, str) or not m or not roots <= set(m):
            return f'lvs anchor {k}: validator was built although the anchor does not match the roots of trust or is not properly self-signed'
    for k, ((a, p, good), l) in enumerate(zip(case['links'], impl['links'])):
        if l['verdict'] == 'HANG':
            return f'lvs link {k}: validation neither finished nor waited for a certificate'
        if l['verdict'] != 'A':
            continue
        if not good:
            return f'lvs link {k}: accepted a packet without a valid chain to its anchor (a signature does not verify)'
        if l.get('spec') is False or l.get('check') is False:
            return f'lvs link {k}: accepted a packet without a valid chain to its anchor (a link is not allowed by the schema)'
    if impl.get('loop_errors'):
        return f'background task error: {impl["loop_errors"][:2]}'
    return None


def nontrivial(case, impl):
    return impl.get('token') is not None and (any(a['built'] == 'ok' for a in impl['anchors'])
                                              and any(a['built'] != 'ok' for a in impl['anchors']))


def tags(case, impl):
    t = ['family:lvs']
    if impl.get('token') is None:
        return t + ['lvs-build:' + str(impl.get('build'))]
    t.append('lvs-userfns:%d' % impl['userfns'])
    t.append('lvs-roots:%d' % min(len(impl['roots']), 3))
    for a in impl['anchors']:
        t.append('lvs-built:' + a['built'])
        t.append('lvs-matched:' + (a['matched'] if isinstance(a['matched'], str) else str(min(len(a['matched']), 3))))
    for l in impl['links']:
        t.append('lvs-verdict:' + l['verdict'])
    return t
