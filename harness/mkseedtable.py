#!/venv/bin/python
"""Replace the table of seeded changes in DESIGN.md section 0 by the output of harness/seeded_table.py."""
import os, subprocess, sys
ROOT = os.path.dirname(os.path.dirname(os.path.abspath(__file__)))
tab = subprocess.run([sys.executable, os.path.join(ROOT, 'harness', 'seeded_table.py')], capture_output=True, text=True).stdout
p = os.path.join(ROOT, 'DESIGN.md')
L = open(p).read().split('\n')
i = L.index('| id | caught | with a failing input |')
j = i
while j < len(L) and L[j].startswith('|'):
    j += 1
L[i:j] = tab.rstrip('\n').split('\n')
open(p, 'w').write('\n'.join(L))
print('table:', tab.count('\n') - 2, 'rows')
