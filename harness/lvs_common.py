"""Shared pieces of the Light VerSec checks (C11, C12, C13).

* schema ASTs (JSON-serialisable), generator, pretty-printer for `compile_lvs`
* `Spec`: an independent transcription of the source-level semantics of docs/src/lvs/lvs.rst
  (rule references expanded, alternative constraint sets / repeated definitions as alternatives,
  named patterns bound left to right, temporaries independent, options evaluated against the bindings
  made so far) and of the static errors a schema can contain.  It never looks at the compiler or checker.
* encoding of a (possibly malformed) `LvsModel` object and of a schema AST for the Lean driver
* the user functions given to the real `Checker`, and a step cap for `_match`

AST:
  schema = {'rules': [rule, ...]}
  rule   = {'id': '#a' | '#_t', 'name': [comp, ...], 'cons': [[term, ...], ...], 'sign': ['#b', ...]}
  comp   = ['lit', 'a'] | ['pat', 'x'] | ['pat', '_t'] | ['ref', '#a']
  term   = {'pat': 'x', 'opts': [opt, ...]}
  opt    = ['lit', 'a'] | ['pat', 'y'] | ['fn', '$eq', [['lit', 'a'], ['pat', 'y']]]
"""
import itertools

FN_NAMES = ['$eq', '$eq_type', '$odd']
STEP_CAP = 60000


# ----------------------------------------------------------------------------------------- repo access
def mods():
    from ndn.encoding import Component, Name
    from ndn.app_support.light_versec import compile_lvs, Checker, SemanticError, LvsModelError, DEFAULT_USER_FNS
    from ndn.app_support.light_versec import binary as bny
    return Component, Name, compile_lvs, Checker, SemanticError, LvsModelError, DEFAULT_USER_FNS, bny


_comp_cache = {}


def _tl(n):
    return bytes([n]) if n <= 0xFC else b'\xfd' + n.to_bytes(2, 'big') if n <= 0xFFFF else b'\xfe' + n.to_bytes(4, 'big')


_TYPED_NUM = {'seg': 50, 'off': 52, 'v': 54, 't': 56, 'seq': 58}


def comp(s):
    """component bytes of the text form used in schemas and names ('a', 'v=0', 'sha256digest=<hex>', ...), read by hand
    from the NDN URI scheme (NOT with Component.from_str: the generators and the Spec never call the library)"""
    if s not in _comp_cache:
        head, eq, rest = s.partition('=')
        if eq and head in ('sha256digest', 'params-sha256'):
            t, v = (1 if head == 'sha256digest' else 2), bytes.fromhex(rest)
        elif eq and head in _TYPED_NUM and rest.isdigit():
            n = int(rest)       # a NonNegativeInteger in the shortest of 1 / 2 / 4 / 8 bytes
            t, v = _TYPED_NUM[head], n.to_bytes(1 if n < 2 ** 8 else 2 if n < 2 ** 16 else 4 if n < 2 ** 32 else 8, 'big')
        else:
            t, txt = (int(head), rest) if (eq and head.isdigit()) else (8, s)
            v, i = bytearray(), 0
            while i < len(txt):
                if txt[i] == '%':
                    v.append(int(txt[i + 1:i + 3], 16))
                    i += 3
                else:
                    v += txt[i].encode()
                    i += 1
            v = bytes(v)
        _comp_cache[s] = _tl(t) + _tl(len(v)) + v
    return _comp_cache[s]


DIGEST = bytes([1, 32]) + bytes(32)          # an ImplicitSha256DigestComponent


def user_fns(defined):
    """the dictionary handed to the real Checker; `$eq`, `$eq_type` are the library's own"""
    from ndn.app_support.light_versec import DEFAULT_USER_FNS
    fns = dict(DEFAULT_USER_FNS)
    fns['$odd'] = lambda c, args: (bytes(c)[-1] + sum((bytes(a)[-1] if a is not None else 1) for a in args)) % 2 == 1
    # `$first` depends on the ORDER of its arguments (the other three do not); the Lean model does not know it, so schemas
    # using it are judged by the oracle only
    fns['$first'] = lambda c, args: len(args) > 0 and args[0] is not None and bytes(args[0]) == bytes(c)
    return {k: v for k, v in fns.items() if k in defined}


def _ctype(c):
    """Type number of an encoded component, read by hand"""
    c = bytes(c)
    return c[0] if c[0] <= 0xFC else int.from_bytes(c[1:1 + {0xFD: 2, 0xFE: 4, 0xFF: 8}[c[0]]], 'big')


# the user functions as docs/src/lvs/lvs.rst describes them ($eq: equal to every argument; $eq_type: of the same
# component type as every argument) and the two of this harness - independent of ndn.app_support.light_versec
SPEC_FNS = {
    '$eq': lambda c, args: all(a is not None and bytes(a) == bytes(c) for a in args),
    # (an argument that is an unbound pattern arrives as None: the result is undefined - TypeError, not compared)
    '$eq_type': lambda c, args: all(_ctype(a) == _ctype(c) for a in args),
    '$odd': lambda c, args: (bytes(c)[-1] + sum((bytes(a)[-1] if a is not None else 1) for a in args)) % 2 == 1,
    '$first': lambda c, args: len(args) > 0 and args[0] is not None and bytes(args[0]) == bytes(c),
}


def spec_fns(defined):
    """what a generator / oracle hands to Spec (no library object in it; see user_fns for the real Checker's dictionary)"""
    return {k: v for k, v in SPEC_FNS.items() if k in defined}


def asym_variant(rng, schema):
    """a copy of a well-formed schema in which some constraint terms get an extra option calling `$first` with a pattern and a
    literal argument in either order (well-formed again: the patterns are named ones written in some name)"""
    import copy
    s = copy.deepcopy(schema)
    pats = sorted({c[1] for r in s['rules'] for c in r['name'] if c[0] == 'pat' and not is_temp(c[1])})
    lits = [x for x in alphabet(s) if x not in ('zz', 'v=9')] or ['a']
    terms = [t for r in s['rules'] for cs in r['cons'] for t in cs]
    if not terms or not pats:
        return None
    for t in rng.sample(terms, min(len(terms), rng.choice([1, 2, 3]))):
        args = [['pat', rng.choice(pats)], ['lit', rng.choice(lits)]]
        if rng.random() < 0.5:
            args.reverse()
        if rng.random() < 0.5:
            t['opts'] = [['fn', '$first', args]]
        else:
            t['opts'].append(['fn', '$first', args])
    return s


# -------------------------------------------------------------------------------------- pretty printer
def pp_opt(o):
    if o[0] == 'lit':
        return '"%s"' % o[1]
    if o[0] == 'pat':
        return o[1]
    return '%s(%s)' % (o[1], ', '.join(pp_opt(a) for a in o[2]))


def pp_rule(r):
    s = r['id'] + ': ' + '/'.join(('"%s"' % c[1]) if c[0] == 'lit' else c[1] for c in r['name'])
    if r['cons']:
        s += ' & ' + ' | '.join('{' + ', '.join(t['pat'] + ': ' + ' | '.join(pp_opt(o) for o in t['opts'])
                                                for t in cs) + '}' for cs in r['cons'])
    if r['sign']:
        s += ' <= ' + ' | '.join(r['sign'])
    return s


def pp(schema):
    return '\n'.join(pp_rule(r) for r in schema['rules']) + '\n'


# ------------------------------------------------------------------------------------------ the spec
class SpecError(Exception):
    def __init__(self, kind):
        super().__init__(kind)
        self.kind = kind


def is_temp(ident):
    return ident.lstrip('#$')[:1] == '_'


class Spec:
    """source-level meaning of a schema (docs/src/lvs/lvs.rst)"""

    def __init__(self, schema, fns):
        self.rules = schema['rules']
        # the Spec's reading of the documented user functions is its own (SPEC_FNS), whatever dictionary the caller
        # also hands to the real Checker: the oracle must not compute `$eq` / `$eq_type` with the library's functions
        self.fns = {k: SPEC_FNS.get(k, v) for k, v in fns.items()}
        self.defs = {}
        for i, r in enumerate(self.rules):
            self.defs.setdefault(r['id'], []).append(i)
        self._uid = itertools.count()
        self._chains = {}

    # -- static errors ------------------------------------------------------------------------------
    def static_errors(self):
        """the kinds of static error the text contains (list of strings, empty = well-formed)"""
        errs = set()
        named_everywhere = set()
        for r in self.rules:
            for c in r['name']:
                if c[0] == 'pat' and not is_temp(c[1]):
                    named_everywhere.add(c[1])
        refs = {}
        for r in self.rules:
            for c in r['name']:
                if c[0] == 'ref':
                    if is_temp(c[1]):
                        errs.add('temp-rule-ref')
                    elif c[1] not in self.defs:
                        errs.add('undef-rule-ref')
                    else:
                        refs.setdefault(r['id'], set()).add(c[1])
            for s in r['sign']:
                if is_temp(s):
                    errs.add('temp-signer')
                elif s not in self.defs:
                    errs.add('undef-signer')
            own_temps = {c[1] for c in r['name'] if c[0] == 'pat' and is_temp(c[1])}
            for cs in r['cons']:
                for t in cs:
                    if is_temp(t['pat']):
                        if t['pat'] not in own_temps:
                            errs.add('cons-unknown-temp')
                    elif t['pat'] not in named_everywhere:
                        errs.add('cons-unknown-pat')
                    for o in t['opts']:
                        for p in ([o] if o[0] == 'pat' else [a for a in o[2] if a[0] == 'pat'] if o[0] == 'fn' else []):
                            if is_temp(p[1]):
                                errs.add('opt-temp-pat')
                            elif p[1] not in named_everywhere:
                                errs.add('opt-unknown-pat')
        if self._cyclic(refs):
            errs.add('ref-cycle')
        signs = {}
        for r in self.rules:
            for s in r['sign']:
                signs.setdefault(r['id'], set()).add(s)
        if self._cyclic(signs):
            errs.add('sign-cycle')
        return sorted(errs)

    @staticmethod
    def _cyclic(g):
        state = {}

        def visit(n):
            if state.get(n) == 1:
                return True
            if state.get(n) == 2:
                return False
            state[n] = 1
            for k in g.get(n, ()):
                if visit(k):
                    return True
            state[n] = 2
            return False
        return any(visit(n) for n in list(g))

    # -- expansion ----------------------------------------------------------------------------------
    def chains_of_def(self, idx):
        """alternatives of one definition: list of (atoms, constraints, signers)
        atom = ('lit', bytes) | ('named', ident) | ('temp', uid);
        constraint = (('named', ident) | ('temp', [uids]), opts)"""
        r = self.rules[idx]
        out = []
        for cs in (r['cons'] or [[]]):
            partial = [([], [], {})]           # atoms, inherited constraints, own temp occurrences
            for c in r['name']:
                nxt = []
                for atoms, cons, temps in partial:
                    if c[0] == 'lit':
                        nxt.append((atoms + [('lit', comp(c[1]))], cons, temps))
                    elif c[0] == 'pat' and is_temp(c[1]):
                        u = next(self._uid)
                        t2 = {k: list(v) for k, v in temps.items()}
                        t2.setdefault(c[1], []).append(u)
                        nxt.append((atoms + [('temp', u)], cons, t2))
                    elif c[0] == 'pat':
                        nxt.append((atoms + [('named', c[1])], cons, temps))
                    else:
                        for alt in self.chains_of_rule(c[1]):
                            a2, c2 = self._fresh(alt)
                            nxt.append((atoms + a2, cons + c2, temps))
                partial = nxt
            for atoms, cons, temps in partial:
                own = []
                for t in cs:
                    if is_temp(t['pat']):
                        own.append((('temp', list(temps.get(t['pat'], []))), t['opts']))
                    else:
                        own.append((('named', t['pat']), t['opts']))
                out.append((atoms, own + cons, list(r['sign'])))
        return out

    def _fresh(self, alt):
        """a copy of a referenced rule's alternative with fresh identities for its temporaries"""
        atoms, cons, _ = alt
        ren = {}
        a2 = []
        for a in atoms:
            if a[0] == 'temp':
                ren[a[1]] = next(self._uid)
                a2.append(('temp', ren[a[1]]))
            else:
                a2.append(a)
        c2 = [((tg[0], [ren[u] for u in tg[1]]) if tg[0] == 'temp' else tg, opts) for tg, opts in cons]
        return a2, c2

    def chains_of_rule(self, rid):
        if rid not in self._chains:
            self._chains[rid] = None      # cycle guard (callers check static_errors first)
            res = []
            for idx in self.defs.get(rid, []):
                res.extend(self.chains_of_def(idx))
            self._chains[rid] = res
        if self._chains[rid] is None:
            raise SpecError('ref-cycle')
        return self._chains[rid]

    def all_chains(self):
        """[(rule id, def index, atoms, constraints, signers)] - temporary rules: each definition is its own rule"""
        if getattr(self, '_all', None) is None:
            res = []
            for idx, r in enumerate(self.rules):
                for atoms, cons, sign in self.chains_of_def(idx):
                    res.append((r['id'], idx, atoms, cons, sign))
            self._all = res
        return self._all

    # -- matching -----------------------------------------------------------------------------------
    def _opt_holds(self, o, c, ctx):
        if o[0] == 'lit':
            return c == comp(o[1])
        if o[0] == 'pat':
            return o[1] in ctx and ctx[o[1]] == c
        args = [comp(a[1]) if a[0] == 'lit' else ctx.get(a[1]) for a in o[2]]
        return bool(self.fns[o[1]](c, args))

    def match_chain(self, atoms, cons, name, sigma0):
        """bindings if `name` satisfies the chain starting from bindings sigma0, else None"""
        if len(name) != len(atoms):
            return None
        ctx = dict(sigma0)
        seen = set()
        for a, c in zip(atoms, name):
            if a[0] == 'lit':
                if a[1] != c:
                    return None
            elif a[0] == 'named':
                p = a[1]
                if p not in seen:
                    seen.add(p)
                    for tg, opts in cons:
                        if tg == ('named', p) and not any(self._opt_holds(o, c, ctx) for o in opts):
                            return None
                if p in ctx:
                    if ctx[p] != c:
                        return None
                else:
                    ctx[p] = c
            else:
                for tg, opts in cons:
                    if tg[0] == 'temp' and a[1] in tg[1] and not any(self._opt_holds(o, c, ctx) for o in opts):
                        return None
        return ctx

    def match(self, name, sigma0=None):
        """set of (rule id, sorted bindings) the name satisfies"""
        res = set()
        for rid, idx, atoms, cons, sign in self.all_chains():
            b = self.match_chain(atoms, cons, name, sigma0 or {})
            if b is not None:
                res.add((rid, tuple(sorted((k, v.hex()) for k, v in b.items()))))
        return res

    def check(self, pkt, key):
        """the schema lets `key` sign `pkt`"""
        chains = self.all_chains()
        for rid, idx, atoms, cons, sign in chains:
            b = self.match_chain(atoms, cons, pkt, {})
            if b is None or not sign:
                continue
            for rid2, idx2, atoms2, cons2, _ in chains:
                if rid2 in sign and not is_temp(rid2) and self.match_chain(atoms2, cons2, key, b) is not None:
                    return True
        return False

    def may_self_sign(self):
        """conservative: could two alternatives be merged into one tree node in a way that makes a name
        pattern (transitively) its own signer although the rule-level signing graph is acyclic?"""
        chains = self.all_chains()

        def shape(atoms):
            return tuple(a[1] if a[0] == 'lit' else None for a in atoms)
        g = {}
        for i, (rid, _, atoms, _, sign) in enumerate(chains):
            for j, (rid2, _, atoms2, _, _) in enumerate(chains):
                if rid2 in sign:
                    g.setdefault(('c', i), set()).add(('s', j))
                if shape(atoms) == shape(atoms2):
                    g.setdefault(('s', i), set()).add(('c', j))
        return self._cyclic(g)


def strip_digest(name):
    if name and name[-1][:1] == b'\x01':
        return name[:-1]
    return name


# ---------------------------------------------------------------------------------- model -> protocol
def _o(x):
    return '~' if x is None else str(x)


def _hx(b):
    if b is None:
        return '~'
    b = bytes(b)
    return b.hex() if b else '-'


def _lst(items, sep=','):
    items = list(items)
    return sep.join(items) if items else '.'


def enc_model(m):
    """protocol token of an LvsModel object (None if start_id / named_pattern_cnt is absent: outside
    the Lean model's domain)"""
    if m.start_id is None or m.named_pattern_cnt is None:
        return None
    nodes = []
    for n in m.nodes or []:
        ves = ['%s:%s' % (_o(v.dest), _hx(v.value)) for v in (n.v_edges or [])]
        pes = []
        for p in (n.p_edges or []):
            cls = []
            for cl in (p.cons_sets or []):
                ops = []
                for op in (cl.options or []):
                    if op.fn is None:
                        fn = '~'
                    else:
                        fid = '~' if op.fn.fn_id is None else (op.fn.fn_id or '-')
                        fn = fid + '=' + _lst(('%s^%s' % (_hx(a.value), _o(a.tag)) for a in (op.fn.args or [])), '*')
                    ops.append('%s/%s/%s' % (_hx(op.value), _o(op.tag), fn))
                cls.append('+'.join(ops) if ops else '_')
            pes.append('%s:%s:%s' % (_o(p.dest), _o(p.tag), _lst(cls, '&')))
        nodes.append(';'.join([_o(n.id), _o(n.parent), _lst(n.rule_name or []), _lst(ves), _lst(pes),
                               _lst(str(k) for k in (n.sign_cons or []))]))
    return '!'.join([_o(m.version), str(m.start_id), str(m.named_pattern_cnt), _lst(nodes, '|')])


def enc_name(name):
    return _lst(bytes(c).hex() for c in name)


def _enc_sopt(o):
    if o[0] == 'lit':
        return 'L' + comp(o[1]).hex()
    if o[0] == 'pat':
        return 'P' + o[1]
    return 'F' + o[1] + '=' + _lst((_enc_sopt(a) for a in o[2]), '*')


def enc_schema(schema):
    """protocol token of a schema AST for the Lean compiler model (NdnModel/Lvs/CProto.lean); literal components
    are sent as the bytes `Component.from_str` gives, which is what the lark transformer stores in the AST"""
    rs = []
    for r in schema['rules']:
        nm = ','.join(('L' + comp(c[1]).hex()) if c[0] == 'lit' else ('P' if c[0] == 'pat' else 'R') + c[1]
                      for c in r['name'])
        cons = _lst(('&'.join(t['pat'] + ':' + '+'.join(_enc_sopt(o) for o in t['opts']) for t in cs)
                     for cs in r['cons']), '!')
        rs.append(';'.join([r['id'], nm, cons, _lst(r['sign'])]))
    return _lst(rs, '|')


def enc_symbols(model):
    """identifiers of the named patterns by tag (the symbol table of a compiled model)"""
    return _lst(s.ident for s in (model.symbols or []))


def enc_env(defined):
    return _lst(sorted(defined))


def canon_pool(token, symbols):
    """a compiled model up to the numbering of nodes and pattern tags: the tree below the start node with
    named tags replaced by their identifiers, temporary tags by 'TEMP', edges and rule names of a node
    sorted, signers replaced by the sorted paths of the signer nodes.  (So a rewrite of the compiler that
    only changes the order in which nodes / tags are numbered does not alarm.)"""
    ver, start, cnt, ns = token.split('!')
    cnt = int(cnt)
    syms = [] if symbols == '.' else symbols.split(',')

    def tagname(t):
        if t == '~':
            return '~'
        t = int(t)
        return syms[t - 1] if 1 <= t <= cnt and t <= len(syms) else 'TEMP'
    nodes = []
    for n in ([] if ns == '.' else ns.split('|')):
        i, par, rn, ves, pes, sg = n.split(';')
        ve = [] if ves == '.' else [tuple(e.split(':')) for e in ves.split(',')]
        pe = []
        for e in ([] if pes == '.' else pes.split(',')):
            d, t, c = e.split(':')
            cl = []
            for clause in ([] if c == '.' else c.split('&')):
                ops = []
                for o in ([] if clause == '_' else clause.split('+')):
                    v, ot, fn = o.split('/')
                    if fn != '~':
                        fid, args = fn.split('=')
                        fn = fid + '(' + ','.join(a.split('^')[0] + '^' + tagname(a.split('^')[1])
                                                  for a in ([] if args == '.' else args.split('*'))) + ')'
                    ops.append((v, tagname(ot), fn))
                cl.append(tuple(ops))
            pe.append((d, tagname(t), tuple(cl)))
        nodes.append({'rules': sorted([] if rn == '.' else rn.split(',')), 've': ve, 'pe': pe,
                      'sign': [] if sg == '.' else [int(k) for k in sg.split(',')]})
    paths = {}

    def walk(i, path, depth):
        if depth > len(nodes) or i >= len(nodes):
            return
        paths.setdefault(i, path)
        for d, v in nodes[i]['ve']:
            if d != '~':
                walk(int(d), path + (('v', v),), depth + 1)
        for d, t, c in nodes[i]['pe']:
            if d != '~':
                walk(int(d), path + (('p', t, c),), depth + 1)
    walk(int(start), (), 0)

    def canon(i, depth):
        if depth > len(nodes) or i >= len(nodes):
            return 'DANGLING'
        n = nodes[i]
        return (tuple(n['rules']),
                tuple(sorted(repr((v, canon(int(d), depth + 1))) for d, v in n['ve'] if d != '~')),
                tuple(sorted(repr((t, c, canon(int(d), depth + 1))) for d, t, c in n['pe'] if d != '~')),
                tuple(sorted(repr(paths.get(k, ('UNREACHABLE', k))) for k in n['sign'])))
    import hashlib
    return ver + '/' + str(cnt) + '/' + ','.join(sorted(syms)) + '/' + hashlib.sha1(repr(canon(int(start), 0)).encode()).hexdigest()


def canon_matches(matches, symbols):
    """match lists as sorted lists with identifiers instead of tag numbers (used when the two node pools are
    equal only up to numbering, so the order of the matches is not comparable; `#_<node id>`, the name the
    checker gives a node that ends no rule, becomes `#_`)"""
    syms = [] if symbols in ('.', None) else symbols.split(',')
    out = []
    for outs, err in matches:
        o2 = sorted([sorted('#_' if (n.startswith('#_') and n.count('#') == 1) else n for n in names), sorted([syms[t - 1] if 1 <= t <= len(syms) else str(t), v] for t, v in ctx)]
                    for names, ctx in outs)
        out.append([o2, err])
    return out


def parse_match_answer(res):
    """`H~outs~err` -> {'halted', 'outs': sorted [[names], node, [[tag, hex]...]], 'err'}"""
    h, outs, err = res.split('~')
    o = []
    if outs != '.':
        for t in outs.split(';'):
            names, node, ctx = t.split('@')
            c = [] if ctx == '.' else sorted([int(kv.split('=')[0]), kv.split('=')[1]] for kv in ctx.split(','))
            o.append([names.split(','), int(node), c])
    return {'halted': h == 'H', 'outs': o, 'err': None if err == '-' else err}


# ----------------------------------------------------------------------------- running the real checker
class StepCap(Exception):
    pass


class _CountingName(list):
    """`_match` evaluates `len(name)` exactly once per loop iteration"""
    budget = STEP_CAP

    def __len__(self):
        self.budget -= 1
        if self.budget < 0:
            raise StepCap()
        return list.__len__(self)


def cap_steps(checker):
    """make every `_match` of this checker give up after STEP_CAP loop iterations"""
    orig = type(checker)._match

    def capped(name, context):
        return orig(checker, _CountingName(name), context)
    checker._match = capped
    return checker


# the caller's own list objects: it fills ONE list with the name of the moment, asks, and rewrites the same object for the
# next question (every other call; the other calls hand over a fresh list).  A name is its contents at the time of the call.
_CALLER_BUFS = {'m': [], 'p': [], 'k': []}
_CALL_NO = [0]


def _caller_list(slot, name):
    _CALL_NO[0] += 1
    if _CALL_NO[0] % 2:
        return list(name)
    buf = _CALLER_BUFS[slot]
    buf[:] = list(name)
    return buf


def impl_match(checker, name):
    """list(Checker.match(name)) canonicalised with tag numbers: (outs, exception class or None)"""
    inv = checker._symbol_inverse
    outs = []
    try:
        for rule_names, ctx in checker.match(_caller_list('m', name)):
            c = sorted([inv[k] if k in inv else int(k), bytes(v).hex()] for k, v in ctx.items())
            outs.append([list(rule_names), c])
        return outs, None
    except StepCap:
        return outs, 'NONTERMINATION'
    except Exception as e:          # noqa
        return outs, type(e).__name__


def impl_check(checker, pkt, key):
    try:
        return bool(checker.check(_caller_list('p', pkt), _caller_list('k', key)))
    except StepCap:
        return 'NONTERMINATION'
    except Exception as e:          # noqa
        return type(e).__name__


# ------------------------------------------------------------------------------------------ generator
LITS = ['a', 'b', 'c', 'k', 'v=0', 'v=1']
NAMED = ['x', 'y', 'z', 'w']
TEMPS = ['_', '_t', '_u']
RULE_IDS = ['#a', '#b', '#c', '#d', '#e', '#f', '#m', '#q', '#z']
MAXLEN = 5


def gen_opt(rng, named_pool, lits):
    r = rng.random()
    if r < 0.45 or not named_pool:
        return ['lit', rng.choice(lits)]
    if r < 0.70:
        return ['pat', rng.choice(named_pool)]
    fn = rng.choice(FN_NAMES)
    n = rng.choice([1, 1, 2]) if fn != '$odd' else rng.choice([0, 1, 2])
    args = []
    for _ in range(n):
        # `$eq_type` raises TypeError on an unbound pattern argument (Component.get_type(None)): keep that rare
        if rng.random() < (0.04 if fn == '$eq_type' else 0.5) and named_pool:
            args.append(['pat', rng.choice(named_pool)])
        else:
            args.append(['lit', rng.choice(lits)])
    return ['fn', fn, args]


def gen_schema(rng, signing=True, size=None):
    """a well-formed schema (no static error; rule-level signing graph acyclic)"""
    lits = rng.sample(LITS, rng.randint(2, 4))
    named = rng.sample(NAMED, rng.randint(1, 3))
    ids = rng.sample(RULE_IDS, size or rng.randint(2, 5))
    rules, length, names_of = [], {}, {}
    for i, rid in enumerate(ids):
        temp_rule = rng.random() < 0.12
        name, ln, inherited = [], 0, set()
        want = rng.randint(1, 3)
        while len(name) < want and ln < MAXLEN:
            r = rng.random()
            cand = [q for q in ids[:i] if q in length and ln + length[q] <= MAXLEN]
            if r < 0.28 and cand:
                q = rng.choice(cand) if not (name and name[-1][0] == 'ref' and rng.random() < 0.5) else name[-1][1]
                if ln + length[q] > MAXLEN:
                    continue
                name.append(['ref', q])
                ln += length[q]
                inherited |= names_of[q]
            elif r < 0.60:
                name.append(['lit', rng.choice(lits)])
                ln += 1
            elif r < 0.88:
                name.append(['pat', rng.choice(named)])
                ln += 1
            else:
                name.append(['pat', rng.choice(TEMPS)])
                ln += 1
        own_named = {c[1] for c in name if c[0] == 'pat' and not is_temp(c[1])}
        own_temp = sorted({c[1] for c in name if c[0] == 'pat' and is_temp(c[1])})
        targets = sorted(own_named | inherited) + own_temp
        cons = []
        if targets and rng.random() < 0.6:
            for _ in range(rng.choice([1, 1, 2])):
                cs = []
                for _ in range(rng.choice([1, 1, 2])):
                    pool = named if rng.random() < 0.3 else sorted(own_named | inherited)
                    cs.append({'pat': rng.choice(targets),
                               'opts': [gen_opt(rng, pool, lits) for _ in range(rng.choice([1, 1, 2]))]})
                cons.append(cs)
        rule = {'id': ('#_' + rid[1:]) if temp_rule else rid, 'name': name, 'cons': cons, 'sign': []}
        rules.append(rule)
        if not temp_rule:
            length[rid] = ln
            names_of[rid] = own_named | inherited
    # redefinitions
    real = [r for r in rules if not is_temp(r['id'])]
    if real and rng.random() < 0.3:
        base = rng.choice(real)
        alt = {'id': base['id'], 'name': [list(c) for c in base['name']], 'cons': [], 'sign': []}
        k = rng.randrange(len(alt['name']))
        if alt['name'][k][0] != 'ref':
            alt['name'][k] = ['lit', rng.choice(lits)] if rng.random() < 0.5 else ['pat', rng.choice(named)]
        rules.append(alt)
    # named patterns used in options must occur somewhere in the schema
    everywhere = {c[1] for r in rules for c in r['name'] if c[0] == 'pat' and not is_temp(c[1])}
    for r in rules:
        for cs in r['cons']:
            for t in cs:
                for o in t['opts']:
                    if o[0] == 'pat' and o[1] not in everywhere:
                        o[0], o[1] = 'lit', rng.choice(lits)
                    if o[0] == 'fn':
                        for a in o[2]:
                            if a[0] == 'pat' and a[1] not in everywhere:
                                a[0], a[1] = 'lit', rng.choice(lits)
            cs[:] = [t for t in cs if is_temp(t['pat']) or t['pat'] in everywhere]
        r['cons'] = [cs for cs in r['cons'] if cs]
    if signing:
        rank = {rid: rng.random() for rid in ids}
        for r in rules:
            base = '#' + r['id'][2:] if is_temp(r['id']) else r['id']
            higher = [q for q in ids if q in length and rank[q] > rank.get(base, 0)]
            if higher and rng.random() < 0.6:
                r['sign'] = sorted(set(rng.sample(higher, min(len(higher), rng.choice([1, 1, 2])))))
    # motif: packet rule and key rule share a named pattern that the key rule constrains
    if signing and rng.random() < 0.35:
        x = rng.choice(named)
        opts = [gen_opt(rng, named, lits) for _ in range(rng.choice([1, 2]))]
        key_name = [['lit', rng.choice(lits)], ['pat', x]]
        if rng.random() < 0.3:
            key_name.append(['pat', rng.choice(TEMPS + named)])
        pkt_name = [['lit', rng.choice(lits)], ['pat', x]]
        if rng.random() < 0.4:
            pkt_name.insert(rng.randrange(3), ['pat', rng.choice(named)])
        rules.append({'id': '#s2', 'name': key_name, 'cons': [[{'pat': x, 'opts': opts}]], 'sign': []})
        rules.append({'id': '#s1', 'name': pkt_name, 'cons': [], 'sign': ['#s2'] + (['#s3'] if rng.random() < 0.3 else [])})
        if '#s3' in rules[-1]['sign']:
            rules.append({'id': '#s3', 'name': [['pat', x], ['lit', rng.choice(lits)]], 'cons': [], 'sign': []})
    # motif: a rule with a constrained temporary (or named) pattern referred to twice in one name
    if rng.random() < 0.3:
        pat = rng.choice(TEMPS + TEMPS + named[:1])
        body = [['pat', pat], ['lit', rng.choice(lits)]]
        rng.shuffle(body)
        if rng.random() < 0.3:
            body = [['pat', pat]]
        cons = [[{'pat': pat, 'opts': [['lit', rng.choice(lits)]] + ([['lit', rng.choice(lits)]] if rng.random() < 0.3 else [])}]]
        if rng.random() < 0.25:
            cons.append([{'pat': pat, 'opts': [gen_opt(rng, [], lits)]}])
        rules.append({'id': '#t1', 'name': body, 'cons': cons, 'sign': []})
        outer = [['ref', '#t1'], ['ref', '#t1']]
        if rng.random() < 0.4:
            outer.insert(rng.randrange(3), ['lit', rng.choice(lits)] if rng.random() < 0.6 else ['pat', rng.choice(named)])
        if len(body) * 2 + len(outer) - 2 <= MAXLEN:
            rules.append({'id': '#t2', 'name': outer, 'cons': [], 'sign': []})
            if rng.random() < 0.3 and len(body) * 2 + len(outer) - 1 <= MAXLEN:
                rules.append({'id': '#t3', 'name': [['ref', '#t2'], ['lit', rng.choice(lits)]], 'cons': [], 'sign': []})
    extra_motifs(rng, rules, lits, named, signing)
    rng.shuffle(rules)
    return {'rules': rules}


def extra_motifs(rng, rules, lits, named, signing):
    """hardening motifs (each rare; appended before the shuffle, so which definition comes first in the text is random):
    shapes the random rules above seldom or never produce"""
    def lit():
        return ['lit', rng.choice(lits)]

    def lit_opts():
        return [lit() for _ in range(rng.choice([1, 1, 2]))]
    outside = [r['id'] for r in rules if not is_temp(r['id'])]      # rules that never refer to / are signed by a motif rule

    def signers():
        return sorted(set(rng.sample(outside, min(len(outside), rng.choice([1, 1, 2]))))) if signing and outside else []
    # (R) a rule defined two or three times whose LATER definitions carry the temporaries, constraints, references
    #     and signers, referred to two or three times from one name
    if rng.random() < 0.2:
        t1, t2 = rng.choice(TEMPS + named[:1]), rng.choice(TEMPS)
        d1 = {'id': '#r1', 'name': [['pat', t1]], 'cons': [[{'pat': t1, 'opts': lit_opts()}]] if rng.random() < 0.5 else [], 'sign': []}
        n2 = [['pat', t2]] if rng.random() < 0.4 else ([lit(), ['pat', t2]] if rng.random() < 0.7 else [['pat', t2], lit()])
        c2 = [[{'pat': t2, 'opts': lit_opts()}]]
        if rng.random() < 0.3:
            c2.append([{'pat': t2, 'opts': [gen_opt(rng, [], lits)]}])
        d2 = {'id': '#r1', 'name': n2, 'cons': c2, 'sign': signers() if rng.random() < 0.6 else []}
        defs = [d1, d2]
        if rng.random() < 0.3:
            rules.append({'id': '#r0', 'name': [['pat', rng.choice(TEMPS + named[:1])]], 'cons': [], 'sign': []})
            rules[-1]['cons'] = [[{'pat': rules[-1]['name'][0][1], 'opts': lit_opts()}]]
            defs.append({'id': '#r1', 'name': [['ref', '#r0']] + ([lit()] if len(n2) == 1 else []), 'cons': [], 'sign': signers()})
        longest = max(len(d['name']) for d in defs)
        k = 3 if longest == 1 and rng.random() < 0.5 else 2
        outer = [['ref', '#r1'] for _ in range(k)]
        if longest * k < MAXLEN and rng.random() < 0.4:
            outer.insert(rng.randrange(k + 1), lit() if rng.random() < 0.6 else ['pat', rng.choice(named)])
        rules.extend(defs)
        rules.append({'id': '#r2', 'name': outer, 'cons': [], 'sign': signers() if rng.random() < 0.3 else []})
    # (U) one rule referred to three times / references nested two deep, a constraint added at every level
    #     (on the inherited named pattern too), options mixing literals, patterns and user-function calls
    if rng.random() < 0.2:
        x = rng.choice(named)
        y = rng.choice([p for p in NAMED if p != x])
        p1 = rng.choice([x, x, rng.choice(TEMPS)])
        rules.append({'id': '#u1', 'name': [['pat', p1]], 'sign': [],
                      'cons': [[{'pat': p1, 'opts': [gen_opt(rng, [], lits) for _ in range(rng.choice([1, 2]))]}]]})
        c2 = [[{'pat': y, 'opts': [gen_opt(rng, [x] if p1 == x else [], lits) for _ in range(rng.choice([1, 2]))]}]]
        if p1 == x and rng.random() < 0.5:
            c2[0].append({'pat': x, 'opts': lit_opts() + [['fn', '$eq', [lit(), ['pat', y]]]]})     # y is bound later: that option never holds
        rules.append({'id': '#u2', 'name': [['ref', '#u1'], ['pat', y]], 'cons': c2, 'sign': []})
        shape = rng.choice(['triple', 'nested', 'both'])
        if shape == 'triple':
            n3 = [['ref', '#u1'], ['ref', '#u1'], ['ref', '#u1']]
        elif shape == 'nested':
            n3 = [lit(), ['ref', '#u2']]
        else:
            n3 = [['ref', '#u2'], ['ref', '#u1'], ['ref', '#u2']]
        c3 = []
        if shape != 'triple' and rng.random() < 0.6:
            c3 = [[{'pat': y, 'opts': [rng.choice([['pat', x], ['fn', '$eq', [['pat', x], lit()]], ['fn', '$eq_type', [lit()]], lit()])]}]]
            if rng.random() < 0.3:
                c3.append([{'pat': y, 'opts': lit_opts()}])
        rules.append({'id': '#u3', 'name': n3, 'cons': c3, 'sign': signers() if rng.random() < 0.3 else []})
    # (C) a signing chain of length three, the shared pattern constrained at every level
    if signing and rng.random() < 0.2:
        x = rng.choice(named)
        y = rng.choice([p for p in NAMED if p != x])

        def xcons():
            return [[{'pat': x, 'opts': [gen_opt(rng, [x, y], lits) for _ in range(rng.choice([1, 2]))]}]]
        rules.append({'id': '#c3', 'name': [lit(), ['pat', x]], 'cons': xcons(), 'sign': []})
        rules.append({'id': '#c2', 'name': [lit(), ['pat', x], ['pat', rng.choice(TEMPS + [y])]], 'cons': xcons(), 'sign': ['#c3']})
        n1 = [lit(), ['pat', x]]
        if rng.random() < 0.5:
            n1.insert(rng.randrange(1, 3), ['pat', y])
        rules.append({'id': '#c1', 'name': n1, 'cons': xcons() if rng.random() < 0.7 else [],
                      'sign': ['#c2'] + (['#c3'] if rng.random() < 0.3 else [])})
    # (D) one temporary rule identifier defined twice: two independent rules
    if rng.random() < 0.1:
        for _ in range(2):
            nm = [rng.choice([lit(), ['pat', rng.choice(named)], ['pat', rng.choice(TEMPS)]]) for _ in range(rng.choice([1, 2]))]
            rules.append({'id': '#_d', 'name': nm, 'cons': [], 'sign': signers() if rng.random() < 0.5 else []})
    # keep the schema well-formed: a named pattern used as option / argument must be written in some name
    everywhere = {c[1] for r in rules for c in r['name'] if c[0] == 'pat' and not is_temp(c[1])}
    for r in rules:
        for cs in r['cons']:
            for t in cs:
                for o in t['opts']:
                    for a in ([o] if o[0] == 'pat' else o[2] if o[0] == 'fn' else []):
                        if a[0] == 'pat' and a[1] not in everywhere:
                            a[0], a[1] = 'lit', rng.choice(lits)


PARAMS_DIGEST_S = 'params-sha256=' + '00' * 32       # a ParametersSha256DigestComponent (type 2): never ignored
DIGEST_S = 'sha256digest=' + '5a' * 32                # an implicit digest written as an ordinary component of a name


def alphabet(schema):
    """component strings: every literal of the schema (names and constraints) plus two fresh ones"""
    lits = []

    def add(s):
        if s not in lits:
            lits.append(s)
    for r in schema['rules']:
        for c in r['name']:
            if c[0] == 'lit':
                add(c[1])
        for cs in r['cons']:
            for t in cs:
                for o in t['opts']:
                    if o[0] == 'lit':
                        add(o[1])
                    elif o[0] == 'fn':
                        for a in o[2]:
                            if a[0] == 'lit':
                                add(a[1])
    for s in ('zz', 'v=9'):
        add(s)
    return lits


def gen_names(rng, schema, spec, count, maxlen=MAXLEN):
    """names (lists of component strings): instances and near-instances of the alternatives, plus random ones"""
    alpha = alphabet(schema)
    names = []
    try:
        chains = spec.all_chains()
    except (SpecError, RecursionError):
        chains = []
    for _ in range(count):
        if chains and rng.random() < 0.75:
            _, _, atoms, cons, _ = rng.choice(chains)
            vals, nm = {}, []
            for a in atoms:
                if a[0] == 'lit':
                    s = next((x for x in alpha if comp(x) == a[1]), alpha[0])
                    nm.append(s if rng.random() < 0.93 else rng.choice(alpha))
                elif a[0] == 'named':
                    if a[1] not in vals or rng.random() < 0.12:
                        hint = [o[1] for tg, opts in cons if tg == ('named', a[1]) for o in opts if o[0] == 'lit']
                        vals[a[1]] = rng.choice(hint) if hint and rng.random() < 0.6 else rng.choice(alpha)
                    nm.append(vals[a[1]])
                else:
                    hint = [o[1] for tg, opts in cons if tg[0] == 'temp' and a[1] in tg[1] for o in opts if o[0] == 'lit']
                    nm.append(rng.choice(hint) if hint and rng.random() < 0.6 else rng.choice(alpha))
            r = rng.random()
            if r < 0.05 and len(nm) > 1:
                nm.pop()
            elif r < 0.10 and len(nm) < maxlen + 1:
                nm.append(rng.choice(alpha))
            names.append(nm)
        else:
            names.append([rng.choice(alpha) for _ in range(rng.randint(1, maxlen))])
        if rng.random() < 0.07:
            # digest-typed components: a parameters digest is never ignored, an implicit digest only as the LAST component
            nm = list(names[-1])
            d = rng.choice([PARAMS_DIGEST_S, PARAMS_DIGEST_S, DIGEST_S])
            r = rng.random()
            if r < 0.6:
                nm.append(d)
            elif r < 0.8:
                nm[-1] = d
            else:
                nm.insert(rng.randrange(len(nm)), d)
            names.append(nm)
    uniq = []
    for n in names:
        if n not in uniq:
            uniq.append(n)
    return uniq


def _instance(rng, spec, alpha, atoms, cons, sigma0, tries=12):
    """a name (component strings) satisfying the alternative under bindings sigma0 (name -> string), or None"""
    for _ in range(tries):
        vals, nm = dict(sigma0), []
        for a in atoms:
            if a[0] == 'lit':
                nm.append(next((x for x in alpha if comp(x) == a[1]), alpha[0]))
            elif a[0] == 'named':
                if a[1] not in vals:
                    hint = [o[1] for tg, opts in cons if tg == ('named', a[1]) for o in opts if o[0] == 'lit']
                    vals[a[1]] = rng.choice(hint) if hint and rng.random() < 0.7 else rng.choice(alpha)
                nm.append(vals[a[1]])
            else:
                hint = [o[1] for tg, opts in cons if tg[0] == 'temp' and a[1] in tg[1] for o in opts if o[0] == 'lit']
                nm.append(rng.choice(hint) if hint and rng.random() < 0.7 else rng.choice(alpha))
        try:
            b = spec.match_chain(atoms, cons, [comp(x) for x in nm], {k: comp(v) for k, v in sigma0.items()})
        except Exception:       # noqa (a user function raised)
            b = None
        if b is not None:
            return nm, vals
    return None


def gen_sign_names(rng, schema, spec, count):
    """names for the signing check: packet instances of alternatives that have signers, key instances of the
    signer alternatives under the packet's bindings, and near misses (one shared pattern changed)"""
    alpha = alphabet(schema)
    try:
        chains = spec.all_chains()
    except (SpecError, RecursionError):
        return []
    signed = [c for c in chains if c[4]]
    names = []
    for _ in range(count):
        if not signed:
            break
        rid, _, atoms, cons, sign = rng.choice(signed)
        inst = _instance(rng, spec, alpha, atoms, cons, {})
        if inst is None:
            continue
        pkt, vals = inst
        names.append(pkt)
        keys = [c for c in chains if c[0] in sign]
        if not keys:
            continue
        _, _, katoms, kcons, _ = rng.choice(keys)
        named = {a[1] for a in atoms if a[0] == 'named'}
        sigma = {k: v for k, v in vals.items() if k in named}
        kin = _instance(rng, spec, alpha, katoms, kcons, sigma)
        if kin is not None:
            names.append(kin[0])
            if rng.random() < 0.5 and kin[0]:
                miss = list(kin[0])
                miss[rng.randrange(len(miss))] = rng.choice(alpha)
                names.append(miss)
        else:
            # the key alternative cannot be satisfied under the packet's bindings: offer a free instance
            kfree = _instance(rng, spec, alpha, katoms, kcons, {})
            if kfree is not None:
                names.append(kfree[0])
    uniq = []
    for n in names:
        if n not in uniq:
            uniq.append(n)
    return uniq


def name_bytes(nm, digest=False):
    """digest: False | True (a trailing implicit digest) | 'params' (a trailing parameters digest) | 'both' (parameters
    digest, then implicit digest: the full name of a signed Interest)"""
    tail = {'params': [comp(PARAMS_DIGEST_S)], 'both': [comp(PARAMS_DIGEST_S), DIGEST],
            'double': [DIGEST, DIGEST]}.get(digest, [DIGEST] if digest else [])      # 'double': only the last one is ignored
    return [comp(s) for s in nm] + tail


def shrink_schema(schema):
    """strictly smaller schemas: drop a rule, a component, a constraint set / term / option, a signer"""
    rules = schema['rules']
    for i in range(len(rules)):
        yield {'rules': rules[:i] + rules[i + 1:]}
    for i, r in enumerate(rules):
        def with_rule(r2):
            return {'rules': rules[:i] + [r2] + rules[i + 1:]}
        if len(r['name']) > 1:
            for k in range(len(r['name'])):
                yield with_rule(dict(r, name=r['name'][:k] + r['name'][k + 1:]))
        for k in range(len(r['cons'])):
            yield with_rule(dict(r, cons=r['cons'][:k] + r['cons'][k + 1:]))
            cs = r['cons'][k]
            if len(cs) > 1:
                for j in range(len(cs)):
                    yield with_rule(dict(r, cons=r['cons'][:k] + [cs[:j] + cs[j + 1:]] + r['cons'][k + 1:]))
            for j, t in enumerate(cs):
                if len(t['opts']) > 1:
                    for q in range(len(t['opts'])):
                        t2 = dict(t, opts=t['opts'][:q] + t['opts'][q + 1:])
                        yield with_rule(dict(r, cons=r['cons'][:k] + [cs[:j] + [t2] + cs[j + 1:]] + r['cons'][k + 1:]))
        for k in range(len(r['sign'])):
            yield with_rule(dict(r, sign=r['sign'][:k] + r['sign'][k + 1:]))
        for k, c in enumerate(r['name']):
            if c[0] == 'ref':
                yield with_rule(dict(r, name=r['name'][:k] + [['lit', 'a']] + r['name'][k + 1:]))


# ------------------------------------------------- state carried between compilations in one process (sessions)
# A session is a list of ops executed in order in ONE process; every compilation in it is judged on its own:
#   ['self']                   the schema of the case is compiled (again)
#   ['text', schema, label]    another schema is compiled (label: 'other' | 'bad' | 'donor' | 'orig' | 'sibling')
#   ['raw', text]              a text the grammar refuses is handed to compile_lvs (only executed)
RAW_TEXTS = ['#a: "x"/', '#a "x"', '#a: "x" <= ', '#a: x & {', 'a: "x"', '#a: x & {x: $f(}', '#a: "x"\n#b: #a/']


def repeated_pattern_rule(rng, lits, named, rid='#p1', signers=()):
    """a definition whose name writes ONE pattern (mostly a temporary one) two or three times among literals, with one
    or two constraint sets on it"""
    pat = rng.choice(TEMPS + TEMPS + TEMPS + list(named[:1]))
    k = rng.choice([2, 2, 3])
    body = [['pat', pat] for _ in range(k)] + [['lit', rng.choice(lits)] for _ in range(rng.choice([0, 1, 1, 2]))]
    rng.shuffle(body)
    cons = [[{'pat': pat, 'opts': [['lit', rng.choice(lits)] for _ in range(rng.choice([1, 2, 2]))]}]]
    if rng.random() < 0.3:
        cons.append([{'pat': pat, 'opts': [gen_opt(rng, [], lits)]}])
    if rng.random() < 0.15:
        cons = []
    return {'id': rid, 'name': body[:MAXLEN], 'cons': cons, 'sign': sorted(signers)}


def sibling_schema(rng, schema):
    """a nearby text over the same identifiers: the definitions in another order, one piece dropped, or one literal of a
    name replaced (None when there is none that differs)"""
    import copy
    r = rng.random()
    if r < 0.3 and len(schema['rules']) > 1:
        rules = list(schema['rules'])
        rng.shuffle(rules)
        s = {'rules': rules}
    elif r < 0.7:
        cand = list(shrink_schema(schema))
        s = rng.choice(cand) if cand else None
    else:
        s = copy.deepcopy(schema)
        lits = [c for ru in s['rules'] for c in ru['name'] if c[0] == 'lit']
        if lits:
            c = rng.choice(lits)
            c[1] = rng.choice([x for x in LITS if x != c[1]])
    return s if s is not None and s != schema and s['rules'] else None


def broken_schema(rng, schema):
    """the schema with one static error (undefined rule in a name / as signer, a constraint on a pattern written nowhere,
    a rule referring to itself, a rule signing itself) - compile_lvs or the loader raises on it"""
    rules = [dict(r) for r in schema['rules']]
    real = [i for i, r in enumerate(rules) if not is_temp(r['id'])]
    i = rng.randrange(len(rules))
    r = rules[i]
    kind = rng.choice(['ref', 'signer', 'cons', 'ref-cycle', 'sign-cycle'])
    if kind in ('ref-cycle', 'sign-cycle') and not real:
        kind = 'ref'
    if kind == 'ref':
        r['name'] = r['name'] + [['ref', '#nope']]
    elif kind == 'signer':
        r['sign'] = r['sign'] + ['#nope']
    elif kind == 'cons':
        r['cons'] = [list(cs) for cs in (r['cons'] or [[]])]
        r['cons'][0] = r['cons'][0] + [{'pat': 'nopat', 'opts': [['lit', 'a']]}]
    else:
        i = rng.choice(real)
        r = rules[i]
        if kind == 'ref-cycle':
            r['name'] = r['name'] + [['ref', r['id']]]
        else:
            r['sign'] = r['sign'] + [r['id']]
    rules[i] = r
    return {'rules': rules}


DONOR_RULES = [{'id': '#nope', 'name': [['lit', 'a'], ['pat', 'nopat'], ['pat', '_nope'], ['pat', '_t'], ['pat', '_']], 'cons': [], 'sign': []},
               {'id': '#_tmp', 'name': [['pat', 'nopat']], 'cons': [], 'sign': []}]


def donor_schema(schema):
    """the schema plus definitions that WRITE what an injected error refers to (rule #nope, patterns nopat / _nope / _t / _):
    compiled first, it leaves behind every identifier the following text lacks"""
    return {'rules': list(schema['rules']) + [dict(r) for r in DONOR_RULES]}


def run_session_prefix(ops, schema, compile_one, compile_lvs):
    """execute the ops of a session; `compile_one(schema)` -> observation of one compilation. Returns
    (rounds of the case's schema, [(label, schema, observation)] of the other texts, outcomes of the raw texts)"""
    rounds, others, raws = [], [], []
    for op in ops:
        if op[0] == 'self':
            rounds.append(compile_one(schema))
        elif op[0] == 'text':
            others.append((op[2], op[1], compile_one(op[1])))
        else:
            try:
                compile_lvs(op[1])
                raws.append('ok')
            except Exception as e:          # noqa
                raws.append(type(e).__name__)
    return rounds, others, raws


def session_shape(ops):
    return ','.join('self' if op[0] == 'self' else op[2] if op[0] == 'text' else 'raw' for op in ops)
