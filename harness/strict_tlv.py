"""Independent strict TLV reader, written from the NDN packet format specification (not from the library).

strict_parse(fs, wire, ignore_critical) -> list of value tuples (see tlvschema) or raises Reject(reason).
Rules enforced: every Type/Length number is complete; every element lies entirely inside its parent;
recognised fields are taken in declared order (a recognised critical field out of order or repeated is an
error, so is an unrecognised critical one unless ignore_critical); unrecognised non-critical elements are
skipped; integers have width 1, 2, 4 or 8; text is valid UTF-8; a Name is a sequence of complete components
exactly filling its Length; sub-models are read recursively inside their own Value.
"""


class Reject(Exception):
    pass


class Overrun(Reject):
    def __init__(self, t):
        super().__init__('element overruns its parent')
        self.t = t


def read_num(buf, off, end):
    if off >= end:
        raise Reject('truncated number')
    b = buf[off]
    if b <= 0xFC:
        return b, 1
    w = {0xFD: 2, 0xFE: 4, 0xFF: 8}[b]
    if off + 1 + w > end:
        raise Reject('truncated number')
    return int.from_bytes(buf[off + 1:off + 1 + w], 'big'), 1 + w


def read_elem(buf, off, end):
    """returns (type, value_start, value_end)"""
    t, st = read_num(buf, off, end)
    ln, sl = read_num(buf, off + st, end)
    vs = off + st + sl
    if vs + ln > end:
        raise Overrun(t)
    return t, vs, vs + ln


def _typ(s):
    if s[0] in ('R', 'P'):
        return s[1][1]
    if s[0] == 'K':
        return None
    return s[1]


def strict_name(buf, off, end):
    t, vs, ve = read_elem(buf, off, end)
    if t != 7:
        raise Reject('not a Name')
    comps, p = [], vs
    while p < ve:
        try:
            _, cvs, cve = read_elem(buf, p, ve)
        except Overrun:
            raise Reject('name component overruns the Name')
        comps.append(bytes(buf[p:cve]))
        p = cve
    return comps


def strict_value(s, buf, eoff, vs, ve, parent_end):
    k = s[0]
    if k == 'U':
        if ve - vs not in (1, 2, 4, 8):
            raise Reject('illegal integer width')
        return ('u', int.from_bytes(buf[vs:ve], 'big'))
    if k == 'B':
        return ('b',)
    if k == 'Y':
        b = bytes(buf[vs:ve])
        if s[2]:
            try:
                b.decode('utf-8')
            except UnicodeDecodeError:
                raise Reject('invalid UTF-8')
        return ('y', b)
    if k == 'N':
        return ('n', strict_name(buf, eoff, ve))
    if k == 'M':
        return ('m', strict_fields(s[3], buf, vs, ve, s[2]))
    raise Reject('bad schema')


def strict_fields(fs, buf, start, end, ic):
    vals = [('l', []) if s[0] == 'R' else ('p', []) if s[0] == 'P' else None for s in fs]
    pos, off = 0, start
    while off < end:
        try:
            t, vs, ve = read_elem(buf, off, end)
        except Overrun as o:
            kind = 'unrecognised'
            for i in range(pos, len(fs)):
                if _typ(fs[i]) == o.t:
                    s0 = fs[i][1] if fs[i][0] in ('R', 'P') else fs[i]
                    kind = {'U': 'integer', 'B': 'boolean', 'Y': 'byte-string', 'N': 'name', 'M': 'sub-model'}[s0[0]]
                    break
            raise Reject(f'{kind} element overruns its parent')
        idx = None
        for i in range(pos, len(fs)):
            if _typ(fs[i]) == t:
                idx = i
                break
        if idx is None:
            if t % 2 == 1 and not ic:
                raise Reject('unrecognised, repeated or out-of-order critical element')
            off = ve
            continue
        s = fs[idx]
        if s[0] == 'R':
            vals[idx][1].append(strict_value(s[1], buf, off, vs, ve, end))
            pos = idx
        elif s[0] == 'P':
            key = strict_value(s[1], buf, off, vs, ve, end)
            off = ve
            while True:
                t2, vs2, ve2 = read_elem(buf, off, end)
                if t2 == _typ(s[2]):
                    break
                if t2 % 2 == 1 and not ic:
                    raise Reject('unrecognised critical element inside a map entry')
                off = ve2
            val = strict_value(s[2], buf, off, vs2, ve2, end)
            ent = vals[idx][1]
            for j, (a, _) in enumerate(ent):
                if a == key:
                    ent[j] = (a, val)
                    break
            else:
                ent.append((key, val))
            ve = ve2
            pos = idx
        else:
            vals[idx] = strict_value(s, buf, off, vs, ve, end)
            pos = idx + 1
        off = ve
    return vals


def strict_parse(fs, wire, ic=False):
    wire = bytes(wire)
    return strict_fields(fs, wire, 0, len(wire), ic)


def strict_packet(fs, wire, outer_type, ic=False, need_name=True):
    """a whole packet: exactly one element of type outer_type filling the wire; the Name mandatory"""
    wire = bytes(wire)
    try:
        t, vs, ve = read_elem(wire, 0, len(wire))
    except Overrun:
        raise Reject('outer Length exceeds the wire')
    if t != outer_type:
        raise Reject('wrong packet type')
    if ve != len(wire):
        raise Reject('trailing bytes after the packet')
    vals = strict_fields(fs, wire, vs, ve, ic)
    if need_name:
        for s, v in zip(fs, vals):
            if s[0] == 'N':
                if v is None:
                    raise Reject('mandatory Name missing')
                break
    return vals
