#!/venv/bin/python
"""Record the AST hashes of every property's anchored source files as 'validated against' (run after the
checks were confirmed clean on the current /repo): harness/ast_hashes.json.  The quick tier of a check
whose anchored files differ from this record runs the thorough-sized search."""
import os, sys, json
sys.path.insert(0, os.path.dirname(os.path.abspath(__file__)))
import lib
ids = [json.loads(l)['id'] for l in open(os.path.join(lib.ROOT, 'properties.jsonl'))]
rec = {i: lib.anchored_hashes(i) for i in ids}
rec['_library'] = lib.library_hashes()
json.dump(rec, open(os.path.join(lib.ROOT, 'harness', 'ast_hashes.json'), 'w'), indent=1, sort_keys=True)
print('recorded', len(ids))
