#!/bin/bash
# MANIFEST.setup_cmd: regenerate the driver entry points and the tables read from /repo (so that nothing generated
# from another tree is ever built), then build the whole Lean project once. A target that does not build is not a
# setup failure: every check rebuilds its own targets and reports a broken obligation under its own property.
set -u
cd "$(dirname "$0")/../lean" || exit 2
command -v lake >/dev/null || { echo "setup: lake not on PATH"; exit 2; }
python3 ../harness/gen_driver.py || exit 2
/venv/bin/python ../harness/regen.py C01 C02 C03 C04 C05 C06 C07 C08 C09 C10 C11 C12 C13 C14 C15 C16 C17 C18 C19 C20 || exit 2
if ! lake build; then
  echo "setup: lake build reported failing targets (see above); each check rebuilds its own targets and reports them"
fi
exit 0
