#!/usr/bin/env python3
"""Regenerate lean/Driver.lean from the modules present under lean/NdnModel/Drv/.
Each module `NdnModel/Drv/<Tag>.lean` defines `Ndn.Drv.<Tag>.handle : List String → String`;
a protocol line `<Tag> arg1 arg2 …` is dispatched on its first token."""
import os, sys
ROOT = os.path.dirname(os.path.dirname(os.path.abspath(__file__)))
LEAN = os.path.join(ROOT, 'lean')

def main():
    tags = sorted(f[:-5] for f in os.listdir(os.path.join(LEAN, 'NdnModel', 'Drv')) if f.endswith('.lean'))
    out = []
    for t in tags:
        out.append(f'import NdnModel.Drv.{t}')
    out.append('')
    out.append('def dispatch (line : String) : String :=')
    out.append('  match (line.splitOn " ").filter (· ≠ "") with')
    for t in tags:
        out.append(f'  | "{t}" :: args => Ndn.Drv.{t}.handle args')
    out.append('  | _ => "bad-op"')
    out.append('')
    out.append('partial def loop (h : IO.FS.Stream) (o : IO.FS.Stream) : IO Unit := do')
    out.append('  let line ← h.getLine')
    out.append('  if line.isEmpty then return ()')
    out.append('  let l := line.trimAscii.toString')
    out.append('  o.putStrLn (dispatch l)')
    out.append('  loop h o')
    out.append('')
    out.append('def main : IO Unit := do')
    out.append('  let o ← IO.getStdout')
    out.append('  loop (← IO.getStdin) o')
    out.append('  o.flush')
    text = '\n'.join(out) + '\n'
    p = os.path.join(LEAN, 'Driver.lean')
    if not os.path.exists(p) or open(p).read() != text:
        open(p, 'w').write(text)
    # NdnModel.lean root imports everything under NdnModel/
    mods = []
    for d, _, fs in os.walk(os.path.join(LEAN, 'NdnModel')):
        for f in fs:
            if f.endswith('.lean'):
                rel = os.path.relpath(os.path.join(d, f), LEAN)[:-5].replace(os.sep, '.')
                mods.append(rel)
    text = ''.join(f'import {m}\n' for m in sorted(mods))
    p = os.path.join(LEAN, 'NdnModel.lean')
    if not os.path.exists(p) or open(p).read() != text:
        open(p, 'w').write(text)
    for lib in ('NdnProofs', 'NdnGen'):
        mods = []
        for d, _, fs in os.walk(os.path.join(LEAN, lib)):
            for f in fs:
                if f.endswith('.lean') and os.sep + 'Audit' + os.sep not in os.path.join(d, f):
                    rel = os.path.relpath(os.path.join(d, f), LEAN)[:-5].replace(os.sep, '.')
                    mods.append(rel)
        text = ''.join(f'import {m}\n' for m in sorted(mods))
        p = os.path.join(LEAN, lib + '.lean')
        if not os.path.exists(p) or open(p).read() != text:
            open(p, 'w').write(text)

if __name__ == '__main__':
    main()
