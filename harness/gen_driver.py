#!/usr/bin/env python3
"""Regenerate the lake configuration and the per-property driver entry points.

Every module `lean/NdnModel/Drv/<Tag>.lean` defines `Ndn.Drv.<Tag>.handle : List String → String`.
For each one this script writes `lean/DrvMain/<Tag>.lean` (a three-line `main`) and a
`[[lean_exe]] drv_<Tag>` entry in lakefile.toml, so each property has its own compiled model driver
(`lean/.lake/build/bin/drv_<Tag>`) and a broken model of one property cannot block the others.
It also rewrites the library root files NdnModel.lean / NdnGen.lean / NdnProofs.lean."""
import os
ROOT = os.path.dirname(os.path.dirname(os.path.abspath(__file__)))
LEAN = os.environ.get('VERIF_LEAN') or os.path.join(ROOT, 'lean')


def write_if_changed(p, text):
    if not os.path.exists(p) or open(p).read() != text:
        os.makedirs(os.path.dirname(p), exist_ok=True)
        open(p, 'w').write(text)


def main():
    tags = sorted(f[:-5] for f in os.listdir(os.path.join(LEAN, 'NdnModel', 'Drv')) if f.endswith('.lean'))
    for t in tags:
        write_if_changed(os.path.join(LEAN, 'DrvMain', f'{t}.lean'),
                         f'import NdnModel.Drv.{t}\nimport NdnModel.DriverMain\n\n'
                         f'def main : IO Unit := Ndn.driverMain Ndn.Drv.{t}.handle\n')
    exes = ''.join(f'\n[[lean_exe]]\nname = "drv_{t}"\nroot = "DrvMain.{t}"\n' for t in tags)
    targets = ', '.join(['"NdnModel"', '"NdnGen"', '"NdnProofs"'] + [f'"drv_{t}"' for t in tags])
    write_if_changed(os.path.join(LEAN, 'lakefile.toml'),
                     f'name = "ndn"\nversion = "0.1.0"\ndefaultTargets = [{targets}]\n\n'
                     '[[lean_lib]]\nname = "NdnModel"\n\n[[lean_lib]]\nname = "NdnGen"\n\n[[lean_lib]]\nname = "NdnProofs"\n'
                     + exes)
    for lib in ('NdnModel', 'NdnProofs', 'NdnGen'):
        mods = []
        for d, _, fs in os.walk(os.path.join(LEAN, lib)):
            for f in fs:
                full = os.path.join(d, f)
                if f.endswith('.lean') and os.sep + 'Audit' + os.sep not in full:
                    mods.append(os.path.relpath(full, LEAN)[:-5].replace(os.sep, '.'))
        write_if_changed(os.path.join(LEAN, lib + '.lean'), ''.join(f'import {m}\n' for m in sorted(mods)))


if __name__ == '__main__':
    main()
