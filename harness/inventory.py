#!/venv/bin/python
"""Print a markdown inventory of every property plugin: theorems, partial statements, per-property trusted base,
mutants and seeded changes on file.  Used to refresh Appendix B of DESIGN.md."""
import os, sys, json, importlib, glob
sys.path.insert(0, os.path.dirname(os.path.abspath(__file__)))
import lib
lib.setup_repo_path()
ids = [json.loads(l)['id'] for l in open(os.path.join(lib.ROOT, 'properties.jsonl'))]
for i in ids:
    p = os.path.join(lib.ROOT, 'harness', 'props', i.lower() + '.py')
    if not os.path.exists(p):
        print(f'### {i}\nnot built\n')
        continue
    try:
        P = importlib.import_module('props.' + i.lower())
    except Exception as e:
        print(f'### {i}\nplugin does not import: {e}\n')
        continue
    print(f'### {i} — {getattr(P, "TITLE", "")}')
    ths = getattr(P, 'THEOREMS', [])
    print(f'*Theorems ({len(ths)}):* ' + ', '.join('`' + t.split('.', 1)[1] if t.startswith('Ndn.') else t for t in ths) + '.')
    part = getattr(P, 'PARTIAL', {})
    if part:
        for k, v in part.items():
            print(f'*Partial:* `{k.split(".")[-1]}` — {v}')
    for t in getattr(P, 'TRUSTED', []):
        print(f'*Assumes:* {t}')
    muts = sorted(os.path.basename(x)[:-5] for x in glob.glob(os.path.join(lib.ROOT, 'mutants', i, '*.diff')))
    if muts:
        print(f'*Mutants on file ({len(muts)}, each passes the 119 tests):* ' + ', '.join(muts) + '.')
    for d in sorted(glob.glob(os.path.join(lib.ROOT, 'seeded', i + '-*'))):
        try:
            m = json.load(open(os.path.join(d, 'meta.json')))
            print(f'*Seeded change {os.path.basename(d)}:* caught={m["check_result"]["caught"]} '
                  f'(with failing input: {m["check_result"]["with_failing_input"]}).')
        except Exception:
            pass
    print()
