"""Framework shared by every property check.  See DESIGN.md section 3.

A property plugin (harness/props/cNN.py) provides:

  PROP            'C18'
  TITLE           short text
  LEAN_TARGETS    lake targets holding the property theorems, e.g. ['NdnProofs.Props.C18']
  THEOREMS        fully qualified theorem names = the proof obligations of this property
  PARTIAL         {theorem_name: 'what is missing'} for `_partial` statements (may be empty)
  TRUSTED         list of per-property trusted-base strings
  RULE            text: how cases are generated, what makes one non-trivial
  extract(repo)   optional: regenerate lean/NdnGen/<PROP>.lean from the source (returns text)
  cases(rng, tier)            iterator of JSON-serialisable cases
  run_impl(case)              run the REAL implementation; returns a JSON-serialisable observation
  model_line(case, impl)      protocol line for the Lean driver (without newline), or None
  model_obs(answer, case, impl)  parse the driver's answer into the same canonical form as
                              impl_obs(impl)
  impl_obs(impl)              the part of the implementation's observation that must equal the model's
  oracle(case, impl)          None if the property holds on this case for the implementation,
                              else a short text saying what fails (evaluated on the implementation only)
  nontrivial(case, impl)      bool
  shrink(case)                iterator of strictly smaller candidate cases (may be empty)
  finding_key(case, impl, why)   stable slug identifying the defect (for known_findings.txt)
  tags(case, impl)            optional list of histogram tags
"""
import os, sys, json, time, random, subprocess, hashlib, re, fcntl, importlib, traceback, collections, copy

ROOT = os.path.dirname(os.path.dirname(os.path.abspath(__file__)))
REPO = os.environ.get('VERIF_REPO', '/repo')
LEAN = os.environ.get('VERIF_LEAN') or os.path.join(ROOT, 'lean')
if not os.environ.get('VERIF_LEAN') and os.path.realpath(REPO) != os.path.realpath('/repo'):
    # A run against a scratch copy of the library (mutation self-tests, seeded changes) works on a private copy of the
    # Lean project, so that tables generated from another tree are never written into /verif/lean (where a concurrent
    # build, or a commit, could pick them up) and several such runs can go on at once.
    import tempfile, shutil, atexit
    _tmp = tempfile.mkdtemp(prefix='verif-lean-')
    with open(os.path.join(LEAN, '.build.lock'), 'w') as _f:
        fcntl.flock(_f, fcntl.LOCK_EX)
        shutil.copytree(LEAN, os.path.join(_tmp, 'lean'), symlinks=True)
    LEAN = os.path.join(_tmp, 'lean')
    os.environ['VERIF_LEAN'] = LEAN
    atexit.register(shutil.rmtree, _tmp, True)
ALLOWED_AXIOMS = {'propext', 'Classical.choice', 'Quot.sound'}
FORBIDDEN = re.compile(r'\bsorry\b|\badmit\b|^\s*axiom\s|native_decide|bv_decide|implemented_by|\bunsafe\s|maxHeartbeats\s+0', re.M)

GLOBAL_TRUSTED = [
    "Lean 4.33.0 kernel (and leanchecker in the thorough tier)",
    "axioms allowed: propext, Classical.choice, Quot.sound (measured per theorem with #print axioms; no native_decide, no bv_decide, no sorry, no axioms of our own)",
    "the hand-written Lean model is tied to /repo only by this run's correspondence check (differential testing of the compiled model against the real code on generated inputs) and by tables regenerated from the source",
    "CPython semantics of struct/memoryview/bytes/dict, asyncio, and third-party libraries (pygtrie, pycryptodomex, lark, sqlite3) are modelled, not verified",
]


import contextlib


@contextlib.contextmanager
def debug_logging(on):
    """ENVIRONMENT: the application runs with DEBUG logging switched on (log lines of the library, some guarded by
    isEnabledFor, are built and formatted); records go to a handler that formats them like a real one and swallows what
    a real one swallows.  No property statement depends on the log level, so a case judged under DEBUG is an ordinary case."""
    import logging
    if not on:
        yield
        return

    class Sink(logging.Handler):
        def emit(self, record):
            try:
                record.getMessage()
            except Exception:          # noqa - logging.Handler.handleError territory, never the caller's problem
                pass
    lg = logging.getLogger('ndn')
    old = (lg.level, lg.propagate, logging.root.manager.disable)
    h = Sink()
    lg.addHandler(h)
    lg.setLevel(logging.DEBUG)
    lg.propagate = False
    logging.disable(logging.NOTSET)
    try:
        yield
    finally:
        lg.removeHandler(h)
        lg.setLevel(old[0])
        lg.propagate = old[1]
        logging.disable(old[2])


@contextlib.contextmanager
def process_tz(tz):
    """ENVIRONMENT: the time zone of the process (TZ + time.tzset()).  No property statement depends on it."""
    import time as _time
    if not tz or not hasattr(_time, 'tzset'):
        yield
        return
    old = os.environ.get('TZ')
    os.environ['TZ'] = tz
    _time.tzset()
    try:
        yield
    finally:
        if old is None:
            os.environ.pop('TZ', None)
        else:
            os.environ['TZ'] = old
        _time.tzset()


PROCESS_TZS = ['JST-9', 'EST5EDT,M3.2.0,M11.1.0', 'NST03:30NDT,M3.2.0,M11.1.0', 'CHADT-13:45', 'UTC+12']


def setup_repo_path():
    import logging
    logging.disable(logging.CRITICAL)
    src = os.path.join(REPO, 'src')
    if src not in sys.path:
        sys.path.insert(0, src)
    sys.path.insert(0, os.path.join(ROOT, 'harness'))


def strip_comments(text):
    text = re.sub(r'/-.*?-/', '', text, flags=re.S)
    return re.sub(r'--.*', '', text)


class Lock:
    def __init__(self, path):
        self.path = path

    def __enter__(self):
        self.f = open(self.path, 'w')
        fcntl.flock(self.f, fcntl.LOCK_EX)

    def __exit__(self, *a):
        fcntl.flock(self.f, fcntl.LOCK_UN)
        self.f.close()


def run(cmd, cwd=None, timeout=3000, inp=None):
    p = subprocess.run(cmd, cwd=cwd, input=inp, capture_output=True, text=True, timeout=timeout)
    return p.returncode, p.stdout + p.stderr


def write_if_changed(path, text):
    if os.path.exists(path) and open(path).read() == text:
        return False
    os.makedirs(os.path.dirname(path), exist_ok=True)
    open(path, 'w').write(text)
    return True


def lean_build(targets):
    """returns (ok, log, broken) where broken = list of (file, line, message)"""
    with Lock(os.path.join(LEAN, '.build.lock')):
        run([sys.executable, os.path.join(ROOT, 'harness', 'gen_driver.py')])
        rc, log = run(['timeout', '1500', 'lake', 'build'] + list(targets), cwd=LEAN)
    broken = []
    for m in re.finditer(r'error: ([\w/\.]+\.lean):(\d+):(\d+): (.*)', log):
        broken.append((m.group(1), int(m.group(2)), m.group(4)))
    return rc == 0, log, broken


def theorem_at(file, line):
    """name of the declaration enclosing `line` in a Lean file"""
    try:
        src = open(os.path.join(LEAN, file)).read().split('\n')
    except OSError:
        return None
    ns = ''
    name = None
    for i, l in enumerate(src[:line], 1):
        m = re.match(r'\s*namespace\s+(\S+)', l)
        if m:
            ns = m.group(1)
        m = re.match(r'\s*(?:@\[[^\]]*\]\s*)?(?:private\s+|protected\s+)?(?:theorem|lemma|def|example|instance)\s+(\S+)', l)
        if m:
            name = (ns + '.' if ns else '') + m.group(1)
    return name


def lean_audit(prop, targets, theorems):
    """#print axioms for each theorem; returns {name: [axioms] | None if missing}"""
    imports = ''.join(f'import {t}\n' for t in targets)
    body = imports + ''.join(f'#print axioms {t}\n' for t in theorems)
    path = os.path.join(LEAN, 'NdnProofs', 'Audit', f'{prop}.lean')
    write_if_changed(path, body)
    with Lock(os.path.join(LEAN, '.build.lock')):
        rc, out = run(['lake', 'env', 'lean', path], cwd=LEAN)
    res = {t: None for t in theorems}
    out1 = out.replace('\n  ', ' ').replace('\n ', ' ')
    for m in re.finditer(r"'([^']+)' depends on axioms: \[([^\]]*)\]", out1):
        res[m.group(1)] = [a.strip() for a in m.group(2).split(',') if a.strip()]
    for m in re.finditer(r"'([^']+)' does not depend on any axioms", out1):
        res[m.group(1)] = []
    return res, out


def grep_forbidden(files):
    hits = []
    for f in files:
        p = os.path.join(LEAN, f)
        if not os.path.exists(p):
            continue
        txt = strip_comments(open(p).read())
        for m in FORBIDDEN.finditer(txt):
            hits.append(f'{f}: {m.group(0).strip()}')
    return hits


def lean_sources_of(targets):
    """transitive project-local imports of the target modules (as relative file names)"""
    seen, todo = [], [t.replace('.', '/') + '.lean' for t in targets]
    while todo:
        f = todo.pop()
        if f in seen or not os.path.exists(os.path.join(LEAN, f)):
            continue
        seen.append(f)
        for m in re.finditer(r'^import\s+(Ndn\S+)', open(os.path.join(LEAN, f)).read(), re.M):
            todo.append(m.group(1).replace('.', '/') + '.lean')
    return seen


class Driver:
    """batch interface to the compiled Lean model"""

    def __init__(self, prop):
        self.path = os.path.join(LEAN, '.lake', 'build', 'bin', f'drv_{prop}')
        self.ok = os.path.exists(self.path)

    def ask(self, lines):
        if not lines:
            return []
        # the model is asked in batches under a time limit: when the implementation produced pathological output (names
        # that grow with every command ...) the model driver may need far longer than the run itself; the lines it did not
        # answer in time are then simply not compared (the oracle still judges those cases) and the run says so
        limit = float(os.environ.get('VERIF_DRIVER_BUDGET', 400))
        out, t0, B = [], time.time(), 2000
        for k in range(0, len(lines), B):
            left = limit - (time.time() - t0)
            chunk = lines[k:k + B]
            if left <= 1:
                out.extend([None] * len(chunk))
                continue
            try:
                p = subprocess.run([self.path], input='\n'.join(chunk) + '\n', capture_output=True, text=True, timeout=left)
            except subprocess.TimeoutExpired:
                print(f'note: the model driver did not answer {len(lines) - k} of {len(lines)} requests within {limit:.0f}s; '
                      f'those cases are judged by the oracle only')
                out.extend([None] * (len(lines) - k))
                break
            o = p.stdout.split('\n')
            if o and o[-1] == '':
                o.pop()
            if len(o) != len(chunk):
                raise RuntimeError(f'driver answered {len(o)} lines for {len(chunk)} requests: {p.stderr[:500]}')
            out.extend(o)
        return out
        out = p.stdout.split('\n')
        if out and out[-1] == '':
            out.pop()
        if len(out) != len(lines):
            raise RuntimeError(f'driver answered {len(out)} lines for {len(lines)} requests: {p.stderr[:500]}')
        return out


def load_known():
    known, fixed = {}, []
    p = os.path.join(ROOT, 'known_findings.txt')
    if os.path.exists(p):
        for l in open(p):
            l = l.strip()
            m = re.match(r'known:\s+property=(\S+)\s+key=(\S+)\s*(.*)', l)
            if m:
                known.setdefault(m.group(1), {})[m.group(2)] = m.group(3)
            elif l.startswith('fixed:'):
                fixed.append(l)
    return known, fixed


def repo_head():
    try:
        return subprocess.run(['git', '-C', REPO, 'rev-parse', 'HEAD'], capture_output=True, text=True).stdout.strip()
    except Exception:
        return '?'


def anchored_hashes(prop):
    """sha256 of ast.dump of every source file the property is anchored in (properties.jsonl)"""
    import ast
    out = {}
    for l in open(os.path.join(ROOT, 'properties.jsonl')):
        d = json.loads(l)
        if d['id'] != prop:
            continue
        for f in d['anchors']['files']:
            path = os.path.join(REPO, f)
            files = []
            if os.path.isdir(path):
                for dd, _, fs in os.walk(path):
                    files += [os.path.join(dd, x) for x in fs if x.endswith('.py')]
            elif path.endswith('.py') and os.path.exists(path):
                files = [path]
            for x in sorted(files):
                try:
                    out[os.path.relpath(x, REPO)] = hashlib.sha256(ast.dump(ast.parse(open(x).read())).encode()).hexdigest()
                except SyntaxError:
                    out[os.path.relpath(x, REPO)] = 'syntax-error'
    return out


def library_hashes():
    """sha256 of ast.dump of EVERY source file of the library (src/ndn/**/*.py): the anchored code calls helpers all over the
    package (encoding, utils, types, transport, security, platform), and a change there can break a property as well"""
    import ast
    out = {}
    base = os.path.join(REPO, 'src', 'ndn')
    for dd, _, fs in os.walk(base):
        for x in sorted(fs):
            if x.endswith('.py'):
                path = os.path.join(dd, x)
                try:
                    out[os.path.relpath(path, REPO)] = hashlib.sha256(ast.dump(ast.parse(open(path).read())).encode()).hexdigest()
                except (SyntaxError, ValueError):
                    out[os.path.relpath(path, REPO)] = 'syntax-error'
    return out


def drift(prop):
    """files whose AST differs from the one the model was last validated against (harness/ast_hashes.json): the files the
    property is anchored in, and (key '_library') every other file of the package - a file that appeared or disappeared
    counts as changed"""
    p = os.path.join(ROOT, 'harness', 'ast_hashes.json')
    allrec = json.load(open(p)) if os.path.exists(p) else {}
    rec = allrec.get(prop, {})
    cur = anchored_hashes(prop)
    out = set(f for f in cur if rec.get(f) != cur[f])
    lrec = allrec.get('_library')
    if lrec is not None:
        lcur = library_hashes()
        out |= set(f for f in set(lcur) | set(lrec) if lrec.get(f) != lcur.get(f))
    return sorted(out)


def jdump(o):
    return json.dumps(o, sort_keys=True, separators=(',', ':'))


def check_main(argv=None):
    import argparse
    ap = argparse.ArgumentParser()
    ap.add_argument('prop')
    ap.add_argument('--tier', default=os.environ.get('VERIF_TIER', 'quick'))
    ap.add_argument('--replay', default=None)
    a = ap.parse_args(argv)
    # wall-clock watchdog: a check that does not finish is not a verdict (exit 2), whatever it was doing
    budget = int(os.environ.get('VERIF_WALL', '5400' if a.tier == 'thorough' else '2700'))

    def _wall(signum, frame):
        print(f'HARNESS-TIMEOUT wall clock budget of {budget}s used up (exit 2: this is not a verdict about the property)',
              flush=True)
        os._exit(2)
    try:
        import signal
        signal.signal(signal.SIGALRM, _wall)
        signal.alarm(budget)
    except (ValueError, AttributeError):
        pass
    try:
        rc = _check(a.prop.upper(), a.tier if a.tier in ('quick', 'thorough') else 'quick', a.replay)
    except subprocess.TimeoutExpired as e:
        print(f'HARNESS-TIMEOUT {e}')
        rc = 2
    except SystemExit:
        raise
    except BaseException:
        traceback.print_exc()
        print('HARNESS-ERROR (exit 2: this is not a verdict about the property)')
        rc = 2
    sys.exit(rc)


def _check(prop, tier, replay):
    t0 = time.time()
    setup_repo_path()
    seed = int(os.environ.get('VERIF_SEED', '1'))
    P = importlib.import_module(f'props.{prop.lower()}')
    rng = random.Random(f'{prop}-{seed}')
    known, _fixed = load_known()
    known = known.get(prop, {})

    # ---------- 1. generated tables --------------------------------------------------------
    gen_note = None
    if hasattr(P, 'extract'):
        try:
            text = P.extract(REPO)
            with Lock(os.path.join(LEAN, '.build.lock')):
                changed = write_if_changed(os.path.join(LEAN, 'NdnGen', f'{prop}.lean'), text)
            gen_note = 'regenerated' + (' (changed)' if changed else ' (unchanged)')
        except Exception as e:
            traceback.print_exc()
            gen_note = f'extract failed: {type(e).__name__}: {e}'

    # ---------- 2. proofs --------------------------------------------------------------------
    targets = list(P.LEAN_TARGETS)
    drv = getattr(P, 'DRIVER', prop)      # a property may share another property's model driver
    ok, log, broken = lean_build(targets + [f'drv_{drv}'])
    theorems = list(P.THEOREMS)
    axioms, audit_out = ({t: None for t in theorems}, '')
    broken_names = []
    if ok:
        axioms, audit_out = lean_audit(prop, targets, theorems)
    else:
        # try the proofs without the driver / and the driver alone, to see which side broke
        ok_p, log_p, broken_p = lean_build(targets)
        if ok_p:
            axioms, audit_out = lean_audit(prop, targets, theorems)
        for f, ln, msg in (broken_p if not ok_p else broken):
            broken_names.append((theorem_at(f, ln) or f'{f}:{ln}', msg[:200]))
    sources = lean_sources_of(targets)
    forbidden = grep_forbidden(sources)
    discharged, undischarged = [], []
    for t in theorems:
        ax = axioms.get(t)
        if ax is not None and set(ax) <= ALLOWED_AXIOMS and not forbidden:
            discharged.append(t)
        else:
            undischarged.append((t, ax))
    proof_broken = bool(undischarged) or bool(forbidden)
    driver = Driver(drv)
    if not driver.ok:
        print('note: Lean driver not built; correspondence cannot run')

    # ---------- 3. correspondence + oracle on the implementation -----------------------------
    drifted = [] if os.environ.get('VERIF_NO_DRIFT') else drift(prop)
    search_mode = proof_broken or not ok or bool(drifted)
    if drifted:
        print(f'note: library source changed since the model was last validated ({len(drifted)} file(s): {drifted[:3]}); searching harder')
    eff_tier = 'thorough' if (search_mode and tier == 'quick') else tier
    cases = []
    corpus_dir = os.path.join(ROOT, 'corpus', prop)
    if replay:
        r = json.load(open(replay))
        # a failure found on a REPEATED case (see below) needs its earlier runs in this process to reproduce
        cases.extend([r.get('case')] * (1 + int(r.get('runs_before', 0))))
    else:
        if os.path.isdir(corpus_dir):
            for f in sorted(os.listdir(corpus_dir)):
                if f.endswith('.json'):
                    cases.append(json.load(open(os.path.join(corpus_dir, f)))['case'])
        cases.extend(P.cases(rng, eff_tier))
        # STATE CARRIED BETWEEN USES IN ONE PROCESS (caches keyed too coarsely, class-level scratch state, objects handed
        # out twice): every 6th case is run again right after its first run, and a sample of the cases once more at the end
        # of the stream.  A repetition is an ordinary case - same input, judged by the same oracle and the same model
        # comparison - so nothing more is demanded of the library than the property says; only its history differs.
        if not os.environ.get('VERIF_NO_REPEAT') and getattr(P, 'REPEATABLE', True):
            n0 = len(cases)
            out = []
            for i, c in enumerate(cases):
                out.append(c)
                if i % 6 == 5:
                    out.append(copy.deepcopy(c))
            step = max(1, n0 // 150)
            out.extend(copy.deepcopy(c) for c in cases[::step][:150])
            cases = out

    runs_before = {}          # index -> how often the same case ran earlier in this process
    _seen_case = collections.Counter()
    for i, c in enumerate(cases):
        try:
            k = hashlib.sha1(jdump(c).encode()).hexdigest()
        except Exception:     # noqa
            continue
        runs_before[i] = _seen_case[k]
        _seen_case[k] += 1

    # every 3rd case runs with the library's DEBUG logging on (a replay records it)
    replay_dbg = bool(json.load(open(replay)).get('debug_logging')) if replay else None

    replay_tz = json.load(open(replay)).get('process_tz') if replay else None

    def tz_of(i):
        # every 5th case runs in a process whose local time zone is not UTC (a replay records which)
        if os.environ.get('VERIF_NO_TZ'):
            return None
        if replay:
            return replay_tz
        return PROCESS_TZS[(i // 5) % len(PROCESS_TZS)] if i % 5 == 3 else None

    def dbg_of(i):
        if os.environ.get('VERIF_NO_DEBUGLOG'):
            return False
        return replay_dbg if replay_dbg is not None else (i % 3 == 2)

    impls, lines, idx = [], [], []
    harness_exc = []          # exceptions inside the plugin on single cases: they must not mask violations elsewhere
    # a library that became pathologically slow (a structure that grows with every use) must end in a verdict on what was
    # run, not in a harness timeout: the cases that do not fit into 40% of the wall-clock budget are left out (and said so)
    run_budget = float(os.environ.get('VERIF_RUN_BUDGET', 0.4 * int(os.environ.get('VERIF_WALL', '5400' if tier == 'thorough' else '2700')) if tier == 'thorough' else 600))
    t_run0 = time.time()
    for i, c in enumerate(cases):
        if i % 16 == 0 and time.time() - t_run0 > run_budget:
            print(f'note: {len(cases) - i} of {len(cases)} cases left out: the implementation took {time.time() - t_run0:.0f}s '
                  f'for the first {i} (budget {run_budget:.0f}s); judging what was run')
            cases = cases[:i]
            break
        try:
            with debug_logging(dbg_of(i)), process_tz(tz_of(i)):
                impl = P.run_impl(c)
        except Exception as e:      # noqa
            harness_exc.append((i, 'run_impl', traceback.format_exc()[-1500:]))
            impl = None
        impls.append(impl)
        if impl is None:
            continue
        ln = P.model_line(c, impl) if driver.ok else None
        if ln is not None:
            idx.append(i)
            lines.append(ln)
    answers = {}
    if lines:
        for i, ans in zip(idx, driver.ask(lines)):
            if ans is not None:
                answers[i] = ans

    failures = []        # (kind, case, impl, why, model_answer)
    hist = collections.Counter()
    distinct = set()
    compared = 0
    for i, c in enumerate(cases):
        impl = impls[i]
        if impl is None:
            continue
        try:
            for t in (P.tags(c, impl) if hasattr(P, 'tags') else []):
                hist[t] += 1
            if P.nontrivial(c, impl):
                distinct.add(hashlib.sha1(jdump(c).encode()).hexdigest())
            why = P.oracle(c, impl)
        except Exception as e:      # noqa
            harness_exc.append((i, 'oracle', traceback.format_exc()[-1500:]))
            continue
        if why:
            failures.append(('impl-violates-property', c, impl, why, answers.get(i), runs_before.get(i, 0), dbg_of(i), tz_of(i)))
            continue
        if i in answers:
            compared += 1
            try:
                mo = P.model_obs(answers[i], c, impl)
            except Exception as e:
                mo = f'unparseable model answer {answers[i][:80]!r}: {e}'
            io = P.impl_obs(impl)
            if mo != io:
                failures.append(('model-impl-disagreement', c, impl,
                                 f'model {jdump(mo)[:300]} != impl {jdump(io)[:300]}', answers[i], runs_before.get(i, 0), dbg_of(i), tz_of(i)))

    # ---------- 4. shrink, classify, verdict ---------------------------------------------------
    cur_dbg = [False]
    cur_tz = [None]

    def still_fails(kind, c):
        try:
            with debug_logging(cur_dbg[0]), process_tz(cur_tz[0]):
                impl = P.run_impl(c)
            if kind == 'impl-violates-property':
                w = P.oracle(c, impl)
                return (impl, w) if w else None
            if P.oracle(c, impl):
                return None
            ln = P.model_line(c, impl)
            if ln is None:
                return None
            ans = driver.ask([ln])[0]
            mo, io = P.model_obs(ans, c, impl), P.impl_obs(impl)
            return (impl, f'model {jdump(mo)[:300]} != impl {jdump(io)[:300]}') if mo != io else None
        except Exception:
            return None

    def shrink(kind, c, impl, why):
        budget = 400
        improved = True
        while improved and budget > 0:
            improved = False
            for c2 in P.shrink(c):
                budget -= 1
                r = still_fails(kind, c2)
                if r:
                    c, (impl, why) = c2, r
                    improved = True
                    break
                if budget <= 0:
                    break
        return c, impl, why

    os.makedirs(os.path.join(ROOT, 'replays', prop), exist_ok=True)
    violations, known_seen = [], []
    seen_keys = set()
    # impl violations first: they carry a failing input
    failures.sort(key=lambda f: 0 if f[0] == 'impl-violates-property' else 1)
    processed = 0
    for n, (kind, c, impl, why, ans, nbefore, dbg, ptz) in enumerate(failures):
        cur_dbg[0], cur_tz[0] = dbg, ptz
        # every failure is looked at (a listed known finding that fails on thousands of cases must not crowd out a
        # different violation further down the stream); only the first of each key is shrunk and reported, and at most
        # 200 distinct ones are processed
        key0 = P.finding_key(c, impl, why) if kind == 'impl-violates-property' else 'disagree:' + hashlib.sha1(why.encode()).hexdigest()[:8]
        if kind == 'impl-violates-property' and key0 in seen_keys:
            continue
        if len(violations) >= 5 and key0 not in known:
            continue
        if processed >= 200:
            break
        processed += 1
        c, impl, why = shrink(kind, c, impl, why)
        key = P.finding_key(c, impl, why) if kind == 'impl-violates-property' else 'disagreement'
        if kind == 'impl-violates-property':
            if key in seen_keys:
                continue
            seen_keys.add(key)
            seen_keys.add(key0)
            if key in known:
                known_seen.append((key, why))
                continue
        path = os.path.join('replays', prop, f'{seed}-{len(violations)}.json')
        json.dump({'property': prop, 'kind': kind, 'why': why, 'case': c, 'impl_output': impl, 'finding_key': key,
                   'model_answer': ans, 'seed': seed, 'tier': tier, 'repo_head': repo_head(), 'runs_before': nbefore, 'debug_logging': dbg, 'process_tz': ptz,
                   'how_to_replay': f'/venv/bin/python harness/check.py {prop} --replay {path}'},
                  open(os.path.join(ROOT, path), 'w'), indent=1, default=str)
        violations.append((kind, path, why, key))

    found_input = any(k == 'impl-violates-property' for k, *_ in violations)
    out_lines = []
    for key, why in known_seen:
        out_lines.append(f'KNOWN-FINDING: property={prop} {key}: {why[:200]}')
    rc = 0
    for kind, path, why, key in violations:
        if kind == 'impl-violates-property':
            out_lines.append(f'VIOLATION property={prop} replay={path}')
            rc = 1
    if not found_input:
        dis = [v for v in violations if v[0] == 'model-impl-disagreement']
        if dis or proof_broken or not ok:
            path = os.path.join('replays', prop, f'{seed}-unproved.json')
            json.dump({'property': prop, 'kind': 'proof-obligation-broken' if (proof_broken or not ok) else 'model-impl-disagreement',
                       'theorems_no_longer_checked': [t for t, _ in undischarged],
                       'axioms_found': {t: ax for t, ax in undischarged},
                       'forbidden_tokens': forbidden,
                       'build_errors': broken_names[:20],
                       'build_log_tail': log[-3000:] if not ok else '',
                       'correspondence_disagreements': [{'replay': p, 'why': w} for _, p, w, _ in dis],
                       'searched': f'{len(cases)} cases at tier {eff_tier}; no input on which the implementation fails the property oracle was found',
                       'seed': seed, 'repo_head': repo_head()},
                      open(os.path.join(ROOT, path), 'w'), indent=1, default=str)
            out_lines.append(f'VIOLATION property={prop} replay={path} no-failing-input-found')
            rc = 1

    # ---------- 5. evidence -------------------------------------------------------------------
    samples = []
    for i in [j for j in range(len(cases)) if impls[j] is not None][:3]:
        samples.append({'case': cases[i], 'impl': impls[i], 'model': answers.get(i)})
    checker_cmd = f'cd lean && lake build {" ".join(targets)} drv_{drv} && lake env lean NdnProofs/Audit/{prop}.lean  (#print axioms per theorem; grep for sorry/admit/axiom/native_decide/bv_decide in {len(sources)} source files)'
    leanchecker = None
    if tier == 'thorough' and ok:
        with Lock(os.path.join(LEAN, '.build.lock')):
            rcl, outl = run(['lake', 'env', 'leanchecker'] + targets, cwd=LEAN, timeout=3000)
        leanchecker = 'ok' if rcl == 0 else f'FAILED: {outl[-500:]}'
        checker_cmd += f' && lake env leanchecker {" ".join(targets)}'
        if rcl != 0:
            out_lines.append(f'note: leanchecker failed: {outl[-300:]}')
    ev = {
        'property_id': prop, 'tier': tier, 'seed': seed, 'level': 'proof',
        'coverage': {
            'obligations': len(theorems), 'discharged': len(discharged),
            'checker_cmd': checker_cmd,
            'trusted_base': GLOBAL_TRUSTED + list(getattr(P, 'TRUSTED', [])),
            'theorems': {t: axioms.get(t) for t in theorems},
            'partial_theorems': getattr(P, 'PARTIAL', {}),
            'generated_tables': gen_note,
            'leanchecker': leanchecker,
            'evaluations': len(cases),
            'compared_with_model': compared,
            'distinct_nontrivial': len(distinct),
            'rule': P.RULE,
            'samples': samples,
            'histogram': dict(hist.most_common(60)),
            'known_findings_seen': [k for k, _ in known_seen],
            'search_mode': search_mode,
            'anchored_files_changed': drifted,
        },
        'assumptions': list(getattr(P, 'TRUSTED', [])),
        'wall_s': round(time.time() - t0, 2),
        'violations': sum(1 for l in out_lines if l.startswith('VIOLATION')),
    }
    if not os.environ.get('VERIF_NO_EVIDENCE'):
        os.makedirs(os.path.join(ROOT, 'evidence'), exist_ok=True)
        json.dump(ev, open(os.path.join(ROOT, 'evidence', f'{prop}.json'), 'w'), indent=1, default=str)

    print(f'{prop} [{tier}] seed={seed}: theorems {len(discharged)}/{len(theorems)} discharged; '
          f'{len(cases)} cases ({len(distinct)} distinct non-trivial), {compared} compared with the model; '
          f'{len(failures)} failing; {time.time() - t0:.1f}s')
    if undischarged:
        print('  undischarged:', undischarged[:10])
    if forbidden:
        print('  forbidden tokens:', forbidden[:10])
    if not ok:
        print('  build errors:', broken_names[:10])
    for l in out_lines:
        print(l)
    if harness_exc:
        print(f'HARNESS-EXCEPTION on {len(harness_exc)} case(s) (first: case {harness_exc[0][0]} in {harness_exc[0][1]}):')
        print(harness_exc[0][2])
        if rc == 0:
            print('HARNESS-ERROR (exit 2: this is not a verdict about the property)')
            rc = 2
    return rc
