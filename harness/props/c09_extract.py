"""Tables of src/ndn/encoding/name/{Component,Name}.py and src/ndn/encoding/tlv_var.py -> lean/NdnGen/C09.lean
(used by c09.py).  Constants are the live values of the imported modules (the repo copy under test), shapes are read
from the ast; a shape that is not recognised is emitted as `unknown` / `false`, so that the pinned theorem fails
instead of a value being guessed.  The generated file imports nothing: lean/NdnModel/Name.lean consumes the
character set and the two shorthand tables from it."""
import ast, os, re, sys


def _q(s):
    return '"' + s.replace('\\', '\\\\').replace('"', '\\"') + '"'


def _chars(s):
    return f'{_q(s)}.toList'


def _fn(tree, name):
    for n in tree.body:
        if isinstance(n, (ast.FunctionDef, ast.AsyncFunctionDef)) and n.name == name:
            return n
    return None


def _fstr(node):
    """an f-string as a template: constants kept, every substitution as {:spec} (variable names dropped)"""
    if isinstance(node, ast.Constant) and isinstance(node.value, str):
        return node.value
    if not isinstance(node, ast.JoinedStr):
        return None
    out = ''
    for v in node.values:
        if isinstance(v, ast.Constant):
            out += str(v.value)
        elif isinstance(v, ast.FormattedValue):
            spec = _fstr(v.format_spec) if v.format_spec is not None else ''
            out += '{:' + (spec or '') + '}'
        else:
            return None
    return out


def _pct_templates(fn):
    """the f-string templates that start with '%' inside a function, without repetition, in source order"""
    out = []
    if fn is None:
        return ['unknown']
    for n in ast.walk(fn):
        if isinstance(n, ast.JoinedStr):
            t = _fstr(n)
            if t is not None and t.startswith('%') and t not in out:
                out.append(t)
    return out or ['unknown']


def _keep_excluded(fn):
    """`ret in CHARSET and ret not in {'%', '='}` -> sorted code points of the excluded set; None if absent"""
    if fn is None:
        return None
    found = None
    for n in ast.walk(fn):
        if isinstance(n, ast.BoolOp) and isinstance(n.op, ast.And) and len(n.values) == 2:
            a, b = n.values
            if not (isinstance(a, ast.Compare) and len(a.ops) == 1 and isinstance(a.ops[0], ast.In)
                    and isinstance(a.comparators[0], ast.Name) and a.comparators[0].id == 'CHARSET'):
                continue
            if not (isinstance(b, ast.Compare) and len(b.ops) == 1 and isinstance(b.ops[0], ast.NotIn)
                    and isinstance(b.comparators[0], (ast.Set, ast.Tuple, ast.List))):
                continue
            els = b.comparators[0].elts
            if not all(isinstance(e, ast.Constant) and isinstance(e.value, str) and len(e.value) == 1 for e in els):
                continue
            if found is not None:
                return None
            found = sorted(ord(e.value) for e in els)
    return found


def _charset_tests(fn):
    """every test (of an `if`, a conditional expression or a comprehension) of a function that mentions CHARSET, as
    normalised text with the tested variable written `_`, in source order"""
    out = []
    if fn is None:
        return ['unknown']
    tests = []
    for n in ast.walk(fn):
        if isinstance(n, (ast.If, ast.IfExp, ast.While)):
            tests.append(n.test)
        elif isinstance(n, ast.comprehension):
            tests.extend(n.ifs)
    tests.sort(key=lambda t: (t.lineno, t.col_offset))
    for t in tests:
        var = None
        for x in ast.walk(t):
            if (isinstance(x, ast.Compare) and len(x.ops) == 1 and isinstance(x.comparators[0], ast.Name)
                    and x.comparators[0].id == 'CHARSET' and isinstance(x.left, ast.Name)):
                var = x.left.id
        if var is None:
            if any(isinstance(x, ast.Name) and x.id == 'CHARSET' for x in ast.walk(t)):
                out.append('unknown: ' + ast.unparse(t))
            continue
        out.append(re.sub(r'\b' + re.escape(var) + r'\b', '_', ast.unparse(t)))
    return out


def _digest_branches_to_str(fn, consts):
    """to_str: `if typ == TYPE_X: return f"<prefix>{component[offset:].hex()}"` -> [(type value, prefix, 'hex')]"""
    out = []
    if fn is None:
        return out
    for n in ast.walk(fn):
        if not isinstance(n, ast.If):
            continue
        t = n.test
        if not (isinstance(t, ast.Compare) and len(t.ops) == 1 and isinstance(t.ops[0], ast.Eq)
                and isinstance(t.left, ast.Name) and t.left.id == 'typ'
                and isinstance(t.comparators[0], ast.Name) and t.comparators[0].id in consts):
            continue
        if len(n.body) != 1 or not isinstance(n.body[0], ast.Return) or not isinstance(n.body[0].value, ast.JoinedStr):
            continue
        js = n.body[0].value
        if len(js.values) != 2 or not isinstance(js.values[0], ast.Constant) or not isinstance(js.values[1], ast.FormattedValue):
            out.append((consts[t.comparators[0].id], 'unknown', 'unknown'))
            continue
        fv = js.values[1]
        how = 'unknown'
        if (fv.format_spec is None and isinstance(fv.value, ast.Call) and isinstance(fv.value.func, ast.Attribute)
                and not fv.value.args):
            how = fv.value.func.attr           # 'hex' = bytes.hex(): lower case
        out.append((consts[t.comparators[0].id], js.values[0].value, how))
    return out


def _digest_branches_from_str(fn, consts):
    """from_str: `typ_str == '<word>'` -> `from_bytes(bytearray.fromhex(...), TYPE_X)` -> [(word, type value)]"""
    out = []
    if fn is None:
        return out
    for n in ast.walk(fn):
        if not isinstance(n, ast.If):
            continue
        t = n.test
        if not (isinstance(t, ast.Compare) and len(t.ops) == 1 and isinstance(t.ops[0], ast.Eq)
                and isinstance(t.left, ast.Name) and t.left.id == 'typ_str'
                and isinstance(t.comparators[0], ast.Constant) and isinstance(t.comparators[0].value, str)):
            continue
        typ = None
        if len(n.body) == 1 and isinstance(n.body[0], ast.Return) and isinstance(n.body[0].value, ast.Call):
            c = n.body[0].value
            if (isinstance(c.func, ast.Name) and c.func.id == 'from_bytes' and len(c.args) == 2
                    and isinstance(c.args[1], ast.Name) and c.args[1].id in consts
                    and 'fromhex' in ast.dump(c.args[0])):
                typ = consts[c.args[1].id]
        out.append((t.comparators[0].value, typ))
    return out


def _number_guard(fn):
    """to_str: the branch that prints the shorthand of a typed number.
    `typ in ALTERNATE_URI_TYPE`                              -> 'none'
    `typ in ALTERNATE_URI_TYPE and <len> in (1, 2, 4, 8)`    -> 'some [1, 2, 4, 8]'
    anything else                                            -> 'unknown'"""
    if fn is None:
        return 'unknown'
    hits = []
    for n in ast.walk(fn):
        if isinstance(n, ast.If) and 'ALTERNATE_URI_TYPE' in ast.dump(n.test):
            hits.append(n.test)
    if len(hits) != 1:
        return 'unknown'
    t = hits[0]

    def is_member(x):
        return (isinstance(x, ast.Compare) and len(x.ops) == 1 and isinstance(x.ops[0], ast.In)
                and isinstance(x.left, ast.Name) and x.left.id == 'typ'
                and isinstance(x.comparators[0], ast.Name) and x.comparators[0].id == 'ALTERNATE_URI_TYPE')
    if is_member(t):
        return 'none'
    if isinstance(t, ast.BoolOp) and isinstance(t.op, ast.And) and len(t.values) == 2:
        a, b = t.values
        if is_member(b):
            a, b = b, a
        if (is_member(a) and isinstance(b, ast.Compare) and len(b.ops) == 1 and isinstance(b.ops[0], ast.In)
                and isinstance(b.comparators[0], (ast.Tuple, ast.Set, ast.List, ast.Constant))):
            c = b.comparators[0]
            try:
                vals = sorted(int(x) for x in ast.literal_eval(c))
            except Exception:
                return 'unknown'
            left = ast.unparse(b.left)
            if left in ('length', 'len(component) - offset', 'len(component[offset:])'):
                return 'some [' + ', '.join(str(v) for v in vals) + ']'
    return 'unknown'


def _bytes_literals(fn):
    """all bytes literals in a function (decimal byte lists), in source order, without repetition"""
    out = []
    if fn is None:
        return out
    for n in ast.walk(fn):
        if isinstance(n, ast.Constant) and isinstance(n.value, bytes) and list(n.value) not in out:
            out.append(list(n.value))
    return out


def _int_consts(fn):
    s = set()
    if fn is not None:
        for n in ast.walk(fn):
            if isinstance(n, ast.Constant) and isinstance(n.value, int) and not isinstance(n.value, bool):
                s.add(n.value)
    return s


def _ladder(fn_ast, f, top):
    """A step function `f` on 0..top whose steps are at the integer constants of its source: [(c, f(c))] for the
    constants in increasing order plus the value above the last one; None when the probes contradict that shape."""
    cs = sorted({c + d for c in _int_consts(fn_ast) if 16 <= c < top for d in (-2, -1, 0, 1)})
    # keep only constants at which the function really steps
    steps = []
    try:
        for c in cs:
            if f(c) != f(c + 1):
                steps.append(c)
        if not steps:
            return None
        lad = [(c, f(c)) for c in steps]
        last = f(top)
        # between two steps the function must be constant on the probes we can afford
        lo = 0
        for c, v in lad:
            for p in (lo, (lo + c) // 2, c - 1 if c > lo else c, c):
                if f(p) != v:
                    return None
            lo = c + 1
        for p in (lo, (lo + top) // 2, top):
            if f(p) != last:
                return None
        return lad, last
    except Exception:
        return None


def _lean_ladder(name, doc, lad):
    if lad is None:
        return [f'/-- {doc} (NOT RECOGNISED) -/', f'def {name} : List (Nat × Nat) × Nat := ([], 0)',
                f'def {name}Recognised : Bool := false']
    steps, last = lad
    return [f'/-- {doc} -/',
            f'def {name} : List (Nat × Nat) × Nat := ([' + ', '.join(f'({c}, {v})' for c, v in steps) + f'], {last})',
            f'def {name}Recognised : Bool := true']


def generate(repo):
    from ndn.encoding.name import Component, Name
    from ndn.encoding import tlv_var
    base = os.path.join(repo, 'src', 'ndn', 'encoding')
    ctree = ast.parse(open(os.path.join(base, 'name', 'Component.py')).read())
    ntree = ast.parse(open(os.path.join(base, 'name', 'Name.py')).read())
    vtree = ast.parse(open(os.path.join(base, 'tlv_var.py')).read())
    out = ['/- GENERATED by harness/props/c09_extract.py from src/ndn/encoding/name/Component.py, Name.py and '
           'src/ndn/encoding/tlv_var.py (live constants of the imported modules + ast). Do not edit. -/',
           'namespace Ndn.Gen.C09', '']

    # ---- CHARSET
    cs = getattr(Component, 'CHARSET', None)
    ok = isinstance(cs, (set, frozenset)) and all(isinstance(c, str) and len(c) == 1 for c in cs)
    codes = sorted(ord(c) for c in cs) if ok else []
    shown = ''.join(chr(c) for c in codes if 33 <= c < 127)
    out += [f'/-- code points of `Component.CHARSET`, increasing: `{shown}` -/',
            'def charset : List Nat := [' + ', '.join(str(c) for c in codes) + ']',
            f"def charsetRecognised : Bool := {'true' if ok else 'false'}", '']

    # ---- type constants
    consts = {k: v for k, v in vars(Component).items() if k.startswith('TYPE_') and isinstance(v, int)}
    out += ['/-- the `TYPE_*` constants of Component.py, in the order they are assigned -/',
            'def typeConsts : List (String × Nat) := [' + ', '.join(f'({_q(k)}, {v})' for k, v in consts.items()) + ']',
            f"def maxComponentTypeValue : Nat := {int(getattr(Component, 'MAX_COMPONENT_TYPE_VALUE', 0))}",
            f"/-- `Name.TYPE_NAME` -/", f"def typeName : Nat := {int(getattr(Name, 'TYPE_NAME', 0))}", '']

    # ---- shorthand tables
    aut = getattr(Component, 'ALTERNATE_URI_TYPE', {})
    fmt_ok = isinstance(aut, dict) and all(isinstance(k, int) and isinstance(v, str) and re.fullmatch(r'[A-Za-z0-9.~_-]+=\{\}', v)
                                            for k, v in aut.items())
    rows = [(k, v[:-3]) for k, v in aut.items()] if fmt_ok else []
    out += ['/-- `ALTERNATE_URI_TYPE` in dictionary order: type -> the word `w` of its format string `w={}` -/',
            'def altUriType : List (Nat × List Char) := [' + ', '.join(f'({k}, {_chars(w)})' for k, w in rows) + ']',
            f"/-- every format string of `ALTERNATE_URI_TYPE` is `<word>={{}}` -/",
            f"def altUriFormatOk : Bool := {'true' if fmt_ok else 'false'}"]
    aus = getattr(Component, 'ALTERNATE_URI_STR', {})
    s_ok = isinstance(aus, dict) and all(isinstance(k, str) and isinstance(v, int) for k, v in aus.items())
    out += ['/-- `ALTERNATE_URI_STR` in dictionary order: word -> type -/',
            'def altUriStr : List (List Char × Nat) := [' + (', '.join(f'({_chars(k)}, {v})' for k, v in aus.items()) if s_ok else '') + ']',
            f"def altUriStrRecognised : Bool := {'true' if s_ok else 'false'}", '']

    # ---- from_str / to_str special branches
    f_from, f_to, f_can, f_esc = (_fn(ctree, n) for n in ('from_str', 'to_str', 'to_canonical_uri', 'escape_str'))
    fd = _digest_branches_from_str(f_from, consts)
    out += ["/-- `from_str`: `typ_str == '<word>'` -> `from_bytes(bytearray.fromhex(rest), <type>)` (0 = not that shape) -/",
            'def fromStrDigest : List (List Char × Nat) := [' + ', '.join(f'({_chars(w)}, {t if t is not None else 0})' for w, t in fd) + ']']
    td = _digest_branches_to_str(f_to, consts)
    out += ['/-- `to_str`: `typ == <type>` -> prefix + how the value is printed (`hex` = `bytes.hex()`, lower case) -/',
            'def toStrDigest : List (Nat × List Char × String) := [' + ', '.join(f'({t}, {_chars(p)}, {_q(h)})' for t, p, h in td) + ']',
            '/-- `to_str`: the guard of the typed-number shorthand besides `typ in ALTERNATE_URI_TYPE`: the admitted value '
            'lengths (`none` = no guard) -/']
    g = _number_guard(f_to)
    if g == 'unknown':
        out += ['def toStrNumberWidths : Option (List Nat) := some []', 'def toStrNumberGuardRecognised : Bool := false']
    else:
        out += [f'def toStrNumberWidths : Option (List Nat) := {g}', 'def toStrNumberGuardRecognised : Bool := true']
    out.append('')

    # ---- escaping
    for nm, fn in (('toStr', f_to), ('canon', f_can)):
        ke = _keep_excluded(fn)
        out += [f"/-- `{'to_str' if nm == 'toStr' else 'to_canonical_uri'}`.decode: `ret in CHARSET and ret not in {{…}}` - code points of the excluded set -/",
                f'def {nm}KeepExcluded : List Nat := [' + (', '.join(str(c) for c in ke) if ke is not None else '') + ']',
                f"def {nm}KeepRecognised : Bool := {'true' if ke is not None else 'false'}",
                f'/-- the `%…` f-string templates of the function (substitutions as `{{:spec}}`) -/',
                f'def {nm}PctTemplates : List String := [' + ', '.join(_q(t) for t in _pct_templates(fn)) + ']']
    out += ['/-- `escape_str`: its tests that mention CHARSET (tested variable written `_`), and its `%…` templates -/',
            'def escapeStrCharsetTests : List String := [' + ', '.join(_q(t) for t in _charset_tests(f_esc)) + ']',
            'def escapeStrPctTemplates : List String := [' + ', '.join(_q(t) for t in _pct_templates(f_esc)) + ']',
            '/-- `from_str`: its tests that mention CHARSET -/',
            'def fromStrCharsetTests : List String := [' + ', '.join(_q(t) for t in _charset_tests(f_from)) + ']', '']

    # ---- literals
    out += ['/-- bytes literals of `Component.from_str` (the empty generic component) and of `Name.to_str` / '
            '`Name.to_canonical_uri` (the component after which a `/` is appended) -/',
            'def fromStrBytesLiterals : List (List Nat) := ' + repr(_bytes_literals(f_from)),
            'def nameToStrBytesLiterals : List (List Nat) := ' + repr(_bytes_literals(_fn(ntree, 'to_str'))),
            'def nameToCanonBytesLiterals : List (List Nat) := ' + repr(_bytes_literals(_fn(ntree, 'to_canonical_uri'))), '']

    # ---- live probes of the range checks
    def accepts(f, *a):
        try:
            f(*a)
            return True
        except ValueError:
            return False
    mx = int(getattr(Component, 'MAX_COMPONENT_TYPE_VALUE', 0))
    pts = sorted({0, 1, 2, 8, mx - 1, mx, mx + 1, 2 * mx + 1})
    out += ['/-- `Component.from_bytes(b"", typ)` accepted? (live, at the boundaries of the range check) -/',
            'def fromBytesTypeProbes : List (Nat × Bool) := [' + ', '.join(
                f"({p}, {'true' if accepts(Component.from_bytes, b'', p) else 'false'})" for p in pts) + ']',
            "/-- `Component.from_str('<typ>=a')` accepted? (live) -/",
            'def fromStrTypeProbes : List (Nat × Bool) := [' + ', '.join(
                f"({p}, {'true' if accepts(Component.from_str, f'{p}=a') else 'false'})" for p in pts) + ']', '']

    # ---- tlv_var ladders (live values at the constants of the source)
    top = 2 ** 64 - 1
    out += _lean_ladder('tlNumSize', '`get_tl_num_size`: ([(largest value, size)], size above) ',
                        _ladder(_fn(vtree, 'get_tl_num_size'), tlv_var.get_tl_num_size, top))

    def wr(v):
        buf = bytearray(9)
        n = tlv_var.write_tl_num(v, buf, 0)
        return n * 256 + (buf[0] if n > 1 else 0)       # size and marker byte (0 for the one-byte form)
    out += _lean_ladder('writeTlNum', '`write_tl_num`: ([(largest value, size*256 + marker byte)], same above); marker 0 = one-byte form',
                        _ladder(_fn(vtree, 'write_tl_num'), wr, top))
    out += _lean_ladder('packUint', '`pack_uint_bytes` (the width rule of `from_number`): ([(largest value, number of bytes)], bytes above)',
                        _ladder(_fn(vtree, 'pack_uint_bytes'), lambda v: len(tlv_var.pack_uint_bytes(v)), top))

    def pr(b):
        v, n = tlv_var.parse_tl_num(bytes([b]) + bytes(range(1, 9)), 0)
        return n
    try:
        rows = [(b, pr(b)) for b in range(256)]
        steps = [(b, n) for (b, n), (_, n2) in zip(rows, rows[1:]) if n != n2]
        out += ['/-- `parse_tl_num`: size consumed by first byte: ([(largest first byte, size)], size for 255) (live, all 256 first bytes) -/',
                'def parseTlNum : List (Nat × Nat) × Nat := ([' + ', '.join(f'({b}, {n})' for b, n in steps) + f'], {rows[-1][1]})',
                'def parseTlNumRecognised : Bool := true']
        big = [tlv_var.parse_tl_num(bytes([b]) + bytes(range(1, 9)), 0)[0] for b in (253, 254, 255)]
        out += ['/-- values `parse_tl_num` reads from `fd|fe|ff 01 02 03 04 05 06 07 08` (byte order) -/',
                'def parseTlNumBig : List Nat := [' + ', '.join(str(x) for x in big) + ']']
    except Exception:
        out += ['def parseTlNum : List (Nat × Nat) × Nat := ([], 0)', 'def parseTlNumRecognised : Bool := false',
                'def parseTlNumBig : List Nat := []']
    out.append('')

    # ---- the interpreter's limit on int(str)
    lim = sys.get_int_max_str_digits() if hasattr(sys, 'get_int_max_str_digits') else 0
    out += ['/-- `sys.get_int_max_str_digits()` of the interpreter the library runs on (not in the source) -/',
            f'def intMaxStrDigits : Nat := {lim}', '', 'end Ndn.Gen.C09', '']
    return '\n'.join(out)
