"""C02 — signatures and parameter digests cover the specified bytes; tampering is detected."""
import asyncio
import hashlib
import pktcommon as PK
import tlvschema as T
import strict_tlv as S

PROP = 'C02'
DRIVER = 'C01'        # the packet model driver is shared with C01
TITLE = 'Signatures and parameter digests cover the specified bytes; tampering detected'
LEAN_TARGETS = ['NdnProofs.Props.C02', 'NdnGen.C01']
THEOREMS = [
    'Ndn.C02.sign_input_is_signed_portion_data', 'Ndn.C02.sign_input_is_signed_portion_interest',
    'Ndn.C02.digest_covers_params_to_end', 'Ndn.C02.covered_end_is_sigvalue_offset',
    'Ndn.C02.parsed_cover_is_signed_portion_data', 'Ndn.C02.parsed_cover_is_signed_portion_interest',
    'Ndn.C02.own_interest_passes_digest_check', 'Ndn.C02.own_interest_verifies',
    'Ndn.C02.parsed_digest_cover_params_interest', 'Ndn.C02.tamper_rejected', 'Ndn.C02.verify_own',
    'Ndn.C02.params_digest_iff', 'Ndn.Packet.interest_items', 'Ndn.Gen.C01.schemas_match',
]
PARTIAL = {}
TRUSTED = [
    'C02: the signature scheme is ideal - `correct` (verify accepts what sign produced) and `unforgeable` (verify accepts only what sign produced) are HYPOTHESES of verify_own / tamper_rejected, never axioms; real cryptography (pycryptodomex) is exercised by the correspondence only',
    'C02: SHA-256 is an opaque function in the theorems (params_digest_iff holds for every function H)',
]
RULE = ('signed Data / Interest packets as in C01 with every shipped signer and its matching verifier; per packet: the bytes '
        'given to the signer, the ranges parse_* reports and the signed portion computed by an independent strict reader '
        'are compared, the verifier must accept, and then 10 (quick) / 24 (thorough) tampered copies are parsed and '
        'verified: single-byte substitutions at sampled positions, truncations, and TLV-level edits (element dropped, '
        'duplicated, swapped, unknown element inserted, length edited), plus 6 (quick) / 13 (thorough) edits aimed at the '
        'Name (component inserted - also right behind / before the digest component -, deleted, split, digest component '
        'moved), SignatureInfo / KeyLocator (SignatureType changed to another real type, unknown element inserted, KeyLocator '
        'name extended), and the signature elements (second SignatureInfo / SignatureValue, signature value truncated to a '
        'prefix / emptied / extended, element appended after it). Acceptance is judged for verify_* and for the shipped '
        'known-key checker classes (from_key). A tampered copy whose signed portion or signature '
        'value differs must be rejected; params_sha256_checker must agree with SHA-256 of ApplicationParameters..end. '
        'non-trivial = packet signed and at least one tampered copy still parses; distinct = distinct generator inputs')
LEVEL_TEXT = ('Lean 4 theorems about the packet model: the bytes handed to the signer are exactly the specified signed portion of '
              'the FINAL wire (Data: Name..SignatureInfo; Interest: name components except the digest, then ApplicationParameters '
              'up to the signature value), also after the reserved signature space was shrunk; the digest covers '
              'ApplicationParameters to the end of the shrunk value; the ranges parse_data / parse_interest report for a made '
              'packet are exactly those portions (Interest: sig-covered parts concatenate to the signer input, signature value = '
              'what the signer wrote, digest-covered range = ApplicationParameters..end, digest value = H of it, so '
              'params_sha256_checker accepts; also for unsigned Interests with ApplicationParameters); '
              'under the ideal-signature hypotheses the matching verifier accepts the packet and rejects every parsed packet '
              'whose portion or signature value differs; the digest check holds iff component = H(portion). Real signers and '
              'verifiers are exercised by the correspondence: recorded signer input = parser ranges = independent strict reading, '
              'and tampered copies are rejected.')
LEVEL_NOTE = ('Cryptography is an ideal-scheme hypothesis. The parser-range theorems are proved for signed Data and for Interests '
              'to which make_interest appends the digest component; for Interests whose name already carries a caller-supplied '
              'digest component the reported ranges are compared on every generated packet (model, code and strict reader).')
TECHNIQUE = 'Lean 4 proof (byte-range algebra over the shrink theorem; ideal-signature hypotheses) + differential and tamper testing'
DESIGN_REF = 'DESIGN.md section 7, C02'


# ------------------------------------------------------------------------------------- cases
def cases(rng, tier):
    n = 200 if tier == 'quick' else 2500
    k = 10 if tier == 'quick' else 24
    for _ in range(n):
        c = PK.gen_data_case(rng, tier) if rng.random() < 0.5 else PK.gen_interest_case(rng, tier)
        if c['signer'][0] == 'none' and rng.random() < 0.8:
            c['signer'] = rng.choice([['digest', 1], ['hmac'], ['ec256'], ['ed25519']])
        # keep packets moderate (a few hundred bytes, at most ~2 kB): every tampered copy is parsed, verified and its
        # observation kept until the end of the run, so a 64 kB name would cost tens of MB per case
        for key in ('content', 'app'):
            if c.get(key) and c[key] > 1500:
                c[key] = c[key] % 600
        _cap_names(c)
        c['tamper'] = [[rng.choice(['subst', 'subst', 'subst', 'trunc', 'dup', 'del', 'swap', 'ins', 'len', 'digestcut', 'widen']),
                        rng.getrandbits(30), rng.getrandbits(8)] for _ in range(k)]
        # TLV-level edits aimed at the Name, SignatureInfo / KeyLocator and the signature elements
        c['tamper'] += [[rng.choice(TARGETED), rng.getrandbits(30), rng.getrandbits(8)] for _ in range(k // 2 + 1)]
        yield c


def _cap_list(comps, limit=700):
    """drop the components that make a name longer than `limit` bytes (the 65536 boundaries belong to C01)"""
    if sum(len(x) for x in comps) // 2 <= limit:
        return comps
    return [x for x in comps if len(x) // 2 <= 300][:8]


def _cap_names(c):
    c['name'] = _cap_list(c['name'])
    if c.get('key_name') is not None:
        c['key_name'] = _cap_list(c['key_name'])
    if c['pkt'] == 'interest':
        fh = [_cap_list(n, 400) for n in c['param']['forwarding_hint']][:6]
        c['param'] = dict(c['param'], forwarding_hint=fh)
    sg = c['signer']
    if sg[0] == 'custom' and sg[3].get('kl') and sg[3]['kl'][0] == 'name':
        sg[3]['kl'][1] = _cap_list(sg[3]['kl'][1])


TARGETED = ['comp_ins', 'comp_ins', 'digest_move', 'comp_split', 'comp_del', 'sigtype', 'sig2', 'si_ins', 'kl_comp', 'tail', 'sigval', 'sigval']


def _kids(wire, vs, ve):
    out, off = [], vs
    while off < ve:
        t, a, b = S.read_elem(wire, off, ve)
        out.append((t, off, a, b))
        off = b
    return out


def _descend(wire, types):
    """the element reached from the packet's outer element through the first child of each given Type, or None"""
    t, vs, ve = S.read_elem(wire, 0, len(wire))
    node = (t, 0, vs, ve)
    for want in types:
        nxt = [k for k in _kids(wire, node[2], node[3]) if k[0] == want]
        if not nxt:
            return None
        node = nxt[0]
    return node


def _targeted(wire, kind, r, b, is_data):
    """returns (element to replace as (off, end), its new bytes) or None"""
    si_t, sv_t = (0x16, 0x17) if is_data else (0x2c, 0x2e)
    if kind in ('comp_ins', 'digest_move', 'comp_split', 'comp_del'):
        nm = _descend(wire, [7])
        if nm is None:
            return None
        comps = [bytes(wire[k[1]:k[3]]) for k in _kids(wire, nm[2], nm[3])]
        dpos = [i for i, c in enumerate(comps) if c[:1] == b'\x02']
        if kind == 'comp_ins':
            new = T.tl(8) + T.tl(1 + b % 2) + bytes([0x61 + b % 26] * (1 + b % 2))
            i = dpos[-1] + 1 if (dpos and r % 3 == 0) else dpos[0] if (dpos and r % 3 == 1) else r % (len(comps) + 1)
            comps = comps[:i] + [new] + comps[i:]
        elif kind == 'digest_move':
            if not dpos or len(comps) < 2:
                return None
            d = comps.pop(dpos[0])
            i = r % (len(comps) + 1)
            if i == dpos[0]:
                i = (i + 1) % (len(comps) + 1)
            comps.insert(i, d)
        elif kind == 'comp_del':
            cand = [i for i in range(len(comps)) if i not in dpos]
            if not cand:
                return None
            comps.pop(cand[r % len(cand)])
        else:
            cand = []
            for i, c in enumerate(comps):
                ct, cvs, cve = S.read_elem(c, 0, len(c))
                if cve - cvs >= 2 and i not in dpos:
                    cand.append((i, ct, c[cvs:cve]))
            if not cand:
                return None
            i, ct, v = cand[r % len(cand)]
            k = 1 + b % (len(v) - 1)
            comps[i:i + 1] = [T.tl(ct) + T.tl(k) + v[:k], T.tl(ct) + T.tl(len(v) - k) + v[k:]]
        body = b''.join(comps)
        return (nm[1], nm[3]), T.tl(7) + T.tl(len(body)) + body
    if kind == 'sigtype':
        st = _descend(wire, [si_t, 0x1b])
        if st is None or st[3] - st[2] != 1:
            return None
        others = [x for x in (0, 1, 3, 4, 5, 200) if x != wire[st[2]]]
        return (st[1], st[3]), bytes(wire[st[1]:st[2]]) + bytes([others[r % len(others)]])
    if kind == 'sig2':
        n = _descend(wire, [sv_t if r % 2 == 0 else si_t])
        if n is None:
            return None
        el = bytes(wire[n[1]:n[3]])
        if r % 4 == 0 and n[3] - n[2] > 0:
            # the second signature element differs from the first one
            el2 = el[:-1] + bytes([el[-1] ^ 0x01])
            return (n[1], n[3]), (el + el2 if b % 2 else el2 + el)
        return (n[1], n[3]), el + el
    if kind == 'sigval':
        n = _descend(wire, [sv_t])
        if n is None:
            return None
        v = bytes(wire[n[2]:n[3]])
        v2 = [v[:-1], v[:len(v) // 2], v[:1], b'', v + b'\x00', v[1:] + v[:1], bytes(len(v)), v[:-1]][r % 8]
        if v2 == v:
            return None
        return (n[1], n[3]), T.tl(sv_t) + T.tl(len(v2)) + v2
    if kind in ('si_ins', 'kl_comp'):
        path = [si_t] if (kind == 'si_ins' and r % 2 == 0) else [si_t, 0x1c] if kind == 'si_ins' else [si_t, 0x1c, 7]
        n = _descend(wire, path)
        if n is None:
            return None
        kids = _kids(wire, n[2], n[3])
        if kind == 'kl_comp':
            extra = T.tl(8) + T.tl(1) + bytes([0x41 + b % 26])
        else:
            pl = bytes([b] * (r % 3))
            extra = T.tl([0xf0, 0xfe, 0x300][b % 3]) + T.tl(len(pl)) + pl
        i = (r // 7) % (len(kids) + 1)
        cut = kids[i][1] if i < len(kids) else n[3]
        body = bytes(wire[n[2]:cut]) + extra + bytes(wire[cut:n[3]])
        return (n[1], n[3]), bytes(wire[n[1]:n[2]])[:len(T.tl(n[0]))] + T.tl(len(body)) + body
    if kind == 'tail':
        n = _descend(wire, [sv_t])
        if n is None:
            return None
        pl = bytes([b] * (r % 4))
        return (n[1], n[3]), bytes(wire[n[1]:n[3]]) + T.tl([0xf0, 0xfc, 0x320][b % 3]) + T.tl(len(pl)) + pl
    return None


def shrink(case):
    t = case['tamper']
    for i in range(len(t)):
        yield dict(case, tamper=t[:i] + t[i + 1:])
    for key in ('content', 'app'):
        if case.get(key):
            yield dict(case, **{key: case[key] // 2})
    if case['name']:
        yield dict(case, name=case['name'][:-1])
    for k in ('name_form', 'fh_form', 'key_name', 'payload_form', 'key_form', 'obj_form', 'pre', 'parse_form'):
        if case.get(k) is not None:
            yield {a: b for a, b in case.items() if a != k}


def _apply_tamper(wire, t):
    import random
    from props import c07
    kind, r, b = t
    rng = random.Random(r)
    if not wire:
        return wire
    if kind == 'subst':
        i = r % len(wire)
        nb = b if b != wire[i] else (b + 1) % 256
        return wire[:i] + bytes([nb]) + wire[i + 1:]
    if kind == 'trunc':
        return wire[:r % len(wire)]
    if kind in TARGETED:
        try:
            ed = _targeted(wire, kind, r, b, wire[:1] == b'\x06')
            if ed is None:
                return wire
            return c07._rebuild(wire, c07._tree(wire, 0, len(wire)), ed[0], ed[1])
        except Exception:     # noqa
            return wire
    nodes = c07._nodes(c07._tree(wire, 0, len(wire)), [])
    if not nodes:
        return wire
    if kind == 'digestcut':
        # shorten a ParametersSha256Digest component (02 20 <32 bytes>) to a proper prefix, keeping all lengths consistent
        cand = [m for m, _, _ in nodes if wire[m[0]:m[0] + 2] == b'\x02\x20' and m[2] - m[1] == 32]
        if not cand:
            return wire
        m = cand[r % len(cand)]
        k = b % 32
        try:
            return c07._rebuild(wire, c07._tree(wire, 0, len(wire)), (m[0], m[2]), b'\x02' + bytes([k]) + wire[m[1]:m[1] + k])
        except Exception:     # noqa
            return wire
    n, sibs, i = nodes[r % len(nodes)]
    off, vs, ve = n[0], n[1], n[2]
    el = wire[off:ve]
    tree = c07._tree(wire, 0, len(wire))
    try:
        if kind == 'dup':
            return c07._rebuild(wire, tree, (off, ve), el + el)
        if kind == 'del':
            return c07._rebuild(wire, tree, (off, ve), b'')
        if kind == 'swap' and i + 1 < len(sibs):
            nx = sibs[i + 1]
            return c07._rebuild(wire, tree, (off, nx[2]), wire[nx[0]:nx[2]] + el)
        if kind == 'ins':
            t2 = rng.choice([0xf0, 0xfe, 0x300, 0x3e8])
            pl = bytes(rng.getrandbits(8) for _ in range(rng.choice([0, 1, 4])))
            return c07._rebuild(wire, tree, (off, ve), T.tl(t2) + T.tl(len(pl)) + pl + el)
        if kind == 'len':
            p = vs - 1
            return wire[:p] + bytes([(wire[p] + 1 + b % 3) % 256]) + wire[p + 1:]
        if kind == 'widen':
            # the same element with its Length (b odd: its Type) written in a longer form than necessary
            t0, _, _ = S.read_elem(wire, off, ve)
            w = [2, 4, 8][b % 3]
            lead = {2: b'\xfd', 4: b'\xfe', 8: b'\xff'}[w]
            if b % 8 == 7:
                hdr = lead + t0.to_bytes(w, 'big') + T.tl(ve - vs)
            else:
                hdr = T.tl(t0) + lead + (ve - vs).to_bytes(w, 'big')
            return c07._rebuild(wire, tree, (off, ve), hdr + wire[vs:ve])
    except Exception:     # noqa
        return wire
    return wire


# ------------------------------------------------------------------------------------- specified portions
def spec_portions(kind, wire):
    """independent strict reading: (signed portion, signature value, digest portion, digest component value) or None"""
    try:
        t, vs, ve = S.read_elem(wire, 0, len(wire))
        if ve != len(wire) or t != (6 if kind == 'data' else 5):
            return None
        els, off = [], vs
        while off < ve:
            t2, a, b = S.read_elem(wire, off, ve)
            els.append((t2, off, a, b))
            off = b
    except S.Reject:
        return None
    if kind == 'data':
        name = [e for e in els if e[0] == 7]
        si = [e for e in els if e[0] == 0x16]
        sv = [e for e in els if e[0] == 0x17]
        if not name or not si or not sv:
            return (None, None, None, None)
        return (wire[name[0][1]:si[0][3]], wire[sv[0][2]:sv[0][3]], None, None)
    name = [e for e in els if e[0] == 7]
    if not name:
        return (None, None, None, None)
    comps, p = [], name[0][2]
    try:
        while p < name[0][3]:
            ct, cvs, cve = S.read_elem(wire, p, name[0][3])
            comps.append((ct, wire[p:cve], wire[cvs:cve]))
            p = cve
    except S.Reject:
        return None
    ap = [e for e in els if e[0] == 0x24]
    sv = [e for e in els if e[0] == 0x2e]
    dig = [c for c in comps if c[0] == 2]
    # ApplicationParameters counts only where a strict reading of the Interest recognises it (in order)
    from ndn.encoding import ndn_format_0_3 as f
    fs = T.class_schema(f.InterestPacketValue)
    try:
        vals = S.strict_packet(fs, wire, 5, False, True)
    except S.Reject:
        return None
    if ap and vals[16] is None:
        return 'ambiguous'
    digest_portion = wire[ap[0][1]:ve] if ap else None
    signed = None
    if ap and sv:
        signed = b''.join(c[1] for c in comps if c[0] != 2) + wire[ap[0][1]:sv[0][1]]
    return (signed, wire[sv[0][2]:sv[0][3]] if sv else None, digest_portion, dig[-1][2] if dig else None)


# ------------------------------------------------------------------------------------- verification
def _verify(case, parsed_sp_wire):
    """run the matching shipped verifier on a wire, twice on the same SignaturePtrs; returns True/False/None (no
    verifier), 'exc:<cls>', or 'unstable' when the two verdicts differ"""
    from ndn import encoding as enc
    from ndn.security import validator as v
    k = case['signer'][0]
    try:
        arg = PK.as_form(parsed_sp_wire, case.get('parse_form'))
        if case['pkt'] == 'data':
            name, _, _, sp = enc.parse_data(arg)
        else:
            name, _, _, sp = enc.parse_interest(arg)
    except Exception as e:     # noqa
        return 'unparsable'

    def once():
        if k == 'digest':
            # sha256_digest_checker only judges packets whose SignatureInfo says DigestSha256 (it lets every
            # other packet through for the next checker of a union): its verdict counts only for those
            if sp.signature_info is None or sp.signature_info.signature_type != 0:
                return None
            return bool(_drive(v.sha256_digest_checker(name, sp)))
        if k == 'hmac':
            return bool(v.verify_hmac(PK.key_in_form(k, b'secret-key-0123', case.get('key_form')), sp))
        if k.startswith('ec'):
            return bool(v.verify_ecdsa(PK.keys()[k][1], sp))
        if k.startswith('rsa'):
            return bool(v.verify_rsa(PK.key(k)[1], sp))
        if k == 'ed25519':
            return bool(v.verify_ed25519(PK.keys()[k][1], sp))
        return None
    try:
        r1 = once()
        r2 = once()
    except Exception as e:     # noqa
        return 'exc:' + type(e).__name__
    return r1 if r1 == r2 else 'unstable'


DEFAULT_KEY_NAME = {'hmac': '/k/hmac', 'ec224': '/k/ec224', 'ec256': '/k/ec256', 'ec384': '/k/ec384', 'ec521': '/k/ec521', 'rsa2048': '/k/rsa',
                    'rsa4096': '/k/rsa', 'ed25519': '/k/ed'}


def _drive(coro):
    """run a coroutine that never really suspends (the shipped checkers do not await anything)"""
    try:
        coro.send(None)
    except StopIteration as e:
        return e.value
    coro.close()
    raise RuntimeError('checker suspended')


def _make_checkers(case):
    """ONE known-key validator object per case (HmacChecker / EccChecker / RsaChecker / Ed25519Checker .from_key for the
    key the packet was signed with), used for the made packet and then for every tampered copy, and the same checker
    behind union_checker(sha256_digest_checker, .) as an application would install it.  The public key is handed over
    as bytes / bytearray / memoryview.  Returns (checker, union) or 'exc:<cls>' or None (no such checker)"""
    from ndn.security import validator as v
    from ndn.security.validator import known_key_validator as kk
    k = case['signer'][0]
    if k not in DEFAULT_KEY_NAME or case.get('key_name') == []:
        return None           # (a checker built for the empty key name accepts nothing: degenerate, not judged)
    try:
        kn = case.get('key_name')
        key_name = DEFAULT_KEY_NAME[k] if kn is None else [bytes.fromhex(c) for c in kn]
        form = PK.BUF_FORMS[case['seed'] % 4] if case.get('key_form') else None
        if k == 'hmac':
            chk = kk.HmacChecker.from_key(key_name, PK.buf_in_form(b'secret-key-0123', form))
        elif k.startswith('ec'):
            chk = kk.EccChecker.from_key(key_name, PK.buf_in_form(PK.keys()[k][1].export_key(format='DER'), form))
        elif k.startswith('rsa'):
            chk = kk.RsaChecker.from_key(key_name, PK.buf_in_form(PK.key(k)[1].export_key('DER'), form))
        else:
            chk = kk.Ed25519Checker.from_key(key_name, PK.buf_in_form(PK.keys()[k][1].export_key(format='DER'), form))
        out = [chk, v.union_checker(v.sha256_digest_checker, chk), None]
    except Exception as e:     # noqa
        return 'exc:' + type(e).__name__
    if k != 'hmac':
        # the other constructor: from_cert, given a certificate of the signing key (self-signed here)
        try:
            from ndn.app_support import security_v2 as sv2
            ks = PK.key(k)
            pub = ks[1].export_key('DER') if k.startswith('rsa') else ks[1].export_key(format='DER')
            _, cert = sv2.self_sign(key_name, pub, PK.make_signer(case['signer'], key_name))
            cls = kk.EccChecker if k.startswith('ec') else kk.RsaChecker if k.startswith('rsa') else kk.Ed25519Checker
            out[2] = cls.from_cert(PK.buf_in_form(bytes(cert), form))
        except Exception as e:     # noqa
            out[2] = 'exc:' + type(e).__name__
    return out


def _verify_checker(case, wire, chks):
    """[verdict of the known-key checker, of the union, of the checker built from_cert]: True/False, None (no such
    checker), 'unparsable' or 'exc:<cls>'"""
    from ndn import encoding as enc
    if chks is None:
        return [None, None, None]
    if isinstance(chks, str):
        return [chks, chks, None]
    try:
        arg = PK.as_form(wire, case.get('parse_form'))
        if case['pkt'] == 'data':
            name, _, _, sp = enc.parse_data(arg)
        else:
            name, _, _, sp = enc.parse_interest(arg)
    except Exception:     # noqa
        return ['unparsable', 'unparsable', None if chks[2] is None else 'unparsable']
    out = []
    for c in chks:
        if c is None or isinstance(c, str):
            out.append(c)
            continue
        try:
            out.append(bool(_drive(c(name, sp))))
        except Exception as e:     # noqa
            out.append('exc:' + type(e).__name__)
    return out


def _digest_check(wire):
    from ndn import encoding as enc
    from ndn.security import validator as v
    try:
        name, _, _, sp = enc.parse_interest(wire)
    except Exception:     # noqa
        return 'unparsable'
    try:
        return bool(asyncio.run(v.params_sha256_checker(name, sp)))
    except Exception as e:     # noqa
        return 'exc:' + type(e).__name__


def run_impl(case):
    made = PK.make_packet(case)
    out = {'made': made, 'copies': []}
    if made['made'][0] != 'ok':
        return out
    wire = bytes.fromhex(made['made'][1])
    form = case.get('parse_form')
    out['parsed'] = PK.parse_packet(case['pkt'], wire, form)
    out['spec'] = _hexspec(spec_portions(case['pkt'], wire))
    out['verify'] = _verify(case, wire)
    chks = _make_checkers(case)
    out['verify2'], out['verify3'], out['verify4'] = _verify_checker(case, wire, chks)
    first = made.get('first')
    if case.get('pre') == 'same' and first is not None and first[0] == 'ok' and case['signer'][0] != 'none':
        # the packet of the earlier, identical call (same signer object, same argument objects) must verify as well;
        # (what its signer was handed is not recorded: judged through the verifier only)
        w1 = bytes.fromhex(first[1])
        out['first'] = {'verify': _verify(case, w1), 'spec': _hexspec(spec_portions(case['pkt'], w1)),
                        'parsed': _slim(PK.parse_packet(case['pkt'], w1))}
    if case['pkt'] == 'interest':
        out['digest_ok'] = _digest_check(wire)
    seen = set()
    for t in case['tamper']:
        w2 = _apply_tamper(wire, t)
        if w2 == wire or w2 in seen:
            continue
        seen.add(w2)
        v2, v3, v4 = _verify_checker(case, w2, chks)
        c = {'wire': w2.hex(), 'parsed': _slim(PK.parse_packet(case['pkt'], w2, form if form != 'no_tl' else None)),
             'spec': _hexspec(spec_portions(case['pkt'], w2)), 'verify': _verify(case, w2), 'verify2': v2, 'verify3': v3, 'verify4': v4}
        if case['pkt'] == 'interest':
            c['digest_ok'] = _digest_check(w2)
        out['copies'].append(c)
    return out


def _slim(p):
    """of a tampered copy only what the oracle and the model comparison read is kept"""
    return p if p['res'] != 'ok' else {k: p[k] for k in ('res', 'values', 'SC', 'SV', 'DC', 'DV')}


def _hexspec(s):
    if s == 'ambiguous':
        return None
    return None if s is None else [None if x is None else bytes(x).hex() for x in s]


# ------------------------------------------------------------------------------------- model
def model_line(case, impl):
    l = PK.model_make_line(case, impl['made'])
    if l is None or impl['made']['made'][0] != 'ok':
        return l
    op = 'pdata' if case['pkt'] == 'data' else 'pint'
    for c in impl['copies']:
        l += f" ;; {op} {T.hx(bytes.fromhex(c['wire']))}"
    return l


def model_obs(answer, case, impl):
    parts = answer.split(' ;; ')
    made, parsed = PK.parse_model_answer(parts[0])
    o = {'made': made['made']}
    if made['made'][0] == 'ok':
        o['covered'] = made['covered'] if case['signer'][0] != 'none' else None
        o['parsed'] = _pc(parsed, case)
        o['copies'] = []
        for p in parts[1:]:
            t = p.split()
            o['copies'].append(_pc(PK.parse_model_parse(t[1:]), case) if t[0] == 'ok' else {'res': 'err', 'err': t[1]})
    return o


def _pc(parsed, case):
    """the model's params_sha256_checker verdict is compared for Interests only"""
    if parsed.get('res') == 'ok' and case['pkt'] != 'interest':
        parsed = dict(parsed)
        parsed.pop('PC', None)
    return parsed


def _ipc(obs, c, case):
    if obs.get('res') == 'ok' and case_is_interest(case):
        obs = dict(obs)
        obs['PC'] = c.get('digest_ok') is True
    return obs


def case_is_interest(case):
    return case['pkt'] == 'interest'


def impl_obs(impl):
    m = impl['made']
    o = {'made': m['made']}
    if m['made'][0] == 'ok':
        o['covered'] = m.get('covered')
        isint = 'digest_ok' in impl
        o['parsed'] = PK.impl_parse_obs(impl['parsed'])
        if isint and o['parsed'].get('res') == 'ok':
            o['parsed']['PC'] = impl['digest_ok'] is True
        o['copies'] = []
        for c in impl['copies']:
            x = PK.impl_parse_obs(c['parsed'])
            if isint and x.get('res') == 'ok':
                x['PC'] = c.get('digest_ok') is True
            o['copies'].append(x)
    return o


# ------------------------------------------------------------------------------------- oracle
def oracle(case, impl):
    m = impl['made']
    if m['made'][0] != 'ok':
        return None            # C01's concern
    signed = case['signer'][0] != 'none'
    p, spec = impl['parsed'], impl['spec']
    if p['res'] != 'ok' or spec is None:
        return 'made packet does not parse'
    if signed:
        reported = ''.join(p['SC'])
        if m.get('covered') is None:
            return 'the signer was not asked to sign'
        if m['covered'] != spec[0]:
            return 'bytes handed to the signer differ from the specified signed portion of the final wire'
        if reported != spec[0]:
            return 'bytes reported by the parser differ from the specified signed portion'
        if p['SV'] != spec[1] or p['SV'] != m['sig']:
            return 'signature value reported by the parser differs from what the signer wrote'
        if impl['verify'] is False or (isinstance(impl['verify'], str)):
            return f"the matching verifier does not accept the packet its signer produced ({impl['verify']})"
        if impl.get('verify2') is False or isinstance(impl.get('verify2'), str):
            return f"the known-key checker for the signing key does not accept the packet its signer produced ({impl['verify2']})"
        if impl.get('verify3') is False or isinstance(impl.get('verify3'), str):
            return ("union_checker(sha256_digest_checker, known-key checker for the signing key) does not accept the packet "
                    f"its signer produced ({impl['verify3']})")
        if impl.get('verify4') is False or isinstance(impl.get('verify4'), str):
            return ("the known-key checker built from_cert (a certificate of the signing key) does not accept the packet its "
                    f"signer produced ({impl['verify4']})")
        f1 = impl.get('first')
        if f1 is not None:
            # an earlier identical call with the same signer object: that packet is a packet produced with a signer too
            if f1['parsed']['res'] != 'ok' or f1['spec'] is None:
                return 'first of two packets made with the same signer object does not parse'
            if ''.join(f1['parsed']['SC']) != f1['spec'][0] or f1['parsed']['SV'] != f1['spec'][1]:
                return 'first of two packets made with the same signer object: parser does not report the specified signed portion'
            if f1['verify'] is False or isinstance(f1['verify'], str):
                return f"first of two packets made with the same signer object is not accepted by the matching verifier ({f1['verify']})"
    if case['pkt'] == 'interest':
        r = _digest_rule(impl, spec, impl.get('digest_ok'))
        if r:
            return 'made packet: ' + r
        if (signed or case['app'] is not None) and impl.get('digest_ok') is not True:
            return "the library's own parameterised Interest fails its parameters-digest check"

    for c in impl['copies']:
        cp, cs = c['parsed'], c['spec']
        if cp['res'] != 'ok':
            continue
        if case['pkt'] == 'interest' and cs is not None:
            r = _digest_rule(c, cs, c.get('digest_ok'))
            if r:
                return 'tampered copy: ' + r
        if signed and c['verify'] == 'unstable':
            return 'the verifier gives two different verdicts for the same parsed packet'
        if signed and (c['verify'] is True or c.get('verify2') is True or c.get('verify3') is True or c.get('verify4') is True):
            # what the verifier consumed must be what was signed ...
            if ''.join(cp['SC']) != spec[0] or cp['SV'] != spec[1]:
                return 'verifier accepted a copy although the bytes it checked or the signature value differ from the signed packet'
            # ... and when a strict reading of the copy exists, its signed portion must be the signed one
            if cs is not None and cs[0] is not None and (cs[0] != spec[0] or cs[1] != spec[1]):
                return 'verifier accepted a copy whose signed portion or signature value differs from the signed packet'
    return None


def _digest_rule(obs, spec, got):
    """params_sha256_checker accepts iff digest component == SHA-256(ApplicationParameters .. end)"""
    if got in ('unparsable',) or got is None:
        return None
    if isinstance(got, str):
        return f'parameters-digest check raised {got}'
    portion, comp = spec[2], spec[3]
    if portion is None or comp is None:
        want = False           # nothing the digest could equal
    else:
        want = hashlib.sha256(bytes.fromhex(portion)).hexdigest() == comp
    if bool(got) != want:
        return f'parameters-digest check answered {got} but digest-equals-SHA256(parameters..end) is {want}'
    return None


def nontrivial(case, impl):
    return impl['made']['made'][0] == 'ok' and case['signer'][0] != 'none' and \
        any(c['parsed']['res'] == 'ok' for c in impl['copies'])


def tags(case, impl):
    t = ['pkt:' + case['pkt'], 'signer:' + case['signer'][0]]
    for k in ('payload_form', 'key_form', 'obj_form', 'pre', 'parse_form'):
        if case.get(k) is not None:
            t.append(f'{k}:{case[k]}')
    if impl.get('verify3') is not None:
        t.append('union:' + str(impl['verify3']))
    if impl.get('verify4') is not None:
        t.append('from_cert:' + str(impl['verify4']))
    for c in impl['copies']:
        t.append('copy:' + ('parses' if c['parsed']['res'] == 'ok' else 'rejected'))
        if c['parsed']['res'] == 'ok':
            t.append('copy-verify:' + str(c['verify']))
    return t


def finding_key(case, impl, why):
    import re
    return (case['pkt'] + ':' + re.sub(r'[^a-zA-Z]+', '-', why).strip('-').lower())[:90]
